module github.com/labstack/echo/v4

go 1.23
