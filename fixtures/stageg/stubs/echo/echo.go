// Package echo is a minimal stand-in for github.com/labstack/echo/v4 (see stubs/gin).
package echo

import "net/http"

type Response struct {
	Hdr    http.Header
	Status int
}

func (r *Response) Header() http.Header {
	if r.Hdr == nil {
		r.Hdr = http.Header{}
	}
	return r.Hdr
}

func (r *Response) WriteHeader(code int) { r.Status = code }

type Context interface {
	Request() *http.Request
	SetRequest(r *http.Request)
	Response() *Response
	Param(name string) string
	QueryParam(name string) string
	QueryParams() map[string][]string
	QueryString() string
	FormValue(name string) string
	FormParams() (map[string][]string, error)
	Path() string
	JSON(code int, i any) error
	NoContent(code int) error
	String(code int, s string) error
}

// Ctx is the concrete context the harness builds.
type Ctx struct {
	Req        *http.Request
	Resp       Response
	PathNames  []string
	PathValues []string

	Body    any
	HasBody bool
}

func (c *Ctx) Request() *http.Request     { return c.Req }
func (c *Ctx) SetRequest(r *http.Request) { c.Req = r }
func (c *Ctx) Response() *Response        { return &c.Resp }

func (c *Ctx) Param(name string) string {
	for i, n := range c.PathNames {
		if n == name {
			return c.PathValues[i]
		}
	}
	return ""
}

func (c *Ctx) QueryParam(name string) string { return c.Req.URL.Query().Get(name) }

func (c *Ctx) QueryParams() map[string][]string { return c.Req.URL.Query() }

func (c *Ctx) QueryString() string { return c.Req.URL.RawQuery }

// FormValue and FormParams follow net/http's Request.Form: body fields merged with the URL query
func (c *Ctx) FormValue(name string) string { return c.Req.FormValue(name) }

func (c *Ctx) FormParams() (map[string][]string, error) {
	merged := map[string][]string{}
	for k, vs := range c.Req.PostForm {
		merged[k] = append(merged[k], vs...)
	}
	for k, vs := range c.Req.URL.Query() {
		merged[k] = append(merged[k], vs...)
	}
	return merged, nil
}

func (c *Ctx) Path() string { return c.Req.URL.Path }

func (c *Ctx) NoContent(code int) error {
	c.Resp.Status = code
	return nil
}

func (c *Ctx) String(code int, s string) error {
	c.Resp.Status = code
	c.Body = s
	c.HasBody = true
	return nil
}

func (c *Ctx) JSON(code int, i any) error {
	c.Resp.Status = code
	c.Body = i
	c.HasBody = true
	return nil
}

type HandlerFunc func(c Context) error

type MiddlewareFunc func(next HandlerFunc) HandlerFunc

type RouteInfo struct {
	Method  string
	Path    string
	Handler HandlerFunc
}

type Route struct{}

type Echo struct{ Routes []RouteInfo }

func New() *Echo { return &Echo{} }

func (e *Echo) add(method, path string, h HandlerFunc) *Route {
	e.Routes = append(e.Routes, RouteInfo{method, path, h})
	return &Route{}
}

func (e *Echo) GET(path string, h HandlerFunc, m ...MiddlewareFunc) *Route    { return e.add("GET", path, h) }
func (e *Echo) POST(path string, h HandlerFunc, m ...MiddlewareFunc) *Route   { return e.add("POST", path, h) }
func (e *Echo) PUT(path string, h HandlerFunc, m ...MiddlewareFunc) *Route    { return e.add("PUT", path, h) }
func (e *Echo) PATCH(path string, h HandlerFunc, m ...MiddlewareFunc) *Route  { return e.add("PATCH", path, h) }
func (e *Echo) DELETE(path string, h HandlerFunc, m ...MiddlewareFunc) *Route { return e.add("DELETE", path, h) }
