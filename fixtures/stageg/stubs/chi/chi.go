// Package chi is a minimal stand-in for github.com/go-chi/chi/v5 (see stubs/gin).
package chi

import (
	"context"
	"net/http"
)

type paramsKey struct{}

type URLParams struct {
	Keys   []string
	Values []string
}

func SetURLParams(r *http.Request, p URLParams) *http.Request {
	return r.WithContext(context.WithValue(r.Context(), paramsKey{}, p))
}

func URLParam(r *http.Request, key string) string {
	if v := r.Context().Value(paramsKey{}); v != nil {
		p := v.(URLParams)
		for i := len(p.Keys) - 1; i >= 0; i-- {
			if p.Keys[i] == key {
				return p.Values[i]
			}
		}
	}
	return ""
}

type RouteInfo struct {
	Method  string
	Path    string
	Handler http.HandlerFunc
}

type Mux struct{ Routes []RouteInfo }

func NewRouter() *Mux { return &Mux{} }

func (m *Mux) add(method, path string, h http.HandlerFunc) {
	m.Routes = append(m.Routes, RouteInfo{method, path, h})
}

func (m *Mux) Get(path string, h http.HandlerFunc)    { m.add("GET", path, h) }
func (m *Mux) Post(path string, h http.HandlerFunc)   { m.add("POST", path, h) }
func (m *Mux) Put(path string, h http.HandlerFunc)    { m.add("PUT", path, h) }
func (m *Mux) Patch(path string, h http.HandlerFunc)  { m.add("PATCH", path, h) }
func (m *Mux) Delete(path string, h http.HandlerFunc) { m.add("DELETE", path, h) }
