module github.com/go-chi/chi/v5

go 1.23
