// Package gin is a minimal stand-in for github.com/gin-gonic/gin used by the stage-G harnesses:
// only the accessors that gleece's gin template calls, with gin's documented behaviour, reading
// a prebuilt *http.Request and recording the response instead of writing it to a socket.
package gin

import (
	"net/http"
	"net/textproto"
)

type Param struct{ Key, Value string }

type Params []Param

func (ps Params) Get(name string) (string, bool) {
	for _, p := range ps {
		if p.Key == name {
			return p.Value, true
		}
	}
	return "", false
}

type Context struct {
	Request *http.Request
	Params  Params

	// recorded response
	StatusCode  int
	Body        any
	HasBody     bool
	RespHeaders http.Header
}

func (c *Context) Header(key, value string) {
	if c.RespHeaders == nil {
		c.RespHeaders = http.Header{}
	}
	c.RespHeaders.Set(key, value)
}

func (c *Context) JSON(code int, obj any) {
	c.StatusCode = code
	c.Body = obj
	c.HasBody = true
}

func (c *Context) Status(code int) { c.StatusCode = code }

func (c *Context) GetQuery(key string) (string, bool) {
	if values, ok := c.GetQueryArray(key); ok {
		return values[0], ok
	}
	return "", false
}

func (c *Context) GetQueryArray(key string) ([]string, bool) {
	values, ok := c.Request.URL.Query()[key]
	if ok && len(values) > 0 {
		return values, true
	}
	return values, false
}

func (c *Context) GetHeader(key string) string {
	vs := c.Request.Header[textproto.CanonicalMIMEHeaderKey(key)]
	if len(vs) == 0 {
		return ""
	}
	return vs[0]
}

func (c *Context) Query(key string) string {
	v, _ := c.GetQuery(key)
	return v
}

func (c *Context) DefaultQuery(key, def string) string {
	if v, ok := c.GetQuery(key); ok {
		return v
	}
	return def
}

func (c *Context) Param(key string) string {
	v, _ := c.Params.Get(key)
	return v
}

func (c *Context) PostForm(key string) string {
	v, _ := c.GetPostForm(key)
	return v
}

func (c *Context) GetPostFormArray(key string) ([]string, bool) {
	values, ok := c.Request.PostForm[key]
	return values, ok && len(values) > 0
}

func (c *Context) AbortWithStatus(code int) { c.StatusCode = code }

func (c *Context) GetPostForm(key string) (string, bool) {
	if values, ok := c.Request.PostForm[key]; ok && len(values) > 0 {
		return values[0], true
	}
	return "", false
}

type HandlerFunc func(*Context)

type RouteInfo struct {
	Method  string
	Path    string
	Handler HandlerFunc
}

type Engine struct{ Routes []RouteInfo }

func New() *Engine { return &Engine{} }

func (e *Engine) handle(method, path string, hs []HandlerFunc) {
	e.Routes = append(e.Routes, RouteInfo{method, path, hs[len(hs)-1]})
}

func (e *Engine) GET(path string, hs ...HandlerFunc)    { e.handle("GET", path, hs) }
func (e *Engine) POST(path string, hs ...HandlerFunc)   { e.handle("POST", path, hs) }
func (e *Engine) PUT(path string, hs ...HandlerFunc)    { e.handle("PUT", path, hs) }
func (e *Engine) PATCH(path string, hs ...HandlerFunc)  { e.handle("PATCH", path, hs) }
func (e *Engine) DELETE(path string, hs ...HandlerFunc) { e.handle("DELETE", path, hs) }
