module github.com/gin-gonic/gin

go 1.23
