module github.com/go-playground/validator/v10

go 1.23
