// Package validator is a minimal stand-in for github.com/go-playground/validator/v10 with the one
// contract the generated routers rely on for requiredness: Var(nil pointer, "...required...") fails.
// Every other rule is accepted (the semantics of go-playground rules are outside the stage-G claim).
package validator

import (
	"reflect"
	"strings"
)

type FieldError interface {
	Field() string
	Tag() string
	Error() string
}

type fieldError struct{ field, tag string }

func (f fieldError) Field() string { return f.field }
func (f fieldError) Tag() string   { return f.tag }
func (f fieldError) Error() string { return "Key: '" + f.field + "' failed on the '" + f.tag + "' tag" }

type ValidationErrors []FieldError

func (ve ValidationErrors) Error() string {
	s := ""
	for _, e := range ve {
		s += e.Error() + "\n"
	}
	return s
}

type FieldLevel interface {
	Top() reflect.Value
	Parent() reflect.Value
	Field() reflect.Value
	FieldName() string
	StructFieldName() string
	Param() string
	GetTag() string
	ExtractType(field reflect.Value) (value reflect.Value, kind reflect.Kind, nullable bool)
	GetStructFieldOK() (reflect.Value, reflect.Kind, bool)
	GetStructFieldOKAdvanced(val reflect.Value, namespace string) (reflect.Value, reflect.Kind, bool)
	GetStructFieldOK2() (reflect.Value, reflect.Kind, bool, bool)
	GetStructFieldOKAdvanced2(val reflect.Value, namespace string) (reflect.Value, reflect.Kind, bool, bool)
}

type Func func(fl FieldLevel) bool

type Validate struct {
	custom map[string]Func
	// StructHook lets a harness decide the outcome of Struct (nil: accept)
	StructHook func(s any) error
}

func New() *Validate { return &Validate{custom: map[string]Func{}} }

func (v *Validate) RegisterValidation(tag string, fn Func, callValidationEvenIfNull ...bool) error {
	v.custom[tag] = fn
	return nil
}

func isNilPointer(field any) bool {
	if field == nil {
		return true
	}
	rv := reflect.ValueOf(field)
	return rv.Kind() == reflect.Ptr && rv.IsNil()
}

// Var validates a single variable; only the `required` rule is interpreted.
func (v *Validate) Var(field any, tag string) error {
	for _, rule := range strings.Split(tag, ",") {
		if rule == "required" && isNilPointer(field) {
			return ValidationErrors{fieldError{"", "required"}}
		}
	}
	return nil
}

func (v *Validate) Struct(s any) error {
	if v.StructHook != nil {
		return v.StructHook(s)
	}
	return nil
}
