// Package mux is a minimal stand-in for github.com/gorilla/mux (see stubs/gin).
package mux

import (
	"context"
	"net/http"
)

type varsKey struct{}

// SetURLVars attaches route variables to the request (what the real router does when it matches).
func SetURLVars(r *http.Request, vars map[string]string) *http.Request {
	return r.WithContext(context.WithValue(r.Context(), varsKey{}, vars))
}

func Vars(r *http.Request) map[string]string {
	if rv := r.Context().Value(varsKey{}); rv != nil {
		return rv.(map[string]string)
	}
	return nil
}

type RouteInfo struct {
	Methods []string
	Path    string
	Handler func(http.ResponseWriter, *http.Request)
}

type Route struct{ info *RouteInfo }

func (r *Route) Methods(methods ...string) *Route {
	r.info.Methods = append(r.info.Methods, methods...)
	return r
}

type Router struct{ Routes []*RouteInfo }

func NewRouter() *Router { return &Router{} }

func (r *Router) HandleFunc(path string, f func(http.ResponseWriter, *http.Request)) *Route {
	info := &RouteInfo{Path: path, Handler: f}
	r.Routes = append(r.Routes, info)
	return &Route{info}
}
