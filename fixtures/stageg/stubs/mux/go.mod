module github.com/gorilla/mux

go 1.23
