// Package fiber is a minimal stand-in for github.com/gofiber/fiber/v2 (see stubs/gin).
package fiber

import "context"

// Args mimics fasthttp.Args: an ordered multi-map of decoded key/values.
type Args struct {
	Keys   []string
	Values []string
}

func (a *Args) Has(key string) bool {
	for _, k := range a.Keys {
		if k == key {
			return true
		}
	}
	return false
}

func (a *Args) Peek(key string) []byte {
	for i, k := range a.Keys {
		if k == key {
			return []byte(a.Values[i])
		}
	}
	return nil
}

func (a *Args) PeekMulti(key string) [][]byte {
	var out [][]byte
	for i, k := range a.Keys {
		if k == key {
			out = append(out, []byte(a.Values[i]))
		}
	}
	return out
}

type RequestHeader struct{ Args }

type Request struct{ Header RequestHeader }

// RequestCtx mimics the part of fasthttp.RequestCtx the template touches.
type RequestCtx struct {
	Query Args
	Post  Args
}

func (c *RequestCtx) QueryArgs() *Args { return &c.Query }
func (c *RequestCtx) PostArgs() *Args  { return &c.Post }

type Ctx struct {
	Fast       RequestCtx
	Req        Request
	PathNames  []string
	PathValues []string
	RawBody    []byte
	UserCtx    context.Context

	StatusCode  int
	RespBody    any
	HasBody     bool
	RespHeaders map[string]string
}

func (c *Ctx) Context() *RequestCtx { return &c.Fast }
func (c *Ctx) Request() *Request    { return &c.Req }
func (c *Ctx) Body() []byte         { return c.RawBody }

func (c *Ctx) UserContext() context.Context {
	if c.UserCtx == nil {
		c.UserCtx = context.Background()
	}
	return c.UserCtx
}

func (c *Ctx) SetUserContext(ctx context.Context) { c.UserCtx = ctx }

func (c *Ctx) Set(key, val string) {
	if c.RespHeaders == nil {
		c.RespHeaders = map[string]string{}
	}
	c.RespHeaders[key] = val
}

// Get returns the request header value (empty when absent).
func (c *Ctx) Get(key string, defaultValue ...string) string {
	if v := c.Req.Header.Peek(key); len(v) > 0 {
		return string(v)
	}
	if len(defaultValue) > 0 {
		return defaultValue[0]
	}
	return ""
}

func (c *Ctx) Query(key string, defaultValue ...string) string {
	if c.Fast.Query.Has(key) {
		return string(c.Fast.Query.Peek(key))
	}
	if len(defaultValue) > 0 {
		return defaultValue[0]
	}
	return ""
}

func (c *Ctx) Params(key string, defaultValue ...string) string {
	for i, n := range c.PathNames {
		if n == key {
			return c.PathValues[i]
		}
	}
	if len(defaultValue) > 0 {
		return defaultValue[0]
	}
	return ""
}

func (c *Ctx) FormValue(key string, defaultValue ...string) string {
	if c.Fast.Post.Has(key) {
		return string(c.Fast.Post.Peek(key))
	}
	if len(defaultValue) > 0 {
		return defaultValue[0]
	}
	return ""
}

func (c *Ctx) Status(status int) *Ctx {
	c.StatusCode = status
	return c
}

func (c *Ctx) JSON(data any, ctype ...string) error {
	c.RespBody = data
	c.HasBody = true
	return nil
}

func (c *Ctx) SendStatus(status int) error {
	c.StatusCode = status
	return nil
}

type Handler = func(*Ctx) error

type Router interface{}

type RouteInfo struct {
	Method  string
	Path    string
	Handler Handler
}

type App struct{ Routes []RouteInfo }

func New() *App { return &App{} }

func (a *App) add(method, path string, hs []Handler) Router {
	a.Routes = append(a.Routes, RouteInfo{method, path, hs[len(hs)-1]})
	return a
}

func (a *App) Get(path string, hs ...Handler) Router    { return a.add("GET", path, hs) }
func (a *App) Post(path string, hs ...Handler) Router   { return a.add("POST", path, hs) }
func (a *App) Put(path string, hs ...Handler) Router    { return a.add("PUT", path, hs) }
func (a *App) Patch(path string, hs ...Handler) Router  { return a.add("PATCH", path, hs) }
func (a *App) Delete(path string, hs ...Handler) Router { return a.add("DELETE", path, hs) }
