module github.com/gofiber/fiber/v2

go 1.23
