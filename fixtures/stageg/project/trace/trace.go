// Package trace records what the generated routers do with the user's code: authorization callbacks
// and controller invocations. The harness installs the hooks that decide the callbacks' answers.
package trace

import (
	"context"

	"github.com/gopher-fleece/runtime"
)

type Event struct {
	Kind string // "auth" | "call"
	Name string // scheme name | Controller.Method
	Args []any  // scopes | arguments as received
}

var Events []Event

// AuthHook decides an authorization check (nil: approve).
var AuthHook func(check runtime.SecurityCheck) *runtime.SecurityError

// ResultHook decides a controller method's result.
var ResultHook func(method string) (any, error)

func Reset() {
	Events = nil
	AuthHook = nil
	ResultHook = nil
}

func Authorize(ctx context.Context, check runtime.SecurityCheck) (context.Context, *runtime.SecurityError) {
	args := make([]any, len(check.Scopes))
	for i, s := range check.Scopes {
		args[i] = s
	}
	Events = append(Events, Event{Kind: "auth", Name: check.SchemaName, Args: args})
	if AuthHook != nil {
		return ctx, AuthHook(check)
	}
	return ctx, nil
}

func Invoke(method string, args ...any) (any, error) {
	Events = append(Events, Event{Kind: "call", Name: method, Args: args})
	if ResultHook != nil {
		return ResultHook(method)
	}
	return nil, nil
}
