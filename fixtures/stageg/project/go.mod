module verifgen

go 1.24.7

require (
	github.com/gin-gonic/gin v0.0.0
	github.com/go-chi/chi/v5 v5.0.0
	github.com/go-playground/validator/v10 v10.0.0
	github.com/gofiber/fiber/v2 v2.0.0
	github.com/gopher-fleece/runtime v1.2.1
	github.com/gorilla/mux v0.0.0
	github.com/labstack/echo/v4 v4.0.0
)

replace (
	github.com/gin-gonic/gin => ../stubs/gin
	github.com/go-chi/chi/v5 => ../stubs/chi
	github.com/go-playground/validator/v10 => ../stubs/validator
	github.com/gofiber/fiber/v2 => ../stubs/fiber
	github.com/gorilla/mux => ../stubs/mux
	github.com/labstack/echo/v4 => ../stubs/echo
)
