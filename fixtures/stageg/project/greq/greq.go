// Package greq is the engine-neutral request/response used by the stage-G harnesses, and the adapters
// that turn it into each (stub) framework's context and back.
package greq

import (
	"bytes"
	"io"
	"net/http"
	"net/textproto"
	"net/url"

	"github.com/gin-gonic/gin"
	"github.com/go-chi/chi/v5"
	"github.com/gofiber/fiber/v2"
	"github.com/gorilla/mux"
	"github.com/labstack/echo/v4"
)

type KV struct{ Key, Value string }

// Req is a decoded request: what the client put in each location.
type Req struct {
	Path    []KV // route variables as the router matched them
	Query   []KV // decoded query pairs, in order (a key may repeat)
	Header  []KV
	Form    []KV
	Body    []byte
	HasBody bool
}

type Resp struct {
	Status    int
	HasBody   bool
	Body      any    // gin/echo/fiber hand the value to the framework's JSON writer
	BodyBytes []byte // mux/chi encode themselves
}

// HTTP builds the *http.Request a net/http based framework would hand to the handler.
func (r Req) HTTP(method string) *http.Request {
	q := ""
	for i, kv := range r.Query {
		if i > 0 {
			q += "&"
		}
		q += url.QueryEscape(kv.Key) + "=" + url.QueryEscape(kv.Value)
	}
	h := http.Header{}
	for _, kv := range r.Header {
		k := textproto.CanonicalMIMEHeaderKey(kv.Key)
		h[k] = append(h[k], kv.Value)
	}
	form := url.Values{}
	for _, kv := range r.Form {
		form[kv.Key] = append(form[kv.Key], kv.Value)
	}
	// net/http's ParseForm: PostForm holds the body fields; Form holds them followed by the URL query's values
	merged := url.Values{}
	for k, vs := range form {
		merged[k] = append(merged[k], vs...)
	}
	for _, kv := range r.Query {
		merged[kv.Key] = append(merged[kv.Key], kv.Value)
	}
	req := &http.Request{Method: method, URL: &url.URL{Path: "/", RawQuery: q}, Header: h, PostForm: form, Form: merged}
	if r.HasBody {
		req.Body = io.NopCloser(bytes.NewReader(r.Body))
	} else {
		req.Body = http.NoBody
	}
	return req
}

// recorder is the http.ResponseWriter of the net/http based engines.
type recorder struct {
	hdr    http.Header
	status int
	body   []byte
}

func (w *recorder) Header() http.Header {
	if w.hdr == nil {
		w.hdr = http.Header{}
	}
	return w.hdr
}
func (w *recorder) WriteHeader(code int) { w.status = code }
func (w *recorder) Write(b []byte) (int, error) {
	w.body = append(w.body, b...)
	return len(b), nil
}

func RunGin(h gin.HandlerFunc, method string, r Req) Resp {
	c := &gin.Context{Request: r.HTTP(method)}
	for _, kv := range r.Path {
		c.Params = append(c.Params, gin.Param{Key: kv.Key, Value: kv.Value})
	}
	h(c)
	return Resp{Status: c.StatusCode, HasBody: c.HasBody, Body: c.Body}
}

func RunEcho(h echo.HandlerFunc, method string, r Req) Resp {
	c := &echo.Ctx{Req: r.HTTP(method)}
	for _, kv := range r.Path {
		c.PathNames = append(c.PathNames, kv.Key)
		c.PathValues = append(c.PathValues, kv.Value)
	}
	h(c)
	return Resp{Status: c.Resp.Status, HasBody: c.HasBody, Body: c.Body}
}

func RunMux(h func(http.ResponseWriter, *http.Request), method string, r Req) Resp {
	vars := map[string]string{}
	for _, kv := range r.Path {
		vars[kv.Key] = kv.Value
	}
	w := &recorder{}
	h(w, mux.SetURLVars(r.HTTP(method), vars))
	return Resp{Status: w.status, HasBody: len(w.body) > 0, BodyBytes: w.body}
}

func RunChi(h http.HandlerFunc, method string, r Req) Resp {
	var p chi.URLParams
	for _, kv := range r.Path {
		p.Keys = append(p.Keys, kv.Key)
		p.Values = append(p.Values, kv.Value)
	}
	w := &recorder{}
	h(w, chi.SetURLParams(r.HTTP(method), p))
	return Resp{Status: w.status, HasBody: len(w.body) > 0, BodyBytes: w.body}
}

func RunFiber(h fiber.Handler, method string, r Req) Resp {
	c := &fiber.Ctx{RawBody: r.Body}
	for _, kv := range r.Path {
		c.PathNames = append(c.PathNames, kv.Key)
		c.PathValues = append(c.PathValues, kv.Value)
	}
	for _, kv := range r.Query {
		c.Fast.Query.Keys = append(c.Fast.Query.Keys, kv.Key)
		c.Fast.Query.Values = append(c.Fast.Query.Values, kv.Value)
	}
	for _, kv := range r.Form {
		c.Fast.Post.Keys = append(c.Fast.Post.Keys, kv.Key)
		c.Fast.Post.Values = append(c.Fast.Post.Values, kv.Value)
	}
	for _, kv := range r.Header {
		c.Req.Header.Keys = append(c.Req.Header.Keys, kv.Key)
		c.Req.Header.Values = append(c.Req.Header.Values, kv.Value)
	}
	h(c)
	return Resp{Status: c.StatusCode, HasBody: c.HasBody, Body: c.RespBody}
}

// Route is one registered (verb, engine path) pair.
type Route struct{ Method, Path string }
