// Package specdata holds the specifications the CLI wrote for the fixture project (overwritten by stageg_prepare.sh).
package specdata

const Spec30 = `{}`

const Spec31 = `{}`
