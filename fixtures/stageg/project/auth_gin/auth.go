// Package auth_gin is the user-supplied authorization callback of the fixture for the gin engine.
package auth_gin

import (
	"context"
	"github.com/gin-gonic/gin"

	"github.com/gopher-fleece/runtime"

	"verifgen/trace"
)

func GleeceRequestAuthorization(ctx context.Context, ginCtx *gin.Context, check runtime.SecurityCheck) (context.Context, *runtime.SecurityError) {
	return trace.Authorize(ctx, check)
}
