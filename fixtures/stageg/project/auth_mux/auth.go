// Package auth_mux is the user-supplied authorization callback of the fixture for the mux engine.
package auth_mux

import (
	"context"
	"net/http"

	"github.com/gopher-fleece/runtime"

	"verifgen/trace"
)

func GleeceRequestAuthorization(ctx context.Context, req *http.Request, check runtime.SecurityCheck) (context.Context, *runtime.SecurityError) {
	return trace.Authorize(ctx, check)
}
