// Package api is the fixture project of the stage-G checks: annotated controllers whose methods
// record how they were invoked (package trace) and return what the harness decides.
package api

import (
	"context"

	"github.com/gopher-fleece/runtime"

	"verifgen/trace"
)

type Color string

const (
	ColorRed  Color = "red"
	ColorBlue Color = "blue"
)

type Item struct {
	Name  string `json:"name" validate:"required"`
	Count int    `json:"count"`
}

func str(v any) string {
	if s, ok := v.(string); ok {
		return s
	}
	return ""
}

// @Tag(Items)
// @Route(/api)
// @Security(s0, { scopes: ["r"] })
type ItemsController struct {
	runtime.GleeceController
}

// @Method(GET)
// @Route(/items/{id})
// @Path(id)
// @Query(q)
// @Header(h, { name: "x-h" })
func (c *ItemsController) GetItem(id int, q *string, h string) (string, error) {
	r, err := trace.Invoke("ItemsController.GetItem", id, q, h)
	return str(r), err
}

// @Method(POST)
// @Route(/items)
// @Body(item)
// @Security(s1, { scopes: ["w"] })
// @Security(s2, { scopes: ["w", "x"] })
func (c *ItemsController) CreateItem(item Item) (Item, error) {
	r, err := trace.Invoke("ItemsController.CreateItem", item)
	out, _ := r.(Item)
	return out, err
}

// @Method(POST)
// @Route(//form/)
// @FormField(a)
// @FormField(b)
// @Hidden
func (c *ItemsController) SubmitForm(a string, b *int) error {
	_, err := trace.Invoke("ItemsController.SubmitForm", a, b)
	return err
}

// @Method(GET)
// @Route(/search)
// @Query(tags)
// @Query(n)
// @Query(flag)
// @Header(small, { name: "x-small" })
func (c *ItemsController) Search(tags []string, n uint, flag bool, small *int8) (bool, error) {
	r, err := trace.Invoke("ItemsController.Search", tags, n, flag, small)
	b, _ := r.(bool)
	return b, err
}

// @Method(GET)
// @Route(/colors)
// @Query(color, { name: "c" })
func (c *ItemsController) ByColor(ctx context.Context, color Color) (string, error) {
	r, err := trace.Invoke("ItemsController.ByColor", ctx != nil, color)
	return str(r), err
}

// @Method(GET)
// @Route(/scale)
// @Query(ratio)
// @Query(factor)
func (c *ItemsController) Scale(ratio float32, factor *float64) (string, error) {
	r, err := trace.Invoke("ItemsController.Scale", ratio, factor)
	return str(r), err
}

type ID string

// Sized integers, a pointer to bool, a slice of ints, a pointer to an enum and a string alias - all in the query.
//
// @Method(GET)
// @Route(/wide)
// @Query(p0)
// @Query(p1)
// @Query(p2)
// @Query(p3)
// @Query(p4)
// @Query(p5)
// @Query(p6)
// @Query(p7)
// @Query(p8)
// @Query(p9)
func (c *ItemsController) Wide(p0 int16, p1 int32, p2 uint8, p3 uint16, p4 uint32, p5 uint64, p6 *bool, p7 []int, p8 *Color, p9 ID) (string, error) {
	r, err := trace.Invoke("ItemsController.Wide", p0, p1, p2, p3, p4, p5, p6, p7, p8, p9)
	return str(r), err
}

// A method declared with an anonymous receiver and a @Security annotation without properties.
//
// @Method(GET)
// @Route(/ping)
// @Security(s3)
func (*ItemsController) Ping() error {
	_, err := trace.Invoke("ItemsController.Ping")
	return err
}

// No @Security here: routes fall back to the configured default security.
//
// @Tag(Things)
// @Route(other/)
type ThingsController struct {
	runtime.GleeceController
}

// @Method(DELETE)
// @Route(things/{name})
// @Path(name)
func (c *ThingsController) RemoveThing(name string) error {
	_, err := trace.Invoke("ThingsController.RemoveThing", name)
	return err
}

// @Method(PUT)
// @Route(/things/{name})
// @Path(key, { name: "name" })
// @Query(big)
func (c *ThingsController) PutThing(key string, big int64) (string, error) {
	r, err := trace.Invoke("ThingsController.PutThing", key, big)
	return str(r), err
}
