// Package auth_echo is the user-supplied authorization callback of the fixture for the echo engine.
package auth_echo

import (
	"context"
	"github.com/labstack/echo/v4"

	"github.com/gopher-fleece/runtime"

	"verifgen/trace"
)

func GleeceRequestAuthorization(ctx context.Context, echoCtx echo.Context, check runtime.SecurityCheck) (context.Context, *runtime.SecurityError) {
	return trace.Authorize(ctx, check)
}
