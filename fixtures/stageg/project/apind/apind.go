// Package apind is the second stage-G fixture: a controller without controller-level security in a project
// without default security (gleece.<engine>.nd.json), one method with its own @Security and one without any.
package apind

import (
	"github.com/gopher-fleece/runtime"

	"verifgen/trace"
)

// @Tag(Open)
// @Route(/nd)
type OpenController struct {
	runtime.GleeceController
}

// @Method(GET)
// @Route(/locked)
// @Security(s1, { scopes: ["w"] })
func (c *OpenController) Locked() error {
	_, err := trace.Invoke("OpenController.Locked")
	return err
}

// @Method(GET)
// @Route(/free)
func (c *OpenController) Free() error {
	_, err := trace.Invoke("OpenController.Free")
	return err
}
