// Package cross hosts the stage-G harnesses that drive the five generated routers side by side.
package cross
