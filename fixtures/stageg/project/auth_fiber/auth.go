// Package auth_fiber is the user-supplied authorization callback of the fixture for the fiber engine.
package auth_fiber

import (
	"context"
	"github.com/gofiber/fiber/v2"

	"github.com/gopher-fleece/runtime"

	"verifgen/trace"
)

func GleeceRequestAuthorization(ctx context.Context, fiberCtx *fiber.Ctx, check runtime.SecurityCheck) (context.Context, *runtime.SecurityError) {
	return trace.Authorize(ctx, check)
}
