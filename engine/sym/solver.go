package sym

import (
	"bufio"
	"fmt"
	"io"
	"os/exec"
	"strconv"
	"strings"
	"time"
)

type Result int

const (
	Sat Result = iota
	Unsat
	Unknown
)

func (r Result) String() string { return [...]string{"sat", "unsat", "unknown"}[r] }

// Solver wraps one persistent SMT solver process speaking SMT-LIB2 over pipes.
type Solver struct {
	Name    string
	cmd     *exec.Cmd
	in      io.WriteCloser
	out     *bufio.Reader
	Queries int
	Time    time.Duration
	GetTime time.Duration
	scoped  bool
	LastErr string
	Log     io.Writer
}

// StartSolver starts kind ("z3", "z3-new", "cvc5") with a per-query timeout.
func StartSolver(kind string, timeoutMs int) (*Solver, error) {
	var cmd *exec.Cmd
	switch kind {
	case "z3", "z3-new":
		cmd = exec.Command(kind, "-in", fmt.Sprintf("-t:%d", timeoutMs))
	case "cvc5":
		cmd = exec.Command("cvc5", "--incremental", "--lang=smt2", "--produce-models", "--bv-solver=bitblast-internal", fmt.Sprintf("--tlimit-per=%d", timeoutMs))
	default:
		return nil, fmt.Errorf("unknown solver %q", kind)
	}
	in, err := cmd.StdinPipe()
	if err != nil {
		return nil, err
	}
	outp, err := cmd.StdoutPipe()
	if err != nil {
		return nil, err
	}
	cmd.Stderr = nil
	if err := cmd.Start(); err != nil {
		return nil, err
	}
	s := &Solver{Name: kind, cmd: cmd, in: in, out: bufio.NewReaderSize(outp, 1<<16)}
	s.Send("(set-option :produce-models true)")
	if kind == "cvc5" {
		s.Send("(set-logic QF_BV)")
	}
	return s, nil
}

func (s *Solver) Close() {
	if s == nil || s.cmd == nil {
		return
	}
	io.WriteString(s.in, "(exit)\n")
	s.in.Close()
	done := make(chan struct{})
	go func() { s.cmd.Wait(); close(done) }()
	select {
	case <-done:
	case <-time.After(2 * time.Second):
		s.cmd.Process.Kill()
	}
}

func (s *Solver) Send(line string) {
	if s.Log != nil {
		fmt.Fprintln(s.Log, line)
	}
	io.WriteString(s.in, line)
	io.WriteString(s.in, "\n")
}

// Reset clears all assertions and declarations of the current path. It keeps the solver
// context alive (pop/push of an outer scope) because a full (reset) costs ~1 ms per path.
func (s *Solver) Reset() {
	if s.scoped {
		s.Send("(pop 1)")
	}
	s.Send("(push 1)")
	s.scoped = true
}

func (s *Solver) Declare(v *Term) {
	if v.W == 0 {
		s.Send("(declare-const |" + v.Name + "| Bool)")
	} else {
		s.Send("(declare-const |" + v.Name + "| (_ BitVec " + strconv.Itoa(v.W) + "))")
	}
}

func (s *Solver) Assert(t *Term) { s.Send("(assert " + t.SMT() + ")") }
func (s *Solver) Push()          { s.Send("(push 1)") }
func (s *Solver) Pop()           { s.Send("(pop 1)") }

func (s *Solver) readLine() (string, error) {
	l, err := s.out.ReadString('\n')
	return strings.TrimSpace(l), err
}

// Check runs (check-sat). Any error output makes the answer Unknown.
func (s *Solver) Check() Result {
	t0 := time.Now()
	s.Send("(check-sat)")
	s.Queries++
	defer func() { s.Time += time.Since(t0) }()
	for {
		l, err := s.readLine()
		if err != nil {
			s.LastErr = "solver died: " + err.Error()
			return Unknown
		}
		switch {
		case l == "sat":
			return Sat
		case l == "unsat":
			return Unsat
		case l == "unknown" || l == "timeout":
			s.LastErr = l
			return Unknown
		case l == "":
			continue
		case strings.HasPrefix(l, "(error"):
			s.LastErr = l
			// an error line precedes the answer for z3; keep reading until an answer,
			// but the answer is not trusted.
			s.drainAnswer()
			return Unknown
		default:
			s.LastErr = "unexpected solver output: " + l
			return Unknown
		}
	}
}

func (s *Solver) drainAnswer() {
	// best effort: after an (error ...) line z3 still prints sat/unsat/unknown for check-sat.
	// We synchronise with an echo marker.
	s.Send("(echo \"@@sync\")")
	for {
		l, err := s.readLine()
		if err != nil || strings.Contains(l, "@@sync") {
			return
		}
	}
}

// GetValues asks for the values of the given terms after a Sat answer.
func (s *Solver) GetValues(ts []*Term) ([]uint64, error) {
	if len(ts) == 0 {
		return nil, nil
	}
	tg := time.Now()
	defer func() { s.GetTime += time.Since(tg) }()
	var sb strings.Builder
	sb.WriteString("(get-value (")
	for i, t := range ts {
		if i > 0 {
			sb.WriteByte(' ')
		}
		sb.WriteString(t.SMT())
	}
	sb.WriteString("))")
	s.Send(sb.String())
	// read a balanced s-expression
	var buf strings.Builder
	depth := 0
	started := false
	inBar := false
	for {
		c, err := s.out.ReadByte()
		if err != nil {
			return nil, fmt.Errorf("solver died in get-value")
		}
		buf.WriteByte(c)
		if c == '|' {
			inBar = !inBar
		}
		if inBar {
			continue
		}
		if c == '(' {
			depth++
			started = true
		} else if c == ')' {
			depth--
		}
		if started && depth == 0 {
			break
		}
	}
	txt := buf.String()
	if strings.Contains(txt, "(error") {
		return nil, fmt.Errorf("get-value: %s", txt)
	}
	// values are the last token of each pair, in order: extract #x.., #b.., true, false, (_ bvN W)
	vals := make([]uint64, 0, len(ts))
	// parse pairs: top-level list of (term value); scan for value tokens at pair end.
	// Strategy: split at depth-1 pairs.
	depth = 0
	inBar = false
	start := -1
	for i := 0; i < len(txt); i++ {
		c := txt[i]
		if c == '|' {
			inBar = !inBar
		}
		if inBar {
			continue
		}
		if c == '(' {
			depth++
			if depth == 2 {
				start = i
			}
		} else if c == ')' {
			if depth == 2 {
				pair := txt[start+1 : i]
				v, err := lastValue(pair)
				if err != nil {
					return nil, err
				}
				vals = append(vals, v)
			}
			depth--
		}
	}
	if len(vals) != len(ts) {
		return nil, fmt.Errorf("get-value: got %d values for %d terms: %s", len(vals), len(ts), txt)
	}
	return vals, nil
}

func lastValue(pair string) (uint64, error) {
	p := strings.TrimSpace(pair)
	// (_ bvN W) form
	if strings.HasSuffix(p, ")") {
		i := strings.LastIndex(p, "(_ bv")
		if i >= 0 {
			f := strings.Fields(p[i+5 : len(p)-1])
			return strconv.ParseUint(f[0], 10, 64)
		}
		return 0, fmt.Errorf("unparsable value in %q", pair)
	}
	i := strings.LastIndexAny(p, " \t\n")
	tok := p[i+1:]
	switch {
	case tok == "true":
		return 1, nil
	case tok == "false":
		return 0, nil
	case strings.HasPrefix(tok, "#x"):
		return strconv.ParseUint(tok[2:], 16, 64)
	case strings.HasPrefix(tok, "#b"):
		return strconv.ParseUint(tok[2:], 2, 64)
	}
	return 0, fmt.Errorf("unparsable value token %q in %q", tok, pair)
}
