// Package sym implements the term language of the gosym engine: booleans and
// fixed-width bit-vectors (width 1..64), with constant folding, light
// simplification, SMT-LIB2 printing and evaluation under a model.
package sym

import (
	"fmt"
	"math/bits"
	"strconv"
	"strings"
)

type Op uint8

const (
	OpConst Op = iota
	OpVar
	// boolean
	OpNot
	OpAnd
	OpOr
	OpEq // args same sort (bool or bv) -> bool
	OpIte
	// bv -> bv
	OpAdd
	OpSub
	OpMul
	OpUDiv
	OpSDiv
	OpURem
	OpSRem
	OpBAnd
	OpBOr
	OpBXor
	OpShl
	OpLShr
	OpAShr
	OpNeg
	OpBNot
	OpZExt
	OpSExt
	OpExtract // Lo = low bit, W = width
	OpConcat
	// bv -> bool
	OpULt
	OpULe
	OpSLt
	OpSLe
)

var opNames = map[Op]string{
	OpNot: "not", OpAnd: "and", OpOr: "or", OpEq: "=", OpIte: "ite",
	OpAdd: "bvadd", OpSub: "bvsub", OpMul: "bvmul", OpUDiv: "bvudiv", OpSDiv: "bvsdiv",
	OpURem: "bvurem", OpSRem: "bvsrem", OpBAnd: "bvand", OpBOr: "bvor", OpBXor: "bvxor",
	OpShl: "bvshl", OpLShr: "bvlshr", OpAShr: "bvashr", OpNeg: "bvneg", OpBNot: "bvnot",
	OpULt: "bvult", OpULe: "bvule", OpSLt: "bvslt", OpSLe: "bvsle", OpConcat: "concat",
}

// Term is an immutable expression. W == 0 means sort Bool; otherwise a
// bit-vector of width W (1..64).
type Term struct {
	Op   Op
	W    int
	Args []*Term
	Val  uint64 // OpConst (bool: 0/1)
	Name string // OpVar
	Lo   int    // OpExtract
	smt  string
}

var (
	True  = &Term{Op: OpConst, W: 0, Val: 1}
	False = &Term{Op: OpConst, W: 0, Val: 0}
)

func mask(w int) uint64 {
	if w >= 64 {
		return ^uint64(0)
	}
	return (uint64(1) << uint(w)) - 1
}

func Bool(b bool) *Term {
	if b {
		return True
	}
	return False
}

func BV(w int, v uint64) *Term { return &Term{Op: OpConst, W: w, Val: v & mask(w)} }

func Var(name string, w int) *Term { return &Term{Op: OpVar, W: w, Name: name} }

func (t *Term) IsConst() bool { return t.Op == OpConst }
func (t *Term) IsBool() bool  { return t.W == 0 }
func (t *Term) IsTrue() bool  { return t.Op == OpConst && t.W == 0 && t.Val == 1 }
func (t *Term) IsFalse() bool { return t.Op == OpConst && t.W == 0 && t.Val == 0 }

func signExt(v uint64, w int) int64 {
	if w >= 64 {
		return int64(v)
	}
	sh := uint(64 - w)
	return int64(v<<sh) >> sh
}

// ---------------------------------------------------------------- builders

func Not(a *Term) *Term {
	if a.IsConst() {
		return Bool(a.Val == 0)
	}
	if a.Op == OpNot {
		return a.Args[0]
	}
	return &Term{Op: OpNot, Args: []*Term{a}}
}

func And(as ...*Term) *Term {
	var out []*Term
	for _, a := range as {
		if a.IsConst() {
			if a.Val == 0 {
				return False
			}
			continue
		}
		if a.Op == OpAnd {
			out = append(out, a.Args...)
			continue
		}
		out = append(out, a)
	}
	switch len(out) {
	case 0:
		return True
	case 1:
		return out[0]
	}
	return &Term{Op: OpAnd, Args: out}
}

func Or(as ...*Term) *Term {
	var out []*Term
	for _, a := range as {
		if a.IsConst() {
			if a.Val == 1 {
				return True
			}
			continue
		}
		if a.Op == OpOr {
			out = append(out, a.Args...)
			continue
		}
		out = append(out, a)
	}
	switch len(out) {
	case 0:
		return False
	case 1:
		return out[0]
	}
	return &Term{Op: OpOr, Args: out}
}

func Eq(a, b *Term) *Term {
	if a.W != b.W {
		panic(fmt.Sprintf("sym.Eq: sort mismatch %d vs %d", a.W, b.W))
	}
	if a == b {
		return True
	}
	if a.IsConst() && b.IsConst() {
		return Bool(a.Val == b.Val)
	}
	if a.W == 0 {
		if a.IsConst() {
			a, b = b, a
		}
		if b.IsConst() {
			if b.Val == 1 {
				return a
			}
			return Not(a)
		}
	}
	if a.Op == OpVar && b.Op == OpVar && a.Name == b.Name {
		return True
	}
	// x + c1 == x + c2, x + c == x
	if a.W > 0 {
		ab, ac := splitAddConst(a)
		bb, bc := splitAddConst(b)
		if ab != nil && bb != nil && sameTerm(ab, bb) {
			return Bool(ac == bc)
		}
	}
	// zext(x) == const  -> narrow when possible
	if b.IsConst() && a.Op == OpZExt {
		in := a.Args[0]
		if b.Val&^mask(in.W) != 0 {
			return False
		}
		return Eq(in, BV(in.W, b.Val))
	}
	if a.IsConst() && b.Op == OpZExt {
		return Eq(b, a)
	}
	return &Term{Op: OpEq, Args: []*Term{a, b}}
}

func Ite(c, a, b *Term) *Term {
	if c.IsConst() {
		if c.Val == 1 {
			return a
		}
		return b
	}
	if a == b {
		return a
	}
	if a.W == 0 && a.IsConst() && b.IsConst() {
		if a.Val == 1 && b.Val == 0 {
			return c
		}
		if a.Val == 0 && b.Val == 1 {
			return Not(c)
		}
	}
	return &Term{Op: OpIte, W: a.W, Args: []*Term{c, a, b}}
}

func foldBin(op Op, w int, x, y uint64) (uint64, bool) {
	m := mask(w)
	switch op {
	case OpAdd:
		return (x + y) & m, true
	case OpSub:
		return (x - y) & m, true
	case OpMul:
		return (x * y) & m, true
	case OpUDiv:
		if y == 0 {
			return m, true // SMT-LIB semantics
		}
		return x / y, true
	case OpURem:
		if y == 0 {
			return x, true
		}
		return x % y, true
	case OpSDiv:
		sx, sy := signExt(x, w), signExt(y, w)
		if sy == 0 {
			if sx >= 0 {
				return m, true
			}
			return 1, true
		}
		if sy == -1 {
			return uint64(-sx) & m, true
		}
		return uint64(sx/sy) & m, true
	case OpSRem:
		sx, sy := signExt(x, w), signExt(y, w)
		if sy == 0 {
			return x, true
		}
		if sy == -1 {
			return 0, true
		}
		return uint64(sx%sy) & m, true
	case OpBAnd:
		return x & y, true
	case OpBOr:
		return x | y, true
	case OpBXor:
		return x ^ y, true
	case OpShl:
		if y >= uint64(w) {
			return 0, true
		}
		return (x << y) & m, true
	case OpLShr:
		if y >= uint64(w) {
			return 0, true
		}
		return x >> y, true
	case OpAShr:
		sx := signExt(x, w)
		if y >= uint64(w) {
			y = uint64(w - 1)
		}
		return uint64(sx>>y) & m, true
	}
	return 0, false
}

func Bin(op Op, a, b *Term) *Term {
	if a.W != b.W || a.W == 0 {
		panic(fmt.Sprintf("sym.Bin(%s): width mismatch %d vs %d", opNames[op], a.W, b.W))
	}
	if a.IsConst() && b.IsConst() {
		if v, ok := foldBin(op, a.W, a.Val, b.Val); ok {
			return BV(a.W, v)
		}
	}
	// canonical form: constant operand of + on the right; (x + c1) + c2 -> x + (c1+c2); (x + c1) - c2 likewise
	if op == OpAdd && a.IsConst() && !b.IsConst() {
		a, b = b, a
	}
	if op == OpSub && b.IsConst() {
		return Bin(OpAdd, a, BV(a.W, -b.Val))
	}
	if op == OpAdd && b.IsConst() && a.Op == OpAdd && a.Args[1].IsConst() {
		return Bin(OpAdd, a.Args[0], BV(a.W, a.Args[1].Val+b.Val))
	}
	switch op {
	case OpAdd, OpBOr, OpBXor:
		if a.IsConst() && a.Val == 0 {
			return b
		}
		if b.IsConst() && b.Val == 0 {
			return a
		}
	case OpSub, OpShl, OpLShr, OpAShr:
		if b.IsConst() && b.Val == 0 {
			return a
		}
	case OpMul:
		if a.IsConst() && a.Val == 1 {
			return b
		}
		if b.IsConst() && b.Val == 1 {
			return a
		}
		if (a.IsConst() && a.Val == 0) || (b.IsConst() && b.Val == 0) {
			return BV(a.W, 0)
		}
	case OpBAnd:
		if (a.IsConst() && a.Val == 0) || (b.IsConst() && b.Val == 0) {
			return BV(a.W, 0)
		}
		if a.IsConst() && a.Val == mask(a.W) {
			return b
		}
		if b.IsConst() && b.Val == mask(a.W) {
			return a
		}
	}
	return &Term{Op: op, W: a.W, Args: []*Term{a, b}}
}

func Cmp(op Op, a, b *Term) *Term {
	if a.W != b.W || a.W == 0 {
		panic(fmt.Sprintf("sym.Cmp(%s): width mismatch %d vs %d", opNames[op], a.W, b.W))
	}
	if a.IsConst() && b.IsConst() {
		switch op {
		case OpULt:
			return Bool(a.Val < b.Val)
		case OpULe:
			return Bool(a.Val <= b.Val)
		case OpSLt:
			return Bool(signExt(a.Val, a.W) < signExt(b.Val, a.W))
		case OpSLe:
			return Bool(signExt(a.Val, a.W) <= signExt(b.Val, a.W))
		}
	}
	// zero-extended operand compared with a constant: compare narrow
	if b.IsConst() && a.Op == OpZExt {
		in := a.Args[0]
		if b.Val <= mask(in.W) && (op == OpULt || op == OpULe || signExt(b.Val, a.W) >= 0) {
			nop := op
			if op == OpSLt {
				nop = OpULt
			} else if op == OpSLe {
				nop = OpULe
			}
			return Cmp(nop, in, BV(in.W, b.Val))
		}
	}
	if a.IsConst() && b.Op == OpZExt {
		in := b.Args[0]
		if a.Val <= mask(in.W) && (op == OpULt || op == OpULe || signExt(a.Val, a.W) >= 0) {
			nop := op
			if op == OpSLt {
				nop = OpULt
			} else if op == OpSLe {
				nop = OpULe
			}
			return Cmp(nop, BV(in.W, a.Val), in)
		}
	}
	return &Term{Op: op, Args: []*Term{a, b}}
}

func Neg(a *Term) *Term {
	if a.IsConst() {
		return BV(a.W, -a.Val)
	}
	return &Term{Op: OpNeg, W: a.W, Args: []*Term{a}}
}

func BNot(a *Term) *Term {
	if a.IsConst() {
		return BV(a.W, ^a.Val)
	}
	return &Term{Op: OpBNot, W: a.W, Args: []*Term{a}}
}

func ZExt(a *Term, w int) *Term {
	if w == a.W {
		return a
	}
	if w < a.W {
		return Extract(a, 0, w)
	}
	if a.IsConst() {
		return BV(w, a.Val)
	}
	if a.Op == OpZExt {
		return ZExt(a.Args[0], w)
	}
	return &Term{Op: OpZExt, W: w, Args: []*Term{a}}
}

func SExt(a *Term, w int) *Term {
	if w == a.W {
		return a
	}
	if w < a.W {
		return Extract(a, 0, w)
	}
	if a.IsConst() {
		return BV(w, uint64(signExt(a.Val, a.W)))
	}
	return &Term{Op: OpSExt, W: w, Args: []*Term{a}}
}

// Extract returns bits [lo, lo+w) of a.
func Extract(a *Term, lo, w int) *Term {
	if lo == 0 && w == a.W {
		return a
	}
	if a.IsConst() {
		return BV(w, a.Val>>uint(lo))
	}
	if (a.Op == OpZExt || a.Op == OpSExt) && lo == 0 && w <= a.Args[0].W {
		return Extract(a.Args[0], 0, w)
	}
	return &Term{Op: OpExtract, W: w, Lo: lo, Args: []*Term{a}}
}

// Concat returns hi ++ lo.
func Concat(hi, lo *Term) *Term {
	if hi.IsConst() && lo.IsConst() {
		return BV(hi.W+lo.W, hi.Val<<uint(lo.W)|lo.Val)
	}
	return &Term{Op: OpConcat, W: hi.W + lo.W, Args: []*Term{hi, lo}}
}

// ---------------------------------------------------------------- printing

func (t *Term) SMT() string {
	if t.smt != "" {
		return t.smt
	}
	var s string
	switch t.Op {
	case OpConst:
		if t.W == 0 {
			if t.Val == 1 {
				s = "true"
			} else {
				s = "false"
			}
		} else if t.W%4 == 0 {
			s = fmt.Sprintf("#x%0*x", t.W/4, t.Val)
		} else {
			s = fmt.Sprintf("#b%0*b", t.W, t.Val)
		}
	case OpVar:
		s = "|" + t.Name + "|"
	case OpZExt:
		s = fmt.Sprintf("((_ zero_extend %d) %s)", t.W-t.Args[0].W, t.Args[0].SMT())
	case OpSExt:
		s = fmt.Sprintf("((_ sign_extend %d) %s)", t.W-t.Args[0].W, t.Args[0].SMT())
	case OpExtract:
		s = fmt.Sprintf("((_ extract %d %d) %s)", t.Lo+t.W-1, t.Lo, t.Args[0].SMT())
	default:
		var sb strings.Builder
		sb.WriteByte('(')
		sb.WriteString(opNames[t.Op])
		for _, a := range t.Args {
			sb.WriteByte(' ')
			sb.WriteString(a.SMT())
		}
		sb.WriteByte(')')
		s = sb.String()
	}
	t.smt = s
	return s
}

func (t *Term) String() string { return t.SMT() }

// Vars appends the distinct variables of t to the map.
func (t *Term) Vars(into map[string]*Term) {
	if t.Op == OpVar {
		into[t.Name] = t
		return
	}
	for _, a := range t.Args {
		a.Vars(into)
	}
}

// ---------------------------------------------------------------- evaluation

// Eval evaluates t under model m (variable name -> value). Missing variables
// evaluate to 0/false.
func Eval(t *Term, m map[string]uint64) uint64 {
	switch t.Op {
	case OpConst:
		return t.Val
	case OpVar:
		return m[t.Name] & mask64(t.W)
	case OpNot:
		return 1 - Eval(t.Args[0], m)
	case OpAnd:
		for _, a := range t.Args {
			if Eval(a, m) == 0 {
				return 0
			}
		}
		return 1
	case OpOr:
		for _, a := range t.Args {
			if Eval(a, m) == 1 {
				return 1
			}
		}
		return 0
	case OpEq:
		if Eval(t.Args[0], m) == Eval(t.Args[1], m) {
			return 1
		}
		return 0
	case OpIte:
		if Eval(t.Args[0], m) == 1 {
			return Eval(t.Args[1], m)
		}
		return Eval(t.Args[2], m)
	case OpNeg:
		return (-Eval(t.Args[0], m)) & mask(t.W)
	case OpBNot:
		return (^Eval(t.Args[0], m)) & mask(t.W)
	case OpZExt:
		return Eval(t.Args[0], m)
	case OpSExt:
		return uint64(signExt(Eval(t.Args[0], m), t.Args[0].W)) & mask(t.W)
	case OpExtract:
		return (Eval(t.Args[0], m) >> uint(t.Lo)) & mask(t.W)
	case OpConcat:
		return ((Eval(t.Args[0], m) << uint(t.Args[1].W)) | Eval(t.Args[1], m)) & mask(t.W)
	case OpULt, OpULe, OpSLt, OpSLe:
		x, y := Eval(t.Args[0], m), Eval(t.Args[1], m)
		w := t.Args[0].W
		var r bool
		switch t.Op {
		case OpULt:
			r = x < y
		case OpULe:
			r = x <= y
		case OpSLt:
			r = signExt(x, w) < signExt(y, w)
		case OpSLe:
			r = signExt(x, w) <= signExt(y, w)
		}
		if r {
			return 1
		}
		return 0
	default:
		x, y := Eval(t.Args[0], m), Eval(t.Args[1], m)
		v, ok := foldBin(t.Op, t.W, x, y)
		if !ok {
			panic("sym.Eval: unhandled op " + strconv.Itoa(int(t.Op)))
		}
		return v
	}
}

func mask64(w int) uint64 {
	if w == 0 {
		return 1
	}
	return mask(w)
}

// Size returns the number of nodes (tree size) up to limit.
func (t *Term) Size() int { return len(t.SMT()) }

var _ = bits.Len

// Subst replaces variables by the constants in known and re-simplifies.
func Subst(t *Term, known map[string]uint64) *Term {
	switch t.Op {
	case OpConst:
		return t
	case OpVar:
		if v, ok := known[t.Name]; ok {
			if t.W == 0 {
				return Bool(v == 1)
			}
			return BV(t.W, v)
		}
		return t
	}
	changed := false
	args := make([]*Term, len(t.Args))
	for i, a := range t.Args {
		args[i] = Subst(a, known)
		if args[i] != a {
			changed = true
		}
	}
	if !changed {
		return t
	}
	switch t.Op {
	case OpNot:
		return Not(args[0])
	case OpAnd:
		return And(args...)
	case OpOr:
		return Or(args...)
	case OpEq:
		return Eq(args[0], args[1])
	case OpIte:
		return Ite(args[0], args[1], args[2])
	case OpNeg:
		return Neg(args[0])
	case OpBNot:
		return BNot(args[0])
	case OpZExt:
		return ZExt(args[0], t.W)
	case OpSExt:
		return SExt(args[0], t.W)
	case OpExtract:
		return Extract(args[0], t.Lo, t.W)
	case OpConcat:
		return Concat(args[0], args[1])
	case OpULt, OpULe, OpSLt, OpSLe:
		return Cmp(t.Op, args[0], args[1])
	default:
		return Bin(t.Op, args[0], args[1])
	}
}

func splitAddConst(t *Term) (*Term, uint64) {
	if t.IsConst() {
		return nil, 0
	}
	if t.Op == OpAdd && t.Args[1].IsConst() {
		return t.Args[0], t.Args[1].Val
	}
	return t, 0
}

func sameTerm(a, b *Term) bool {
	if a == b {
		return true
	}
	if a.Op != b.Op || a.W != b.W || len(a.Args) != len(b.Args) || a.Val != b.Val || a.Name != b.Name || a.Lo != b.Lo {
		return false
	}
	for i := range a.Args {
		if !sameTerm(a.Args[i], b.Args[i]) {
			return false
		}
	}
	return true
}
