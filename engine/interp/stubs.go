package interp

// Nondeterministic environment stubs (DESIGN.md 2.5): library and OS functions whose outcome is an
// arbitrary success or failure chosen per path, recorded so a harness can state gate properties such
// as "a file is written only after every validator succeeded". Harnesses that rely on them cannot be
// replayed natively (faults are injected) and are marked engine-only.

import (
	"fmt"
	"go/types"
)

// stubOutcome forks over ok / fail and logs the outcome.
func (i *interpreter) stubOutcome(name string) bool {
	n := len(i.envst.log)
	key := fmt.Sprintf("stub.%s#%d", name, n)
	var k int
	if i.path.concrete != nil {
		k = int(i.path.concrete[key])
	} else {
		k = i.path.choice(2)
	}
	ok := k == 0
	i.path.extraModel[key] = uint64(k)
	if ok {
		i.envst.log = append(i.envst.log, "stub:"+name+"=ok")
	} else {
		i.envst.log = append(i.envst.log, "stub:"+name+"=fail")
	}
	return ok
}

func (i *interpreter) nilOrError(fr *frame, ok bool, msg string) value {
	if ok {
		return iface{}
	}
	return i.newError(fr, msg)
}

func init() {
	const kin = "github.com/getkin/kin-openapi/openapi3"
	const lib = "github.com/pb33f/libopenapi"
	const libv = "github.com/pb33f/libopenapi-validator"

	intrinsics["(*"+kin+".T).Validate"] = func(fr *frame, args []value) value {
		return fr.i.nilOrError(fr, fr.i.stubOutcome("openapi3.Validate"), "stub: 3.0 validation failed")
	}
	intrinsics["(*"+lib+"/datamodel/high/v3.Document).RenderJSON"] = func(fr *frame, args []value) value {
		if fr.i.stubOutcome("v3.RenderJSON") {
			// the stand-in rendering carries the document's own version, info and servers (by their JSON tags);
			// everything else the real renderer would write is left out
			i := fr.i
			out := strBytes(`{"rendered":"stub"`)
			if dp, ok := args[0].(*value); ok && dp != nil {
				pkg := i.prog.ImportedPackage(lib + "/datamodel/high/v3")
				if st, ok := pkg.Type("Document").Type().Underlying().(*types.Struct); ok {
					doc := (*dp).(structure)
					for k := 0; k < st.NumFields(); k++ {
						key := map[string]string{"Version": "openapi", "Info": "info", "Servers": "servers"}[st.Field(k).Name()]
						if key == "" {
							continue
						}
						out = append(out, strBytes(`,"`+key+`":`)...)
						i.jsonFr = fr
						out = i.jsonEncode(out, st.Field(k).Type(), doc[k])
					}
				}
			}
			out = append(out, uint8('}'))
			return tuple{out, iface{}}
		}
		return tuple{[]value(nil), fr.i.newError(fr, "stub: render failed")}
	}
	intrinsics[lib+".NewDocument"] = func(fr *frame, args []value) value {
		if fr.i.stubOutcome("libopenapi.NewDocument") {
			// an opaque non-nil Document; it is only handed on to NewValidator
			return tuple{iface{t: types.Typ[types.Int], v: 1}, iface{}}
		}
		return tuple{iface{}, fr.i.newError(fr, "stub: not a document")}
	}
	intrinsics[libv+".NewValidator"] = func(fr *frame, args []value) value {
		i := fr.i
		if i.stubOutcome("validator.NewValidator") {
			pkg := i.prog.ImportedPackage(libv)
			vt := pkg.Type("validator").Type()
			cell := zero(vt)
			return tuple{iface{t: types.NewPointer(vt), v: &cell}, []value(nil)}
		}
		return tuple{iface{}, []value{i.newError(fr, "stub: cannot build validator")}}
	}
	intrinsics["(*"+libv+".validator).ValidateDocument"] = func(fr *frame, args []value) value {
		if fr.i.stubOutcome("validator.ValidateDocument") {
			return tuple{true, []value(nil)}
		}
		return tuple{false, []value(nil)}
	}
	intrinsics["encoding/json.MarshalIndent"] = func(fr *frame, args []value) value {
		it := args[0].(iface)
		fr.i.jsonFr = fr
		out := fr.i.jsonEncode(nil, it.t, it.v)
		return tuple{out, iface{}}
	}
	intrinsics["os.MkdirAll"] = func(fr *frame, args []value) value {
		i := fr.i
		path := i.concValue(args[0], "path").(string)
		ok := i.stubOutcome("os.MkdirAll")
		i.envst.log = append(i.envst.log, "os.MkdirAll:"+path)
		return i.nilOrError(fr, ok, "stub: mkdir failed")
	}
	intrinsics["os.WriteFile"] = func(fr *frame, args []value) value {
		i := fr.i
		path := i.concValue(args[0], "path").(string)
		data := i.concValue(mkStr(args[1].([]value)), "file data").(string)
		ok := i.stubOutcome("os.WriteFile")
		i.envst.log = append(i.envst.log, "os.WriteFile:"+path+":"+data)
		return i.nilOrError(fr, ok, "stub: write failed")
	}
	// symxEnvLog() []string : the environment events recorded on this path (engine only)
	harnessAPI["symxEnvLog"] = func(fr *frame, args []value) value {
		out := make([]value, len(fr.i.envst.log))
		for k, s := range fr.i.envst.log {
			out[k] = s
		}
		return out
	}
}
