package interp

// Nondeterministic environment stubs (DESIGN.md 2.5): library and OS functions whose outcome is an
// arbitrary success or failure chosen per path, recorded so a harness can state gate properties such
// as "a file is written only after every validator succeeded". Harnesses that rely on them cannot be
// replayed natively (faults are injected) and are marked engine-only.

import (
	"fmt"
	"go/types"
	"golang.org/x/tools/go/ssa"
	"sort"
)

// stubOutcome forks over ok / fail and logs the outcome.
func (i *interpreter) stubOutcome(name string) bool {
	if i.path.realLibs["no-faults"] {
		// symxRealLibrary("no-faults"): the environment does not fail on this path (a harness that is replayed
		// natively, where failures cannot be injected)
		i.envst.log = append(i.envst.log, "stub:"+name+"=ok")
		return true
	}
	n := len(i.envst.log)
	key := fmt.Sprintf("stub.%s#%d", name, n)
	var k int
	if i.path.concrete != nil {
		k = int(i.path.concrete[key])
	} else {
		k = i.path.choice(2)
	}
	ok := k == 0
	i.path.extraModel[key] = uint64(k)
	if ok {
		i.envst.log = append(i.envst.log, "stub:"+name+"=ok")
	} else {
		i.envst.log = append(i.envst.log, "stub:"+name+"=fail")
	}
	return ok
}

func (i *interpreter) nilOrError(fr *frame, ok bool, msg string) value {
	if ok {
		return iface{}
	}
	return i.newError(fr, msg)
}

func init() {
	const kin = "github.com/getkin/kin-openapi/openapi3"
	const lib = "github.com/pb33f/libopenapi"
	const libv = "github.com/pb33f/libopenapi-validator"

	intrinsics["(*"+kin+".T).Validate"] = func(fr *frame, args []value) value {
		if fr.i.path.realLibs["openapi3.Validate"] {
			// the harness asked for the library itself: interpret its body
			return callBody(fr.i, fr.caller, fr, fr.fn, args, nil)
		}
		return fr.i.nilOrError(fr, fr.i.stubOutcome("openapi3.Validate"), "stub: 3.0 validation failed")
	}
	// symxRealLibrary(name): from here on, on this path, the named stand-in is replaced by the real code
	harnessAPI["symxRealLibrary"] = func(fr *frame, args []value) value {
		if fr.i.path.realLibs == nil {
			fr.i.path.realLibs = map[string]bool{}
		}
		fr.i.path.realLibs[argString(fr, args[0])] = true
		return nil
	}
	intrinsics["(*"+lib+"/datamodel/high/v3.Document).RenderJSON"] = func(fr *frame, args []value) value {
		if fr.i.stubOutcome("v3.RenderJSON") {
			// the stand-in rendering carries the document's own version, info and servers (by their JSON tags);
			// everything else the real renderer would write is left out
			i := fr.i
			out := strBytes(`{"rendered":"stub"`)
			if dp, ok := args[0].(*value); ok && dp != nil {
				pkg := i.prog.ImportedPackage(lib + "/datamodel/high/v3")
				if st, ok := pkg.Type("Document").Type().Underlying().(*types.Struct); ok {
					doc := (*dp).(structure)
					for k := 0; k < st.NumFields(); k++ {
						key := map[string]string{"Version": "openapi", "Info": "info", "Servers": "servers"}[st.Field(k).Name()]
						if key == "" {
							continue
						}
						out = append(out, strBytes(`,"`+key+`":`)...)
						i.jsonFr = fr
						out = i.jsonEncode(out, st.Field(k).Type(), doc[k])
					}
				}
			}
			out = append(out, uint8('}'))
			return tuple{out, iface{}}
		}
		return tuple{[]value(nil), fr.i.newError(fr, "stub: render failed")}
	}
	intrinsics[lib+".NewDocument"] = func(fr *frame, args []value) value {
		if fr.i.stubOutcome("libopenapi.NewDocument") {
			// an opaque non-nil Document; it is only handed on to NewValidator
			return tuple{iface{t: types.Typ[types.Int], v: 1}, iface{}}
		}
		return tuple{iface{}, fr.i.newError(fr, "stub: not a document")}
	}
	intrinsics[libv+".NewValidator"] = func(fr *frame, args []value) value {
		i := fr.i
		if i.stubOutcome("validator.NewValidator") {
			pkg := i.prog.ImportedPackage(libv)
			vt := pkg.Type("validator").Type()
			cell := zero(vt)
			return tuple{iface{t: types.NewPointer(vt), v: &cell}, []value(nil)}
		}
		return tuple{iface{}, []value{i.newError(fr, "stub: cannot build validator")}}
	}
	intrinsics["(*"+libv+".validator).ValidateDocument"] = func(fr *frame, args []value) value {
		if fr.i.stubOutcome("validator.ValidateDocument") {
			return tuple{true, []value(nil)}
		}
		return tuple{false, []value(nil)}
	}
	// func Load(cfg *Config, patterns ...string) ([]*Package, error): the go command is environment. The harness
	// provides the packages the loader would return in the variable VhLoadResult of the calling package; a load
	// failure is an arbitrary outcome.
	intrinsics["golang.org/x/tools/go/packages.Load"] = func(fr *frame, args []value) value {
		i := fr.i
		pats := ""
		for k, p := range args[1].([]value) {
			if k > 0 {
				pats += ","
			}
			pats += i.concValue(p, "package pattern").(string)
		}
		var g *ssa.Global
		if c := fr.caller; c != nil && c.fn != nil && c.fn.Pkg != nil {
			g = c.fn.Pkg.Var("VhLoadResult")
		}
		if g == nil {
			i.path.abort("packages.Load: the calling package provides no VhLoadResult")
		}
		ok := i.stubOutcome("packages.Load")
		i.envst.log = append(i.envst.log, "packages.Load:"+pats)
		if !ok {
			return tuple{[]value(nil), i.newError(fr, "stub: packages.Load failed")}
		}
		return tuple{*i.globalAddr(g), iface{}}
	}
	// func ReadFile(name string) ([]byte, error): the file system is environment; a readable file holds a text
	// derived from its path, an unreadable one is an arbitrary outcome
	intrinsics["os.ReadFile"] = func(fr *frame, args []value) value {
		i := fr.i
		path := i.concValue(args[0], "path").(string)
		ok := i.stubOutcome("os.ReadFile")
		i.envst.log = append(i.envst.log, "os.ReadFile:"+path)
		if !ok {
			return tuple{[]value(nil), i.newError(fr, "stub: read failed")}
		}
		// a harness may provide file contents in the variable VhFileContents (map[string]string) of the calling package
		if c := fr.caller; c != nil && c.fn != nil && c.fn.Pkg != nil {
			if g := c.fn.Pkg.Var("VhFileContents"); g != nil {
				if m, isMap := (*i.globalAddr(g)).(*symMap); isMap && m != nil {
					if content, found := m.lookup(i, path); found {
						return tuple{append([]value(nil), strBytes(content)...), iface{}}
					}
				}
			}
		}
		return tuple{strBytes("content-of:" + path), iface{}}
	}
	// the handlebars library's process-wide partial registry is environment: registrations are recorded
	const raymond = "github.com/aymerick/raymond"
	intrinsics[raymond+".RegisterPartials"] = func(fr *frame, args []value) value {
		i := fr.i
		if i.path.realLibs["raymond"] {
			return callBody(i, fr.caller, fr, fr.fn, args, nil)
		}
		m := args[0].(*symMap)
		var entries []string
		if m != nil {
			for _, e := range m.entries {
				if e.live {
					entries = append(entries, i.concValue(e.key, "partial name").(string)+"="+i.concValue(e.val, "partial source").(string))
				}
			}
		}
		sort.Strings(entries)
		for _, e := range entries {
			i.envst.log = append(i.envst.log, "raymond.RegisterPartial:"+e)
		}
		return nil
	}
	intrinsics[raymond+".RemoveAllPartials"] = func(fr *frame, args []value) value {
		if fr.i.path.realLibs["raymond"] {
			return callBody(fr.i, fr.caller, fr, fr.fn, args, nil)
		}
		fr.i.envst.log = append(fr.i.envst.log, "raymond.RemoveAllPartials")
		return nil
	}
	// func NewFileVersion(fullPath string) (FileVersion, error) stats and hashes the file: the file system is
	// environment, the stand-in identifies a file by its path (constant content, zero modification time)
	const gastPkg = "github.com/gopher-fleece/gleece/v2/gast"
	intrinsics[gastPkg+".NewFileVersion"] = func(fr *frame, args []value) value {
		i := fr.i
		pkg := i.prog.ImportedPackage(gastPkg)
		T := pkg.Type("FileVersion").Type()
		st := T.Underlying().(*types.Struct)
		v := zero(T).(structure)
		for k := 0; k < st.NumFields(); k++ {
			switch st.Field(k).Name() {
			case "Path":
				v[k] = args[0]
			case "Hash":
				v[k] = "stand-in-hash"
			}
		}
		i.envst.log = append(i.envst.log, "gast.NewFileVersion")
		return tuple{v, iface{}}
	}
	// func Getwd() (string, error): a fixed working directory of the stand-in file system
	intrinsics["os.Getwd"] = func(fr *frame, args []value) value {
		return tuple{"/work", iface{}}
	}
	// func Stat(name string) (FileInfo, error): the file system is environment; the stand-in is an empty one - every
	// path is reported as not existing (*fs.PathError wrapping ENOENT)
	intrinsics["os.Stat"] = func(fr *frame, args []value) value {
		i := fr.i
		path := i.concValue(args[0], "path").(string)
		i.envst.log = append(i.envst.log, "os.Stat:"+path)
		fsPkg := i.prog.ImportedPackage("io/fs")
		sysPkg := i.prog.ImportedPackage("syscall")
		if fsPkg == nil || sysPkg == nil {
			i.path.abort("os.Stat: io/fs or syscall not loaded")
		}
		peT := fsPkg.Type("PathError").Type()
		errnoT := sysPkg.Type("Errno").Type()
		pe := zero(peT).(structure)
		st := peT.Underlying().(*types.Struct)
		for k := 0; k < st.NumFields(); k++ {
			switch st.Field(k).Name() {
			case "Op":
				pe[k] = "stat"
			case "Path":
				pe[k] = path
			case "Err":
				pe[k] = iface{t: errnoT, v: uintptr(2)} // ENOENT
			}
		}
		var cell value = pe
		return tuple{iface{}, iface{t: types.NewPointer(peT), v: &cell}}
	}
	intrinsics["encoding/json.MarshalIndent"] = func(fr *frame, args []value) value {
		it := args[0].(iface)
		fr.i.jsonFr = fr
		out := fr.i.jsonEncode(nil, it.t, it.v)
		return tuple{out, iface{}}
	}
	intrinsics["os.MkdirAll"] = func(fr *frame, args []value) value {
		i := fr.i
		path := i.concValue(args[0], "path").(string)
		ok := i.stubOutcome("os.MkdirAll")
		i.envst.log = append(i.envst.log, "os.MkdirAll:"+path)
		return i.nilOrError(fr, ok, "stub: mkdir failed")
	}
	intrinsics["os.WriteFile"] = func(fr *frame, args []value) value {
		i := fr.i
		path := i.concValue(args[0], "path").(string)
		data := i.concValue(mkStr(args[1].([]value)), "file data").(string)
		ok := i.stubOutcome("os.WriteFile")
		i.envst.log = append(i.envst.log, "os.WriteFile:"+path+":"+data)
		return i.nilOrError(fr, ok, "stub: write failed")
	}
	// symxEnvLog() []string : the environment events recorded on this path (engine only)
	harnessAPI["symxEnvLog"] = func(fr *frame, args []value) value {
		out := make([]value, len(fr.i.envst.log))
		for k, s := range fr.i.envst.log {
			out[k] = s
		}
		return out
	}
}
