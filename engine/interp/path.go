package interp

// Path context: decisions, path condition, solver interaction for one
// execution of a harness (re-execution DFS, see DESIGN.md 2.3).

import (
	"fmt"
	"os"

	"golang.org/x/tools/go/ssa"
	"sort"
	"strings"

	"gosym/sym"
)

// Decision is one recorded nondeterministic choice on a path.
type Decision struct {
	K byte   // 'b' branch, 'c' choice, 'v' concretisation (V = value, B = taken), 'a' assert, 'u' assume
	B int    // branch taken (0/1) or choice index
	V uint64 // concretised value
}

type engineAbort struct{ reason string }

func (e engineAbort) Error() string { return "engine abort: " + e.reason }

// pathEnd is panicked to unwind a path early (assumption infeasible etc.).
type pathEnd struct{ status string }

type Violation struct {
	Label   string            `json:"label"`
	Kind    string            `json:"kind"` // assert | panic | hang
	Msg     string            `json:"msg,omitempty"`
	Model   map[string]uint64 `json:"model"`
	Known   string            `json:"known,omitempty"` // id of the known-finding region, if inside one
	Harness string            `json:"harness"`
	Trace   []string          `json:"trace,omitempty"`
}

type region struct {
	id    string
	cond  *sym.Term
	label string // "" = applies to every later violation on the path; otherwise only to this assertion label
}

type Record struct {
	Label string
	Vals  []value
}

type PathResult struct {
	Status     string // ok | assume-false | panic | abort | unwind
	Msg        string
	Decisions  []Decision
	NewWork    [][]Decision
	Violations []Violation
	Covers     []string
	Events     []string // fingerprint: covers/assert labels/records in order
	Model      map[string]uint64
	Steps      int64
	Queries    int
	Intrinsics map[string]int
	Funcs      map[string]bool
	Assumes    map[string]bool
}

type pathCtx struct {
	prefix      []Decision
	pos         int
	decisions   []Decision
	pc          []*sym.Term
	flushed     int // pc[:flushed] already asserted in solver
	solver      *sym.Solver
	solver2     *sym.Solver // cross-check solver for verdict queries (may be nil)
	declared    map[string]bool
	vars        []*sym.Term
	varSeen     map[string]*sym.Term
	newWork     [][]Decision
	regions     []region
	res         *PathResult
	steps       int64
	maxSteps    int64
	depth       int
	maxDepth    int
	realLibs    map[string]bool // stand-ins switched off by the harness (symxRealLibrary)
	permute     bool            // symbolic map iteration order
	permuteTwo  bool            // ... restricted to insertion order / reverse insertion order per map
	panicMode   string
	harness     string
	concrete    map[string]uint64 // replay mode: model driving a concrete run (no solver)
	fresh       int
	inInit      int
	extraModel  map[string]uint64
	syncMaps    map[*value]*symMap // sync.Map contents, by address
	pendingRecs []pendingRec
	model       map[string]uint64 // a model of the current pc (nil if unknown)
	known       map[string]uint64 // variables fixed to a constant by the pc
	lastModel   map[string]uint64
	dom         map[string][]uint64 // exact finite domains of alphabet-constrained byte variables (projection of pc)
	entangled   map[string]bool     // variables occurring in a multi-variable pc literal
	domHits     int
	noWitness   bool
	assertsOff  bool
	stack       []*ssa.Function
	panicStack  []string
	s2started   bool
	declared2   map[string]bool
	flushed2    int
	emit        func([]Decision) // immediate hand-off of sibling prefixes to the shared queue
}

func newPathCtx(prefix []Decision, solver, solver2 *sym.Solver, harness string) *pathCtx {
	p := &pathCtx{prefix: prefix, solver: solver, solver2: solver2, declared: map[string]bool{}, varSeen: map[string]*sym.Term{},
		maxSteps: 20_000_000, maxDepth: 400, harness: harness, extraModel: map[string]uint64{}}
	p.res = &PathResult{Intrinsics: map[string]int{}, Funcs: map[string]bool{}, Assumes: map[string]bool{}}
	if solver != nil {
		solver.Reset()
	}
	return p
}

func (p *pathCtx) abort(format string, args ...any) {
	panic(engineAbort{fmt.Sprintf(format, args...)})
}

// newVar declares a fresh symbolic variable; name must be unique on the path.
func (p *pathCtx) newVar(name string, w int) *sym.Term {
	if _, dup := p.varSeen[name]; dup {
		p.fresh++
		name = fmt.Sprintf("%s#%d", name, p.fresh)
	}
	v := sym.Var(name, w)
	p.varSeen[name] = v
	p.vars = append(p.vars, v)
	return v
}

func (p *pathCtx) flush() {
	for _, v := range p.vars {
		if !p.declared[v.Name] {
			p.declared[v.Name] = true
			p.solver.Declare(v)
		}
	}
	for ; p.flushed < len(p.pc); p.flushed++ {
		p.solver.Assert(p.pc[p.flushed])
	}
}

func (p *pathCtx) addPC(t *sym.Term) {
	if t.IsTrue() {
		return
	}
	p.pc = append(p.pc, t)
	p.learn(t)
	p.refine(t)
	if p.model != nil && sym.Eval(t, p.model) != 1 {
		p.model = nil
	}
}

// learn records variables that the literal fixes to a constant.
func (p *pathCtx) learn(t *sym.Term) {
	switch t.Op {
	case sym.OpAnd:
		for _, a := range t.Args {
			p.learn(a)
		}
	case sym.OpEq:
		a, b := t.Args[0], t.Args[1]
		if a.IsConst() {
			a, b = b, a
		}
		if a.Op == sym.OpVar && b.IsConst() {
			if p.known == nil {
				p.known = map[string]uint64{}
			}
			p.known[a.Name] = b.Val
		}
	case sym.OpVar:
		if t.W == 0 {
			if p.known == nil {
				p.known = map[string]uint64{}
			}
			p.known[t.Name] = 1
		}
	case sym.OpNot:
		if a := t.Args[0]; a.Op == sym.OpVar {
			if p.known == nil {
				p.known = map[string]uint64{}
			}
			p.known[a.Name] = 0
		}
	}
}

// refine narrows variable domains by a new pc literal, or marks its variables entangled.
func (p *pathCtx) refine(t *sym.Term) {
	if p.dom == nil {
		return
	}
	if t.Op == sym.OpAnd {
		for _, a := range t.Args {
			p.refine(a)
		}
		return
	}
	vs := map[string]*sym.Term{}
	t.Vars(vs)
	if len(vs) == 1 {
		for name := range vs {
			if d, ok := p.dom[name]; ok {
				var nd []uint64
				m := map[string]uint64{}
				for _, x := range d {
					m[name] = x
					if sym.Eval(t, m) == 1 {
						nd = append(nd, x)
					}
				}
				p.dom[name] = nd
				if len(nd) == 1 {
					if p.known == nil {
						p.known = map[string]uint64{}
					}
					p.known[name] = nd[0]
				}
			}
		}
		return
	}
	if p.entangled == nil {
		p.entangled = map[string]bool{}
	}
	for name := range vs {
		p.entangled[name] = true
	}
}

// domDecide tries to decide the feasibility of cond and of its negation from variable
// domains alone. ok=false: undecided, ask the solver.
var noDomDecide = os.Getenv("GOSYM_NO_DOM") != ""

func (p *pathCtx) domDecide(cond *sym.Term) (t, f, ok bool) {
	if p.dom == nil || noDomDecide {
		return
	}
	neg := false
	c := cond
	if c.Op == sym.OpNot {
		neg = true
		c = c.Args[0]
	}
	var parts []*sym.Term
	isOr := false
	switch c.Op {
	case sym.OpAnd:
		parts = c.Args
	case sym.OpOr:
		parts = c.Args
		isOr = true
	default:
		parts = []*sym.Term{c}
	}
	// group parts by their single variable
	type grp struct {
		name  string
		terms []*sym.Term
	}
	var groups []*grp
	byName := map[string]*grp{}
	for _, part := range parts {
		vs := map[string]*sym.Term{}
		part.Vars(vs)
		if len(vs) != 1 {
			return false, false, false
		}
		for name := range vs {
			if _, has := p.dom[name]; !has || p.entangled[name] {
				return false, false, false
			}
			g := byName[name]
			if g == nil {
				g = &grp{name: name}
				byName[name] = g
				groups = append(groups, g)
			}
			g.terms = append(g.terms, part)
		}
	}
	// for each group: can its combined condition be true / false within the domain?
	allCanTrue, anyCanFalse := true, false // for And
	anyCanTrue, allCanFalse := false, true // for Or
	m := map[string]uint64{}
	for _, g := range groups {
		canT, canF := false, false
		for _, x := range p.dom[g.name] {
			m[g.name] = x
			v := !isOr
			for _, tm := range g.terms {
				r := sym.Eval(tm, m) == 1
				if isOr {
					v = v || r
				} else {
					v = v && r
				}
			}
			if v {
				canT = true
			} else {
				canF = true
			}
		}
		delete(m, g.name)
		allCanTrue = allCanTrue && canT
		anyCanFalse = anyCanFalse || canF
		anyCanTrue = anyCanTrue || canT
		allCanFalse = allCanFalse && canF
	}
	if isOr {
		t, f = anyCanTrue, allCanFalse
	} else {
		t, f = allCanTrue, anyCanFalse
	}
	if neg {
		t, f = f, t
	}
	p.domHits++
	return t, f, true
}

// simp substitutes variables fixed by the path condition.
func (p *pathCtx) simp(t *sym.Term) *sym.Term {
	if len(p.known) == 0 || t.IsConst() {
		return t
	}
	return sym.Subst(t, p.known)
}

// checkSat decides pc ∧ extra and caches the model when sat.
func (p *pathCtx) checkSat(extra *sym.Term) bool {
	p.flush()
	p.solver.Push()
	p.solver.Assert(extra)
	r := p.solver.Check()
	p.res.Queries++
	var m map[string]uint64
	if r == sym.Sat {
		vals, err := p.solver.GetValues(p.vars)
		if err != nil {
			p.solver.Pop()
			p.abort("get-value failed: %v", err)
		}
		m = make(map[string]uint64, len(vals))
		for i, v := range p.vars {
			m[v.Name] = vals[i]
		}
	}
	p.solver.Pop()
	if r == sym.Unknown {
		p.abort("solver %s answered unknown (%s)", p.solver.Name, p.solver.LastErr)
	}
	if r == sym.Sat {
		p.lastModel = m
		return true
	}
	return false
}

// checkWith returns the satisfiability of pc ∧ extra...
func (p *pathCtx) checkWith(extra ...*sym.Term) sym.Result {
	p.flush()
	p.solver.Push()
	for _, e := range extra {
		p.solver.Assert(e)
	}
	r := p.solver.Check()
	p.solver.Pop()
	p.res.Queries++
	if r == sym.Unknown {
		p.abort("solver %s answered unknown (%s)", p.solver.Name, p.solver.LastErr)
	}
	return r
}

// checkModel checks pc ∧ extra and, if sat, returns a model of all declared variables.
// It is a verdict query: cross-checked on the second solver when present.
func (p *pathCtx) checkModel(extra ...*sym.Term) (sym.Result, map[string]uint64) {
	p.flush()
	p.solver.Push()
	for _, e := range extra {
		p.solver.Assert(e)
	}
	r := p.solver.Check()
	p.res.Queries++
	var model map[string]uint64
	if r == sym.Sat {
		vals, err := p.solver.GetValues(p.vars)
		if err != nil {
			p.solver.Pop()
			p.abort("get-value failed: %v", err)
		}
		model = make(map[string]uint64, len(vals))
		for i, v := range p.vars {
			model[v.Name] = vals[i]
		}
	}
	p.solver.Pop()
	if r == sym.Unknown {
		p.abort("solver %s answered unknown (%s)", p.solver.Name, p.solver.LastErr)
	}
	for k, v := range p.extraModel {
		if model != nil {
			model[k] = v
		}
	}
	if p.solver2 != nil {
		r2 := p.crossCheck(extra...)
		if r2 != r {
			p.abort("solver disagreement on verdict query: %s=%s %s=%s", p.solver.Name, r, p.solver2.Name, r2)
		}
	}
	return r, model
}

func (p *pathCtx) crossCheck(extra ...*sym.Term) sym.Result {
	s := p.solver2
	if !p.s2started {
		s.Reset()
		p.s2started = true
		p.declared2 = map[string]bool{}
	}
	for _, v := range p.vars {
		if !p.declared2[v.Name] {
			p.declared2[v.Name] = true
			s.Declare(v)
		}
	}
	for ; p.flushed2 < len(p.pc); p.flushed2++ {
		s.Assert(p.pc[p.flushed2])
	}
	s.Push()
	for _, e := range extra {
		s.Assert(e)
	}
	r := s.Check()
	s.Pop()
	p.res.Queries++
	if r == sym.Unknown {
		p.abort("cross-check solver %s answered unknown (%s)", s.Name, s.LastErr)
	}
	return r
}

func (p *pathCtx) record(d Decision) {
	p.decisions = append(p.decisions, d)
}

func (p *pathCtx) sibling(d Decision) {
	w := make([]Decision, len(p.decisions), len(p.decisions)+1)
	copy(w, p.decisions)
	w = append(w, d)
	if p.emit != nil {
		p.emit(w)
		return
	}
	p.newWork = append(p.newWork, w)
}

func (p *pathCtx) nextPrefix(kind byte) (Decision, bool) {
	if p.pos < len(p.prefix) {
		d := p.prefix[p.pos]
		p.pos++
		if d.K != kind {
			p.abort("replay divergence: expected decision kind %c, got %c at %d", d.K, kind, p.pos-1)
		}
		return d, true
	}
	return Decision{}, false
}

// branch decides a symbolic boolean, forking when both sides are feasible.
func (p *pathCtx) branch(cond *sym.Term) bool {
	if cond.IsConst() {
		return cond.Val == 1
	}
	if p.concrete == nil {
		cond = p.simp(cond)
		if cond.IsConst() {
			return cond.Val == 1
		}
	}
	if p.concrete != nil {
		return sym.Eval(cond, p.concrete) == 1
	}
	if d, ok := p.nextPrefix('b'); ok {
		p.record(d)
		if d.B == 1 {
			p.addPC(cond)
		} else {
			p.addPC(sym.Not(cond))
		}
		return d.B == 1
	}
	var t, f bool
	var mt, mf map[string]uint64
	if dt, df, ok := p.domDecide(cond); ok {
		t, f = dt, df
		// the cached model stays valid only for the side it satisfies
		if p.model != nil && p.modelCovers() {
			if sym.Eval(cond, p.model) == 1 {
				mt = p.model
			} else {
				mf = p.model
			}
		}
	} else if p.model != nil && p.modelCovers() {
		if sym.Eval(cond, p.model) == 1 {
			t, mt = true, p.model
			if f = p.checkSat(sym.Not(cond)); f {
				mf = p.lastModel
			}
		} else {
			f, mf = true, p.model
			if t = p.checkSat(cond); t {
				mt = p.lastModel
			}
		}
	} else {
		if t = p.checkSat(cond); t {
			mt = p.lastModel
		}
		if f = p.checkSat(sym.Not(cond)); f {
			mf = p.lastModel
		}
	}
	switch {
	case t && f:
		p.sibling(Decision{K: 'b', B: 0})
		p.record(Decision{K: 'b', B: 1})
		p.addPC(cond)
		p.model = mt
		return true
	case t:
		p.record(Decision{K: 'b', B: 1})
		p.addPC(cond)
		p.model = mt
		return true
	case f:
		p.record(Decision{K: 'b', B: 0})
		p.addPC(sym.Not(cond))
		p.model = mf
		return false
	}
	p.abort("path condition became infeasible at a branch")
	return false
}

// modelCovers reports whether the cached model assigns every declared variable.
func (p *pathCtx) modelCovers() bool {
	for i := len(p.vars) - 1; i >= 0; i-- {
		if _, ok := p.model[p.vars[i].Name]; !ok {
			// new unconstrained variable: any value works as long as the pc does not mention it yet;
			// alphabet constraints are added with the variable, so be conservative.
			return false
		}
	}
	return true
}

// choice forks over n alternatives that are all feasible by construction.
func (p *pathCtx) choice(n int) int {
	if n <= 1 {
		return 0
	}
	if d, ok := p.nextPrefix('c'); ok {
		p.record(d)
		return d.B
	}
	for k := 1; k < n; k++ {
		p.sibling(Decision{K: 'c', B: k})
	}
	p.record(Decision{K: 'c', B: 0})
	return 0
}

// concretize enumerates the feasible values of t through the solver.
func (p *pathCtx) concretize(t *sym.Term, why string) uint64 {
	if t.IsConst() {
		return t.Val
	}
	if p.concrete != nil {
		return sym.Eval(t, p.concrete)
	}
	for n := 0; ; n++ {
		if n > 4096 {
			p.abort("concretisation of %s enumerates more than 4096 values", why)
		}
		if d, ok := p.nextPrefix('v'); ok {
			p.record(d)
			var c *sym.Term
			if t.W == 0 {
				c = sym.Eq(t, sym.Bool(d.V == 1))
			} else {
				c = sym.Eq(t, sym.BV(t.W, d.V))
			}
			if d.B == 1 {
				p.addPC(c)
				return d.V
			}
			p.addPC(sym.Not(c))
			continue
		}
		// frontier: get a feasible value
		p.flush()
		r := p.solver.Check()
		p.res.Queries++
		if r != sym.Sat {
			p.abort("concretize(%s): path condition not sat (%v %s)", why, r, p.solver.LastErr)
		}
		vals, err := p.solver.GetValues([]*sym.Term{t})
		if err != nil {
			p.abort("concretize: %v", err)
		}
		v := vals[0]
		var c *sym.Term
		if t.W == 0 {
			c = sym.Eq(t, sym.Bool(v == 1))
		} else {
			c = sym.Eq(t, sym.BV(t.W, v))
		}
		if p.checkWith(sym.Not(c)) == sym.Sat {
			p.sibling(Decision{K: 'v', V: v, B: 0})
		}
		p.record(Decision{K: 'v', V: v, B: 1})
		p.addPC(c)
		return v
	}
}

// assume constrains the path; an infeasible assumption ends the path silently.
func (p *pathCtx) assume(cond *sym.Term) {
	if cond.IsConst() {
		if cond.Val == 0 {
			panic(pathEnd{"assume-false"})
		}
		return
	}
	if p.concrete != nil {
		if sym.Eval(cond, p.concrete) == 0 {
			panic(pathEnd{"assume-false"})
		}
		return
	}
	if d, ok := p.nextPrefix('u'); ok {
		p.record(d)
		p.addPC(cond)
		return
	}
	if p.checkWith(cond) != sym.Sat {
		panic(pathEnd{"assume-false"})
	}
	p.record(Decision{K: 'u', B: 1})
	p.addPC(cond)
}

// violation bookkeeping -----------------------------------------------------

func (p *pathCtx) regionsDisj(label string) *sym.Term {
	var rs []*sym.Term
	for _, r := range p.regions {
		if r.label == "" || r.label == label {
			rs = append(rs, r.cond)
		}
	}
	return sym.Or(rs...)
}

// reportViolation is called when pc ∧ bad is to be examined (bad may be True).
// It emits a new violation if one exists outside all known regions, and one
// known-finding witness per region that intersects.
func (p *pathCtx) reportViolation(kind, label, msg string, bad *sym.Term) bool {
	found := false
	if p.concrete != nil {
		if sym.Eval(bad, p.concrete) == 1 {
			p.res.Violations = append(p.res.Violations, Violation{Label: label, Kind: kind, Msg: msg, Harness: p.harness})
			return true
		}
		return false
	}
	outside := sym.And(bad, sym.Not(p.regionsDisj(label)))
	if !outside.IsFalse() {
		if r, m := p.checkModel(outside); r == sym.Sat {
			p.res.Violations = append(p.res.Violations, Violation{Label: label, Kind: kind, Msg: msg, Model: m, Harness: p.harness, Trace: append([]string(nil), p.res.Events...)})
			found = true
		}
	}
	for _, rg := range p.regions {
		if rg.label != "" && rg.label != label {
			continue
		}
		in := sym.And(bad, rg.cond)
		if in.IsFalse() {
			continue
		}
		if r, m := p.checkModel(in); r == sym.Sat {
			p.res.Violations = append(p.res.Violations, Violation{Label: label, Kind: kind, Msg: msg, Model: m, Known: rg.id, Harness: p.harness, Trace: append([]string(nil), p.res.Events...)})
			found = true
		}
	}
	return found
}

func (p *pathCtx) assert(cond *sym.Term, label string) {
	p.res.Events = append(p.res.Events, "assert:"+label)
	if cond.IsTrue() {
		return
	}
	if p.concrete != nil {
		if sym.Eval(cond, p.concrete) == 0 {
			p.res.Violations = append(p.res.Violations, Violation{Label: label, Kind: "assert", Harness: p.harness})
			p.res.Events = append(p.res.Events, "FAIL:"+label)
			panic(pathEnd{"assert-failed"})
		}
		return
	}
	if d, ok := p.nextPrefix('a'); ok {
		p.record(d)
		if cond.IsFalse() || d.B == 0 {
			p.res.Events = append(p.res.Events, "FAIL:"+label)
			panic(pathEnd{"assert-failed"})
		}
		p.addPC(cond)
		return
	}
	p.reportViolation("assert", label, "", sym.Not(cond))
	if cond.IsFalse() {
		p.record(Decision{K: 'a'})
		p.res.Events = append(p.res.Events, "FAIL:"+label)
		panic(pathEnd{"assert-failed"})
	}
	if p.checkWith(cond) != sym.Sat {
		p.record(Decision{K: 'a'})
		p.res.Events = append(p.res.Events, "FAIL:"+label)
		panic(pathEnd{"assert-failed"})
	}
	p.record(Decision{K: 'a', B: 1})
	p.addPC(cond)
}

func (p *pathCtx) cover(label string) {
	p.res.Covers = append(p.res.Covers, label)
	p.res.Events = append(p.res.Events, "cover:"+label)
}

// finalModel returns a model of the completed path.
func (p *pathCtx) finalModel() map[string]uint64 {
	if p.concrete != nil {
		return p.concrete
	}
	if len(p.vars) == 0 {
		return map[string]uint64{}
	}
	p.flush()
	r := p.solver.Check()
	p.res.Queries++
	if r != sym.Sat {
		p.abort("final path condition not sat: %v %s", r, p.solver.LastErr)
	}
	vals, err := p.solver.GetValues(p.vars)
	if err != nil {
		p.abort("final get-value: %v", err)
	}
	m := make(map[string]uint64, len(vals))
	for i, v := range p.vars {
		m[v.Name] = vals[i]
	}
	return m
}

func decisionsKey(ds []Decision) string {
	var sb strings.Builder
	for _, d := range ds {
		fmt.Fprintf(&sb, "%c%d.%d;", d.K, d.B, d.V)
	}
	return sb.String()
}

func sortedKeys[V any](m map[string]V) []string {
	ks := make([]string, 0, len(m))
	for k := range m {
		ks = append(ks, k)
	}
	sort.Strings(ks)
	return ks
}
