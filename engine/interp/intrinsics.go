package interp

// Intrinsics: engine-level models of functions that cannot be interpreted from
// SSA (assembly, unsafe, reflection) plus the harness API (symx*).

import (
	"fmt"
	"go/types"
	"strings"
	"sync"

	"golang.org/x/tools/go/ssa"

	"gosym/sym"
)

var extCache sync.Map // *ssa.Function -> externalFn (or nil marker)

type noExt struct{}

func (i *interpreter) lookupExternal(fn *ssa.Function) externalFn {
	if c, ok := extCache.Load(fn); ok {
		if f, ok := c.(externalFn); ok {
			return f
		}
		return nil
	}
	f := resolveExternal(fn)
	if f == nil {
		extCache.Store(fn, noExt{})
		return nil
	}
	extCache.Store(fn, f)
	return f
}

func resolveExternal(fn *ssa.Function) externalFn {
	name := fn.Name()
	if strings.HasPrefix(name, "symx") && fn.Pkg != nil && fn.Parent() == nil {
		if f, ok := harnessAPI[name]; ok {
			return f
		}
		panic("unknown harness API function " + name)
	}
	full := fn.String()
	if fn.Origin() != nil {
		// instantiated generic: also try the origin's name
		if f, ok := intrinsics[fn.Origin().String()]; ok {
			return counted(fn.Origin().String(), f)
		}
	}
	if f, ok := intrinsics[full]; ok {
		return counted(full, f)
	}
	if fn.Parent() == nil {
		if f, ok := externals[full]; ok {
			return counted(full, f)
		}
	}
	if fn.Pkg != nil {
		p := fn.Pkg.Pkg.Path()
		if strings.HasSuffix(p, "/infrastructure/logger") && fn.Parent() == nil && fn.Signature.Recv() == nil {
			switch name {
			case "Debug", "Info", "Warn", "Error", "Fatal", "System", "Raw", "logger":
				return counted("logger.*", func(fr *frame, args []value) value { return nil })
			}
		}
	}
	return nil
}

func counted(name string, f externalFn) externalFn {
	return func(fr *frame, args []value) value {
		if fr.i.path.res != nil {
			fr.i.path.res.Intrinsics[name]++
		}
		return f(fr, args)
	}
}

// ------------------------------------------------------------ harness API

var harnessAPI = map[string]externalFn{}

func init() {
	harnessAPI["symxBool"] = func(fr *frame, args []value) value {
		p := fr.i.path
		name := argString(fr, args[0])
		return mkBool(p.newVar(name, 0))
	}
	harnessAPI["symxByte"] = func(fr *frame, args []value) value {
		p := fr.i.path
		name := argString(fr, args[0])
		alpha := argString(fr, args[1])
		v := p.newVar(name, 8)
		p.constrainAlphabet(v, alpha)
		return mkInt(types.Uint8, v)
	}
	// symxInt(name string, lo, hi int) int
	harnessAPI["symxInt"] = func(fr *frame, args []value) value {
		p := fr.i.path
		name := argString(fr, args[0])
		lo, hi := asInt64(args[1]), asInt64(args[2])
		if lo == hi {
			p.extraModel[name] = uint64(lo)
			return int(lo)
		}
		v := p.newVar(name, 64)
		p.addPC(sym.Cmp(sym.OpSLe, sym.BV(64, uint64(lo)), v))
		p.addPC(sym.Cmp(sym.OpSLe, v, sym.BV(64, uint64(hi))))
		return mkInt(types.Int, v)
	}
	// symxChoice(name string, n int) int : concrete fork over [0,n)
	harnessAPI["symxChoice"] = func(fr *frame, args []value) value {
		p := fr.i.path
		name := argString(fr, args[0])
		n := int(asInt64(args[1]))
		var k int
		if p.concrete != nil {
			k = int(p.concrete[name])
		} else {
			k = p.choice(n)
		}
		p.extraModel[name] = uint64(k)
		return k
	}
	// symxString(name string, minLen, maxLen int, alphabet string) string
	harnessAPI["symxString"] = func(fr *frame, args []value) value {
		p := fr.i.path
		name := argString(fr, args[0])
		lo, hi := int(asInt64(args[1])), int(asInt64(args[2]))
		alpha := argString(fr, args[3])
		var n int
		if p.concrete != nil {
			n = int(p.concrete[name+".len"])
		} else {
			n = lo + p.choice(hi-lo+1)
		}
		p.extraModel[name+".len"] = uint64(n)
		b := make([]value, n)
		for k := 0; k < n; k++ {
			v := p.newVar(fmt.Sprintf("%s[%d]", name, k), 8)
			p.constrainAlphabet(v, alpha)
			b[k] = mkInt(types.Uint8, v)
		}
		return mkStr(b)
	}
	harnessAPI["symxAssume"] = func(fr *frame, args []value) value {
		t, _ := boolTerm(args[0])
		fr.i.path.assume(t)
		return nil
	}
	harnessAPI["symxAssert"] = func(fr *frame, args []value) value {
		if fr.i.path.assertsOff {
			return nil
		}
		t, _ := boolTerm(args[0])
		fr.i.path.assert(t, argString(fr, args[1]))
		return nil
	}
	harnessAPI["symxCover"] = func(fr *frame, args []value) value {
		fr.i.path.cover(argString(fr, args[0]))
		return nil
	}
	// symxKnown(id string, region bool)
	harnessAPI["symxKnown"] = func(fr *frame, args []value) value {
		t, _ := boolTerm(args[1])
		p := fr.i.path
		if !t.IsFalse() {
			p.regions = append(p.regions, region{id: argString(fr, args[0]), cond: t})
		}
		return nil
	}
	// symxKnownFor(id, label string, region bool): a known-finding region scoped to one assertion label
	harnessAPI["symxKnownFor"] = func(fr *frame, args []value) value {
		t, _ := boolTerm(args[2])
		p := fr.i.path
		if !t.IsFalse() {
			p.regions = append(p.regions, region{id: argString(fr, args[0]), cond: t, label: argString(fr, args[1])})
		}
		if t.IsTrue() && strings.Contains(argString(fr, args[1]), ".native.") {
			// a region of an assertion only the native run decides: left in the trace (the native shim does the
			// same), so that the driver can tell a recorded finding from a new violation
			p.res.Events = append(p.res.Events, "known:"+argString(fr, args[0])+":"+argString(fr, args[1]))
		}
		return nil
	}
	harnessAPI["symxPermuteMaps"] = func(fr *frame, args []value) value {
		fr.i.path.permute = args[0].(bool)
		fr.i.path.permuteTwo = false
		return nil
	}
	// symxPermuteMapsTwoOrders(on): every map is iterated in insertion order or in reverse insertion order, decided
	// per map and kept across iterations of that map (a bounded subset of the orders symxPermuteMaps explores)
	harnessAPI["symxPermuteMapsTwoOrders"] = func(fr *frame, args []value) value {
		fr.i.path.permute = args[0].(bool)
		fr.i.path.permuteTwo = args[0].(bool)
		return nil
	}
	// symxAtExit(f): native replay only (clean-up after the last case); nothing to do in the engine
	harnessAPI["symxAtExit"] = func(fr *frame, args []value) value { return nil }
	// symxPanicMode("ignore"|"violation")
	harnessAPI["symxPanicMode"] = func(fr *frame, args []value) value {
		fr.i.path.panicMode = argString(fr, args[0])
		return nil
	}
	// symxRecord(label string, vals ...any): observation compared with the native run
	harnessAPI["symxRecord"] = func(fr *frame, args []value) value {
		p := fr.i.path
		label := argString(fr, args[0])
		var pieces []value
		lit := func(s string) {
			for k := 0; k < len(s); k++ {
				pieces = append(pieces, s[k])
			}
		}
		lit("rec:" + label + "=")
		var render func(t types.Type, v value)
		render = func(t types.Type, v value) {
			switch x := v.(type) {
			case symInt, symBool:
				pieces = append(pieces, x) // formatted under the final model
				return
			case symStr:
				for _, b := range x.b {
					if sb, ok := b.(symInt); ok {
						pieces = append(pieces, recByte{sb.t})
					} else {
						pieces = append(pieces, b)
					}
				}
				return
			case iface:
				if x.t == nil {
					lit("<nil>")
					return
				}
				render(x.t, x.v)
				return
			case []value:
				if t != nil {
					if sl, ok := t.Underlying().(*types.Slice); ok {
						lit("[")
						for k, e := range x {
							if k > 0 {
								lit(" ")
							}
							render(sl.Elem(), e)
						}
						lit("]")
						return
					}
				}
			}
			f := &fmtState{i: fr.i, fr: fr}
			f.formatValue(t, v, 'v', false, false, 0)
			for _, b := range f.out {
				if sb, ok := b.(symInt); ok {
					pieces = append(pieces, recByte{sb.t})
				} else {
					pieces = append(pieces, b)
				}
			}
		}
		for k, a := range args[1].([]value) {
			if k > 0 {
				lit("|")
			}
			it := a.(iface)
			render(it.t, it.v)
		}
		p.res.Events = append(p.res.Events, "")
		idx := len(p.res.Events) - 1
		p.pendingRecs = append(p.pendingRecs, pendingRec{idx, pieces})
		return nil
	}
	// symxAssertionsOff(): crash-freedom mode - assertions of the harness become no-ops, only panics count
	harnessAPI["symxAssertionsOff"] = func(fr *frame, args []value) value {
		fr.i.path.assertsOff = true
		return nil
	}
	// symxNoWitnessReplay(): passing paths of this harness depend on native nondeterminism (map order)
	// and are not compared with a native run; counterexamples still are.
	harnessAPI["symxNoWitnessReplay"] = func(fr *frame, args []value) value {
		fr.i.path.noWitness = true
		return nil
	}
	// symxIsSymbolic(): true under the engine, false natively
	harnessAPI["symxIsSymbolic"] = func(fr *frame, args []value) value { return true }
	// symxStub(name string, n int) int: a nondeterministic environment answer in [0,n)
	harnessAPI["symxStub"] = harnessAPI["symxChoice"]
}

type recByte struct{ t *sym.Term }

type pendingRec struct {
	idx   int
	bytes []value
}

func argString(fr *frame, v value) string {
	switch v := v.(type) {
	case string:
		return v
	case symStr:
		return fr.i.concValue(v, "harness string argument").(string)
	}
	panic(fmt.Sprintf("harness API: expected string, got %T", v))
}

func (p *pathCtx) constrainAlphabet(v *sym.Term, alpha string) {
	if alpha == "" {
		return
	}
	var cs []*sym.Term
	seen := map[byte]bool{}
	var dom []uint64
	for k := 0; k < len(alpha); k++ {
		if seen[alpha[k]] {
			continue
		}
		seen[alpha[k]] = true
		cs = append(cs, sym.Eq(v, sym.BV(8, uint64(alpha[k]))))
		dom = append(dom, uint64(alpha[k]))
	}
	if p.dom == nil {
		p.dom = map[string][]uint64{}
	}
	p.dom[v.Name] = dom
	p.addPC(sym.Or(cs...))
}

// resolveRecords evaluates pending record texts under model m.
func (p *pathCtx) resolveRecords(m map[string]uint64) {
	for _, r := range p.pendingRecs {
		var bs []byte
		for _, b := range r.bytes {
			switch b := b.(type) {
			case uint8:
				bs = append(bs, b)
			case recByte:
				bs = append(bs, byte(sym.Eval(b.t, m)))
			case symBool:
				bs = append(bs, fmt.Sprint(sym.Eval(b.t, m) == 1)...)
			case symInt:
				v := sym.Eval(b.t, m)
				if b.k == types.Uint8 && b.t.W == 8 && false {
					bs = append(bs, byte(v))
				} else {
					bs = append(bs, fmt.Sprint(concInt(b.k, v))...)
				}
			}
		}
		p.res.Events[r.idx] = string(bs)
	}
}

// ------------------------------------------------------------ intrinsics

var intrinsics = map[string]externalFn{}

func bytesOf(v value) []value {
	switch v := v.(type) {
	case []value:
		return v
	default:
		return strBytes(v)
	}
}

// indexByte returns the first index of c in b, forking on symbolic comparisons.
func (i *interpreter) indexByte(b []value, c value) int {
	ct := byteTerm(c)
	for k, x := range b {
		if i.path.branch(sym.Eq(byteTerm(x), ct)) {
			return k
		}
	}
	return -1
}

func (i *interpreter) hasPrefixAt(b []value, pos int, sub []value) bool {
	if pos+len(sub) > len(b) {
		return false
	}
	cs := make([]*sym.Term, 0, len(sub))
	for k := range sub {
		c := sym.Eq(byteTerm(b[pos+k]), byteTerm(sub[k]))
		if c.IsFalse() {
			return false
		}
		cs = append(cs, c)
	}
	return i.path.branch(sym.And(cs...))
}

func (i *interpreter) indexBytes(b, sub []value) int {
	for k := 0; k+len(sub) <= len(b); k++ {
		if i.hasPrefixAt(b, k, sub) {
			return k
		}
	}
	return -1
}

func init() {
	id := func(fr *frame, args []value) value { return args[0] }
	nop := func(fr *frame, args []value) value { return nil }

	intrinsics["internal/bytealg.IndexByteString"] = func(fr *frame, args []value) value {
		return fr.i.indexByte(strBytes(args[0]), args[1])
	}
	intrinsics["internal/bytealg.IndexByte"] = func(fr *frame, args []value) value {
		return fr.i.indexByte(args[0].([]value), args[1])
	}
	intrinsics["internal/bytealg.LastIndexByteString"] = func(fr *frame, args []value) value {
		b := strBytes(args[0])
		ct := byteTerm(args[1])
		for k := len(b) - 1; k >= 0; k-- {
			if fr.i.path.branch(sym.Eq(byteTerm(b[k]), ct)) {
				return k
			}
		}
		return -1
	}
	intrinsics["internal/bytealg.LastIndexByte"] = func(fr *frame, args []value) value {
		b := args[0].([]value)
		ct := byteTerm(args[1])
		for k := len(b) - 1; k >= 0; k-- {
			if fr.i.path.branch(sym.Eq(byteTerm(b[k]), ct)) {
				return k
			}
		}
		return -1
	}
	intrinsics["internal/bytealg.IndexString"] = func(fr *frame, args []value) value {
		return fr.i.indexBytes(strBytes(args[0]), strBytes(args[1]))
	}
	intrinsics["internal/bytealg.Index"] = func(fr *frame, args []value) value {
		return fr.i.indexBytes(args[0].([]value), args[1].([]value))
	}
	countFn := func(fr *frame, args []value) value {
		b := bytesOf(args[0])
		ct := byteTerm(args[1])
		n := 0
		for _, x := range b {
			if fr.i.path.branch(sym.Eq(byteTerm(x), ct)) {
				n++
			}
		}
		return n
	}
	intrinsics["internal/bytealg.CountString"] = countFn
	intrinsics["internal/bytealg.Count"] = countFn
	intrinsics["internal/bytealg.Equal"] = func(fr *frame, args []value) value {
		return mkBool(strEqTerm(mkStr(args[0].([]value)), mkStr(args[1].([]value))))
	}
	intrinsics["bytes.Equal"] = intrinsics["internal/bytealg.Equal"]
	cmpFn := func(fr *frame, args []value) value {
		a, b := mkStr(bytesOf(args[0])), mkStr(bytesOf(args[1]))
		if fr.i.path.branch(strLtTerm(a, b, false)) {
			return -1
		}
		if fr.i.path.branch(strEqTerm(a, b)) {
			return 0
		}
		return 1
	}
	intrinsics["internal/bytealg.Compare"] = cmpFn
	intrinsics["internal/bytealg.CompareString"] = cmpFn
	intrinsics["strings.Compare"] = cmpFn
	intrinsics["bytes.Compare"] = cmpFn
	intrinsics["internal/bytealg.MakeNoZero"] = func(fr *frame, args []value) value {
		n := int(asInt64(args[0]))
		s := make([]value, n)
		for k := range s {
			s[k] = uint8(0)
		}
		return s
	}
	intrinsics["internal/abi.NoEscape"] = id
	intrinsics["internal/abi.Escape"] = id
	intrinsics["internal/stringslite.Clone"] = id
	intrinsics["strings.Clone"] = id
	intrinsics["internal/race.Enabled"] = func(fr *frame, args []value) value { return false }

	// strings.Builder (uses unsafe)
	intrinsics["(*strings.Builder).String"] = func(fr *frame, args []value) value {
		st := (*args[0].(*value)).(structure)
		return mkStr(st[1].([]value))
	}
	intrinsics["(*strings.Builder).copyCheck"] = nop

	// fmt
	intrinsics["fmt.Sprintf"] = func(fr *frame, args []value) value {
		return fr.i.sprintf(fr, args[0], args[1].([]value))
	}
	intrinsics["fmt.Sprint"] = func(fr *frame, args []value) value {
		return fr.i.sprint(fr, args[0].([]value), false)
	}
	intrinsics["fmt.Sprintln"] = func(fr *frame, args []value) value {
		return fr.i.sprint(fr, args[0].([]value), true)
	}
	intrinsics["fmt.Errorf"] = func(fr *frame, args []value) value {
		i := fr.i
		msg := i.sprintf(fr, args[0], args[1].([]value))
		fs, _ := args[0].(string)
		var wrapped []iface
		if strings.Contains(fs, "%w") {
			// find the operands of %w verbs
			argi := 0
			for k := 0; k < len(fs); k++ {
				if fs[k] != '%' {
					continue
				}
				k++
				for k < len(fs) && strings.IndexByte("+-# 0123456789.", fs[k]) >= 0 {
					k++
				}
				if k >= len(fs) || fs[k] == '%' {
					continue
				}
				if fs[k] == 'w' && argi < len(args[1].([]value)) {
					a := args[1].([]value)[argi].(iface)
					if a.t != nil {
						wrapped = append(wrapped, a)
					}
				}
				argi++
			}
		}
		fmtPkg := i.prog.ImportedPackage("fmt")
		if len(wrapped) == 1 && fmtPkg != nil {
			wt := fmtPkg.Type("wrapError").Type()
			var cell value = structure{msg, wrapped[0]}
			return iface{t: types.NewPointer(wt), v: &cell}
		}
		if len(wrapped) > 1 {
			i.path.abort("fmt.Errorf with multiple %%w is not modelled")
		}
		errNew := i.prog.ImportedPackage("errors").Func("New")
		return call(i, fr, 0, errNew, []value{msg})
	}
	for _, n := range []string{"fmt.Println", "fmt.Printf", "fmt.Print", "fmt.Fprintf", "fmt.Fprintln", "fmt.Fprint"} {
		intrinsics[n] = func(fr *frame, args []value) value { return tuple{0, iface{}} }
	}

	// sync: single-threaded semantics
	for _, n := range []string{"(*sync.Mutex).Lock", "(*sync.Mutex).Unlock", "(*sync.RWMutex).Lock", "(*sync.RWMutex).Unlock",
		"(*sync.RWMutex).RLock", "(*sync.RWMutex).RUnlock", "(*sync.WaitGroup).Add", "(*sync.WaitGroup).Done", "(*sync.WaitGroup).Wait",
		"(*sync.Pool).Put", "runtime.SetFinalizer", "runtime.KeepAlive"} {
		intrinsics[n] = nop
	}
	intrinsics["(*sync.Mutex).TryLock"] = func(fr *frame, args []value) value { return true }
	intrinsics["(*sync.Pool).Get"] = func(fr *frame, args []value) value {
		st := (*args[0].(*value)).(structure)
		// New is the last field
		newf := st[len(st)-1]
		switch f := newf.(type) {
		case *ssa.Function:
			if f == nil {
				return iface{}
			}
		}
		return call(fr.i, fr, 0, newf, nil)
	}
	intrinsics["(*sync.Once).Do"] = func(fr *frame, args []value) value {
		key := args[0].(*value)
		if fr.i.envst.onceDone == nil {
			fr.i.envst.onceDone = map[*value]bool{}
		}
		if fr.i.envst.onceDone[key] {
			return nil
		}
		fr.i.envst.onceDone[key] = true
		call(fr.i, fr, 0, args[1], nil)
		return nil
	}
	// sync/atomic on boxed cells
	atomicLoad := func(fr *frame, args []value) value { return *args[0].(*value) }
	atomicStore := func(fr *frame, args []value) value { *args[0].(*value) = args[1]; return nil }
	atomicAdd := func(fr *frame, args []value) value {
		p := args[0].(*value)
		*p = binop(fr.i, 12 /*token.ADD*/, nil, *p, args[1])
		return *p
	}
	atomicCAS := func(fr *frame, args []value) value {
		p := args[0].(*value)
		if fr.i.path.branch(eqTerm(nil, *p, args[1])) {
			*p = args[2]
			return true
		}
		return false
	}
	atomicSwap := func(fr *frame, args []value) value {
		p := args[0].(*value)
		old := *p
		*p = args[1]
		return old
	}
	for _, ty := range []string{"Int32", "Int64", "Uint32", "Uint64", "Uintptr", "Pointer"} {
		intrinsics["sync/atomic.Load"+ty] = atomicLoad
		intrinsics["sync/atomic.Store"+ty] = atomicStore
		intrinsics["sync/atomic.Add"+ty] = atomicAdd
		intrinsics["sync/atomic.CompareAndSwap"+ty] = atomicCAS
		intrinsics["sync/atomic.Swap"+ty] = atomicSwap
	}

	// sort.Slice / SliceStable use reflectlite.Swapper
	sortSlice := func(fr *frame, args []value) value {
		xs := args[0].(iface).v.([]value)
		less := args[1]
		// stable insertion sort (a legal outcome of both Slice and SliceStable)
		for a := 1; a < len(xs); a++ {
			for b := a; b > 0; b-- {
				r := call(fr.i, fr, 0, less, []value{b, b - 1})
				var lt bool
				switch r := r.(type) {
				case bool:
					lt = r
				case symBool:
					lt = fr.i.path.branch(r.t)
				}
				if !lt {
					break
				}
				xs[b], xs[b-1] = xs[b-1], xs[b]
			}
		}
		return nil
	}
	intrinsics["sort.Slice"] = sortSlice
	intrinsics["sort.SliceStable"] = sortSlice

	// regexp compilation of a constant pattern is memoised per worker: the compiled value is
	// immutable and independent of the path condition (the real regexp code is still what runs).
	reCompile := func(must bool) externalFn {
		return func(fr *frame, args []value) value {
			i := fr.i
			pat, ok := args[0].(string)
			if !ok {
				pat = i.concValue(args[0], "regexp pattern").(string)
			}
			if i.ws.regexps == nil {
				i.ws.regexps = map[string]value{}
			}
			key := pat
			if must {
				key = "M:" + pat
			}
			if v, ok := i.ws.regexps[key]; ok {
				return v
			}
			v := callBody(i, fr.caller, nil, fr.fn, []value{pat}, nil)
			i.ws.regexps[key] = v
			return v
		}
	}
	intrinsics["regexp.MustCompile"] = reCompile(true)
	intrinsics["regexp.Compile"] = reCompile(false)

	for _, n := range []string{"log.Printf", "log.Println", "log.Print"} {
		intrinsics[n] = nop
	}
	intrinsics["os.Getenv"] = func(fr *frame, args []value) value { return "" }
	intrinsics["runtime.Gosched"] = nop
	// sync/atomic.Value (implemented with unsafe in the runtime): a cell holding an interface value
	intrinsics["(*sync/atomic.Value).Store"] = func(fr *frame, args []value) value {
		p := args[0].(*value)
		st := append(structure(nil), (*p).(structure)...)
		st[0] = args[1]
		*p = st
		return nil
	}
	intrinsics["(*sync/atomic.Value).Load"] = func(fr *frame, args []value) value {
		p := args[0].(*value)
		v := (*p).(structure)[0]
		if v == nil {
			return iface{}
		}
		return v
	}
	// GODEBUG settings: the default (empty) value everywhere
	intrinsics["(*internal/godebug.Setting).Value"] = func(fr *frame, args []value) value { return "" }
	intrinsics["(*internal/godebug.Setting).IncNonDefault"] = nop
	intrinsics["(*internal/godebug.Setting).Name"] = func(fr *frame, args []value) value { return "" }
	// func clone(m any) any (linknamed to the runtime): a shallow copy of the map, nil stays nil
	intrinsics["maps.clone"] = func(fr *frame, args []value) value {
		it := args[0].(iface)
		m, _ := it.v.(*symMap)
		if m == nil {
			return it
		}
		c := makeMap(m.keyType, 0).(*symMap)
		for _, e := range m.entries {
			if e.live {
				c.insert(fr.i, e.key, e.val)
			}
		}
		return iface{t: it.t, v: c}
	}
	// func Caller(skip int) (pc uintptr, file string, line int, ok bool): the interpreter has no machine stack;
	// callers (diagnostic bookkeeping only) are told that the information is unavailable
	intrinsics["runtime.Caller"] = func(fr *frame, args []value) value {
		fr.i.path.res.Intrinsics["runtime.Caller(unavailable)"]++
		return tuple{uintptr(0), "", int(0), false}
	}
	intrinsics["errors.Is"] = nil
	delete(intrinsics, "errors.Is")
}

// envState holds per-path environment-stub state.
type envState struct {
	onceDone map[*value]bool
	log      []string
}
