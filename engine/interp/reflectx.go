package interp

// Additions to the interpreter's model of package reflect (used by go-playground/validator).

import (
	"fmt"
	"go/types"
	"reflect"
)

func rtOf(v value) types.Type { return v.(rtype).t }

func rtArg(v value) types.Type {
	it := v.(iface)
	if it.t == nil {
		return nil
	}
	return it.v.(rtype).t
}

func init() {
	ext := func(name string, f externalFn) { externals[name] = f }

	ext("(reflect.rtype).Name", func(fr *frame, args []value) value {
		switch t := rtOf(args[0]).(type) {
		case *types.Named:
			return t.Obj().Name()
		case *types.Alias:
			return t.Obj().Name()
		case *types.Basic:
			return t.Name()
		}
		return ""
	})
	ext("(reflect.rtype).PkgPath", func(fr *frame, args []value) value {
		if t, ok := rtOf(args[0]).(*types.Named); ok && t.Obj().Pkg() != nil {
			return t.Obj().Pkg().Path()
		}
		return ""
	})
	ext("(reflect.rtype).ConvertibleTo", func(fr *frame, args []value) value {
		return types.ConvertibleTo(rtOf(args[0]), rtArg(args[1]))
	})
	ext("(reflect.rtype).AssignableTo", func(fr *frame, args []value) value {
		return types.AssignableTo(rtOf(args[0]), rtArg(args[1]))
	})
	ext("(reflect.rtype).Implements", func(fr *frame, args []value) value {
		u, ok := rtArg(args[1]).Underlying().(*types.Interface)
		if !ok {
			panic("reflect: non-interface type passed to Type.Implements")
		}
		return types.Implements(rtOf(args[0]), u)
	})
	ext("(reflect.rtype).Comparable", func(fr *frame, args []value) value {
		return types.Comparable(rtOf(args[0]))
	})
	ext("(reflect.rtype).Key", func(fr *frame, args []value) value {
		return makeReflectType(rtype{rtOf(args[0]).Underlying().(*types.Map).Key()})
	})
	ext("(reflect.rtype).Len", func(fr *frame, args []value) value {
		return int(rtOf(args[0]).Underlying().(*types.Array).Len())
	})

	ext("(reflect.Value).IsZero", func(fr *frame, args []value) value {
		t := rV2T(args[0]).t
		if t == nil {
			panic("reflect: call of reflect.Value.IsZero on zero Value")
		}
		return equals(t, rV2V(args[0]), zero(t))
	})
	ext("(reflect.Value).CanAddr", func(fr *frame, args []value) value { return false })
	ext("(reflect.Value).CanSet", func(fr *frame, args []value) value { return false })
	ext("(reflect.Value).Comparable", func(fr *frame, args []value) value {
		t := rV2T(args[0]).t
		return t != nil && types.Comparable(t)
	})
	ext("(reflect.Value).CanConvert", func(fr *frame, args []value) value {
		return types.ConvertibleTo(rV2T(args[0]).t, rtArg(args[1]))
	})
	ext("(reflect.Value).Convert", func(fr *frame, args []value) value {
		src, dst := rV2T(args[0]).t, rtArg(args[1])
		return makeReflectValue(dst, conv(dst, src, rV2V(args[0])))
	})
	ext("(reflect.Value).Cap", func(fr *frame, args []value) value {
		switch v := rV2V(args[0]).(type) {
		case []value:
			return cap(v)
		case array:
			return len(v)
		}
		panic(fmt.Sprintf("reflect.(Value).Cap(%T)", rV2V(args[0])))
	})
	ext("(reflect.Value).Bytes", func(fr *frame, args []value) value { return rV2V(args[0]) })
	ext("(reflect.Value).Complex", func(fr *frame, args []value) value {
		switch v := rV2V(args[0]).(type) {
		case complex64:
			return complex128(v)
		case complex128:
			return v
		}
		panic("reflect.Value.Complex")
	})
	ext("(reflect.Value).FieldByName", func(fr *frame, args []value) value {
		st := rV2T(args[0]).t.Underlying().(*types.Struct)
		name := args[1].(string)
		for k := 0; k < st.NumFields(); k++ {
			if st.Field(k).Name() == name {
				return makeReflectValue(st.Field(k).Type(), rV2V(args[0]).(structure)[k])
			}
		}
		return makeReflectValue(nil, nil)
	})
	ext("reflect.Zero", ext۰reflect۰Zero)
	ext("reflect.Indirect", func(fr *frame, args []value) value {
		if p, ok := rV2T(args[0]).t.Underlying().(*types.Pointer); ok && rV2T(args[0]).t != nil {
			var v value
			if x := rV2V(args[0]).(*value); x != nil {
				v = *x
			} else {
				return makeReflectValue(nil, nil)
			}
			return makeReflectValue(p.Elem(), v)
		}
		return args[0]
	})
	_ = reflect.Invalid
}

// extraRtypeMethods are added to the method set of the interpreter's rtype.
var extraRtypeMethods = []string{"Name", "PkgPath", "ConvertibleTo", "AssignableTo", "Implements", "Comparable", "Key", "Len"}
