package interp

// Additions to the interpreter's model of package reflect (used by go-playground/validator).

import (
	"fmt"
	"go/token"
	"go/types"
	"reflect"

	"golang.org/x/tools/go/ssa"
)

func rtOf(v value) types.Type { return v.(rtype).t }

func rtArg(v value) types.Type {
	it := v.(iface)
	if it.t == nil {
		return nil
	}
	return it.v.(rtype).t
}

func init() {
	ext := func(name string, f externalFn) { externals[name] = f }

	ext("(reflect.rtype).Name", func(fr *frame, args []value) value {
		switch t := rtOf(args[0]).(type) {
		case *types.Named:
			return t.Obj().Name()
		case *types.Alias:
			return t.Obj().Name()
		case *types.Basic:
			return t.Name()
		}
		return ""
	})
	ext("(reflect.rtype).PkgPath", func(fr *frame, args []value) value {
		if t, ok := rtOf(args[0]).(*types.Named); ok && t.Obj().Pkg() != nil {
			return t.Obj().Pkg().Path()
		}
		return ""
	})
	ext("(reflect.rtype).ConvertibleTo", func(fr *frame, args []value) value {
		return types.ConvertibleTo(rtOf(args[0]), rtArg(args[1]))
	})
	ext("(reflect.rtype).AssignableTo", func(fr *frame, args []value) value {
		return types.AssignableTo(rtOf(args[0]), rtArg(args[1]))
	})
	ext("(reflect.rtype).Implements", func(fr *frame, args []value) value {
		u, ok := rtArg(args[1]).Underlying().(*types.Interface)
		if !ok {
			panic("reflect: non-interface type passed to Type.Implements")
		}
		return types.Implements(rtOf(args[0]), u)
	})
	ext("(reflect.rtype).Comparable", func(fr *frame, args []value) value {
		return types.Comparable(rtOf(args[0]))
	})
	ext("(reflect.rtype).Key", func(fr *frame, args []value) value {
		return makeReflectType(rtype{rtOf(args[0]).Underlying().(*types.Map).Key()})
	})
	ext("(reflect.rtype).Len", func(fr *frame, args []value) value {
		return int(rtOf(args[0]).Underlying().(*types.Array).Len())
	})

	ext("(reflect.Value).IsZero", func(fr *frame, args []value) value {
		t := rV2T(args[0]).t
		if t == nil {
			panic("reflect: call of reflect.Value.IsZero on zero Value")
		}
		return equals(t, rV2V(args[0]), zero(t))
	})
	ext("(reflect.Value).CanAddr", func(fr *frame, args []value) value { return false })
	ext("(reflect.Value).CanSet", func(fr *frame, args []value) value { return false })
	ext("(reflect.Value).Comparable", func(fr *frame, args []value) value {
		t := rV2T(args[0]).t
		return t != nil && types.Comparable(t)
	})
	ext("(reflect.Value).CanConvert", func(fr *frame, args []value) value {
		return types.ConvertibleTo(rV2T(args[0]).t, rtArg(args[1]))
	})
	ext("(reflect.Value).Convert", func(fr *frame, args []value) value {
		src, dst := rV2T(args[0]).t, rtArg(args[1])
		return makeReflectValue(dst, conv(dst, src, rV2V(args[0])))
	})
	ext("(reflect.Value).Cap", func(fr *frame, args []value) value {
		switch v := rV2V(args[0]).(type) {
		case []value:
			return cap(v)
		case array:
			return len(v)
		}
		panic(fmt.Sprintf("reflect.(Value).Cap(%T)", rV2V(args[0])))
	})
	ext("(reflect.Value).Bytes", func(fr *frame, args []value) value { return rV2V(args[0]) })
	ext("(reflect.Value).Complex", func(fr *frame, args []value) value {
		switch v := rV2V(args[0]).(type) {
		case complex64:
			return complex128(v)
		case complex128:
			return v
		}
		panic("reflect.Value.Complex")
	})
	ext("(reflect.Value).FieldByName", func(fr *frame, args []value) value {
		st := rV2T(args[0]).t.Underlying().(*types.Struct)
		name := args[1].(string)
		for k := 0; k < st.NumFields(); k++ {
			if st.Field(k).Name() == name {
				return makeReflectValue(st.Field(k).Type(), rV2V(args[0]).(structure)[k])
			}
		}
		return makeReflectValue(nil, nil)
	})
	ext("reflect.Zero", ext۰reflect۰Zero)
	ext("reflect.Indirect", func(fr *frame, args []value) value {
		if p, ok := rV2T(args[0]).t.Underlying().(*types.Pointer); ok && rV2T(args[0]).t != nil {
			var v value
			if x := rV2V(args[0]).(*value); x != nil {
				v = *x
			} else {
				return makeReflectValue(nil, nil)
			}
			return makeReflectValue(p.Elem(), v)
		}
		return args[0]
	})
	// --- method values and calls (used by the handlebars evaluator)
	ext("(reflect.Value).MethodByName", func(fr *frame, args []value) value {
		t := rV2T(args[0]).t
		name := args[1].(string)
		if t == nil || !token.IsExported(name) {
			return makeReflectValue(nil, nil)
		}
		recv := rV2V(args[0])
		if types.IsInterface(t) {
			itf, ok := recv.(iface)
			if !ok || itf.t == nil {
				return makeReflectValue(nil, nil)
			}
			t, recv = itf.t, itf.v
		}
		mset := fr.i.prog.MethodSets.MethodSet(t)
		for k := 0; k < mset.Len(); k++ {
			sel := mset.At(k)
			if sel.Obj().Name() != name {
				continue
			}
			fn := fr.i.prog.MethodValue(sel)
			if fn == nil {
				break
			}
			sig := sel.Type().(*types.Signature)
			return makeReflectValue(types.NewSignatureType(nil, nil, nil, sig.Params(), sig.Results(), sig.Variadic()), boundMethod{fn, recv})
		}
		return makeReflectValue(nil, nil)
	})
	ext("(reflect.Value).Call", func(fr *frame, args []value) value {
		sig := rV2T(args[0]).t.Underlying().(*types.Signature)
		in := args[1].([]value)
		if sig.Variadic() {
			panic("reflect.Value.Call of a variadic function is not modelled")
		}
		if len(in) != sig.Params().Len() {
			panic(fmt.Sprintf("reflect: Call with %d input arguments, want %d", len(in), sig.Params().Len()))
		}
		argv := make([]value, len(in))
		for k, a := range in {
			at, av := rV2T(a).t, rV2V(a)
			if types.IsInterface(sig.Params().At(k).Type()) && at != nil && !types.IsInterface(at) {
				av = iface{at, av}
			}
			argv[k] = av
		}
		res := call(fr.i, fr, 0, rV2V(args[0]), argv)
		n := sig.Results().Len()
		out := make([]value, n)
		switch n {
		case 0:
		case 1:
			out[0] = makeReflectValue(sig.Results().At(0).Type(), res)
		default:
			for k, r := range res.(tuple) {
				out[k] = makeReflectValue(sig.Results().At(k).Type(), r)
			}
		}
		return out
	})
	ext("(reflect.Value).FieldByIndex", func(fr *frame, args []value) value {
		t, v := rV2T(args[0]).t, rV2V(args[0])
		for _, ix := range args[1].([]value) {
			if p, ok := t.Underlying().(*types.Pointer); ok {
				t, v = p.Elem(), *(v.(*value))
			}
			st := t.Underlying().(*types.Struct)
			t, v = st.Field(ix.(int)).Type(), v.(structure)[ix.(int)]
		}
		return makeReflectValue(t, v)
	})
	ext("(reflect.rtype).FieldByName", func(fr *frame, args []value) value {
		// promoted fields of embedded structs included, as reflect does
		obj, index, _ := types.LookupFieldOrMethod(rtOf(args[0]), false, nil, args[1].(string))
		if fld, ok := obj.(*types.Var); ok && fld.IsField() && (fld.Exported() || len(index) == 1) {
			t := rtOf(args[0])
			var sf structure
			for _, ix := range index {
				st := t.Underlying().(*types.Struct)
				sf = ext۰reflect۰rtype۰Field(fr, []value{rtype{t}, ix}).(structure)
				t = st.Field(ix).Type()
				if p, ok := t.Underlying().(*types.Pointer); ok {
					t = p.Elem()
				}
			}
			path := make([]value, len(index))
			for k, ix := range index {
				path[k] = ix
			}
			sf[5] = path
			return tuple{sf, true}
		}
		if st, ok := rtOf(args[0]).Underlying().(*types.Struct); ok {
			for k := 0; k < st.NumFields(); k++ {
				if st.Field(k).Name() == args[1].(string) {
					return tuple{ext۰reflect۰rtype۰Field(fr, []value{args[0], k}), true}
				}
			}
		}
		return tuple{zero(fr.i.prog.ImportedPackage("reflect").Type("StructField").Type()), false}
	})
	ext("(reflect.rtype).IsVariadic", func(fr *frame, args []value) value {
		return rtOf(args[0]).Underlying().(*types.Signature).Variadic()
	})
	ptrTo := func(fr *frame, args []value) value { return makeReflectType(rtype{types.NewPointer(rtArg(args[0]))}) }
	ext("reflect.PtrTo", ptrTo)
	ext("reflect.PointerTo", ptrTo)
	_ = reflect.Invalid
}

// boundMethod is a method value made by reflection: fn called with recv first.
type boundMethod struct {
	fn   *ssa.Function
	recv value
}

// extraRtypeMethods are added to the method set of the interpreter's rtype.
var extraRtypeMethods = []string{"Name", "PkgPath", "ConvertibleTo", "AssignableTo", "Implements", "Comparable", "Key", "Len", "FieldByName", "IsVariadic"}
