// Copyright 2013 The Go Authors. All rights reserved.
// Use of this source code is governed by a BSD-style
// license that can be found in the LICENSE file.

package interp

// Emulated "reflect" package.
//
// We completely replace the built-in "reflect" package.
// The only thing clients can depend upon are that reflect.Type is an
// interface and reflect.Value is an (opaque) struct.

import (
	"fmt"
	"go/token"
	"go/types"
	"reflect"
	"unsafe"

	"golang.org/x/tools/go/ssa"
)

type opaqueType struct {
	types.Type
	name string
}

func (t *opaqueType) String() string { return t.name }

// A bogus "reflect" type-checker package.  Shared across interpreters.
var reflectTypesPackage = types.NewPackage("reflect", "reflect")

// rtype is the concrete type the interpreter uses to implement the
// reflect.Type interface.
//
// type rtype <opaque>
var rtypeType = makeNamedType("rtype", &opaqueType{nil, "rtype"})

// error is an (interpreted) named type whose underlying type is string.
// The interpreter uses it for all implementations of the built-in error
// interface that it creates.
// We put it in the "reflect" package for expedience.
//
// type error string
var errorType = makeNamedType("error", &opaqueType{nil, "error"})

func makeNamedType(name string, underlying types.Type) *types.Named {
	obj := types.NewTypeName(token.NoPos, reflectTypesPackage, name, nil)
	return types.NewNamed(obj, underlying, nil)
}

func makeReflectValue(t types.Type, v value) value {
	return structure{rtype{t}, v}
}

// Given a reflect.Value, returns its rtype.
func rV2T(v value) rtype {
	if rt, ok := v.(structure)[0].(rtype); ok {
		return rt
	}
	return rtype{} // the zero reflect.Value
}

// Given a reflect.Value, returns the underlying interpreter value.
func rV2V(v value) value {
	if _, ok := v.(structure)[0].(rtype); !ok {
		return nil // the zero reflect.Value
	}
	return v.(structure)[1]
}

// makeReflectType boxes up an rtype in a reflect.Type interface.
func makeReflectType(rt rtype) value {
	return iface{rtypeType, rt}
}

func ext۰reflect۰rtype۰Bits(fr *frame, args []value) value {
	// Signature: func (t reflect.rtype) int
	rt := args[0].(rtype).t
	basic, ok := rt.Underlying().(*types.Basic)
	if !ok {
		panic(fmt.Sprintf("reflect.Type.Bits(%T): non-basic type", rt))
	}
	return int(fr.i.sizes.Sizeof(basic)) * 8
}

func ext۰reflect۰rtype۰Elem(fr *frame, args []value) value {
	// Signature: func (t reflect.rtype) reflect.Type
	return makeReflectType(rtype{args[0].(rtype).t.Underlying().(interface {
		Elem() types.Type
	}).Elem()})
}

func ext۰reflect۰rtype۰Field(fr *frame, args []value) value {
	// Signature: func (t reflect.rtype, i int) reflect.StructField
	st := args[0].(rtype).t.Underlying().(*types.Struct)
	i := args[1].(int)
	f := st.Field(i)
	// PkgPath qualifies unexported field names only; it is empty for exported ones
	pkgPath := ""
	if !f.Exported() && f.Pkg() != nil {
		pkgPath = f.Pkg().Path()
	}
	return structure{
		f.Name(),
		pkgPath,
		makeReflectType(rtype{f.Type()}),
		st.Tag(i),
		uintptr(0), // offset: not modelled
		[]value{i},
		f.Anonymous(),
	}
}

func ext۰reflect۰rtype۰In(fr *frame, args []value) value {
	// Signature: func (t reflect.rtype, i int) int
	i := args[1].(int)
	return makeReflectType(rtype{args[0].(rtype).t.(*types.Signature).Params().At(i).Type()})
}

func ext۰reflect۰rtype۰Kind(fr *frame, args []value) value {
	// Signature: func (t reflect.rtype) uint
	return uint(reflectKind(args[0].(rtype).t))
}

func ext۰reflect۰rtype۰NumField(fr *frame, args []value) value {
	// Signature: func (t reflect.rtype) int
	return args[0].(rtype).t.Underlying().(*types.Struct).NumFields()
}

func ext۰reflect۰rtype۰NumIn(fr *frame, args []value) value {
	// Signature: func (t reflect.rtype) int
	return args[0].(rtype).t.Underlying().(*types.Signature).Params().Len()
}

func ext۰reflect۰rtype۰NumMethod(fr *frame, args []value) value {
	// Signature: func (t reflect.rtype) int
	return fr.i.prog.MethodSets.MethodSet(args[0].(rtype).t).Len()
}

func ext۰reflect۰rtype۰NumOut(fr *frame, args []value) value {
	// Signature: func (t reflect.rtype) int
	return args[0].(rtype).t.Underlying().(*types.Signature).Results().Len()
}

func ext۰reflect۰rtype۰Out(fr *frame, args []value) value {
	// Signature: func (t reflect.rtype, i int) int
	i := args[1].(int)
	return makeReflectType(rtype{args[0].(rtype).t.Underlying().(*types.Signature).Results().At(i).Type()})
}

func ext۰reflect۰rtype۰Size(fr *frame, args []value) value {
	// Signature: func (t reflect.rtype) uintptr
	return uintptr(fr.i.sizes.Sizeof(args[0].(rtype).t))
}

func ext۰reflect۰rtype۰String(fr *frame, args []value) value {
	// Signature: func (t reflect.rtype) string
	return args[0].(rtype).t.String()
}

func ext۰reflect۰New(fr *frame, args []value) value {
	// Signature: func (t reflect.Type) reflect.Value
	t := args[0].(iface).v.(rtype).t
	alloc := zero(t)
	return makeReflectValue(types.NewPointer(t), &alloc)
}

func ext۰reflect۰SliceOf(fr *frame, args []value) value {
	// Signature: func (t reflect.rtype) Type
	return makeReflectType(rtype{types.NewSlice(args[0].(iface).v.(rtype).t)})
}

func ext۰reflect۰TypeOf(fr *frame, args []value) value {
	// Signature: func (t reflect.rtype) Type
	return makeReflectType(rtype{args[0].(iface).t})
}

func ext۰reflect۰ValueOf(fr *frame, args []value) value {
	// Signature: func (interface{}) reflect.Value
	itf := args[0].(iface)
	return makeReflectValue(itf.t, itf.v)
}

func ext۰reflect۰Zero(fr *frame, args []value) value {
	// Signature: func (t reflect.Type) reflect.Value
	t := args[0].(iface).v.(rtype).t
	return makeReflectValue(t, zero(t))
}

func reflectKind(t types.Type) reflect.Kind {
	if t == nil {
		return reflect.Invalid // the zero reflect.Value
	}
	switch t := t.(type) {
	case *types.Named, *types.Alias:
		return reflectKind(t.Underlying())
	case *types.Basic:
		switch t.Kind() {
		case types.Bool:
			return reflect.Bool
		case types.Int:
			return reflect.Int
		case types.Int8:
			return reflect.Int8
		case types.Int16:
			return reflect.Int16
		case types.Int32:
			return reflect.Int32
		case types.Int64:
			return reflect.Int64
		case types.Uint:
			return reflect.Uint
		case types.Uint8:
			return reflect.Uint8
		case types.Uint16:
			return reflect.Uint16
		case types.Uint32:
			return reflect.Uint32
		case types.Uint64:
			return reflect.Uint64
		case types.Uintptr:
			return reflect.Uintptr
		case types.Float32:
			return reflect.Float32
		case types.Float64:
			return reflect.Float64
		case types.Complex64:
			return reflect.Complex64
		case types.Complex128:
			return reflect.Complex128
		case types.String:
			return reflect.String
		case types.UnsafePointer:
			return reflect.UnsafePointer
		}
	case *types.Array:
		return reflect.Array
	case *types.Chan:
		return reflect.Chan
	case *types.Signature:
		return reflect.Func
	case *types.Interface:
		return reflect.Interface
	case *types.Map:
		return reflect.Map
	case *types.Pointer:
		return reflect.Pointer
	case *types.Slice:
		return reflect.Slice
	case *types.Struct:
		return reflect.Struct
	}
	panic(fmt.Sprint("unexpected type: ", t))
}

func ext۰reflect۰Value۰Kind(fr *frame, args []value) value {
	// Signature: func (reflect.Value) uint
	return uint(reflectKind(rV2T(args[0]).t))
}

func ext۰reflect۰Value۰String(fr *frame, args []value) value {
	// Signature: func (reflect.Value) string
	switch s := rV2V(args[0]).(type) {
	case string, symStr:
		return s // the string itself, symbolic bytes included
	}
	if t := rV2T(args[0]).t; t != nil {
		return "<" + t.String() + " Value>"
	}
	return "<invalid Value>"
}

func ext۰reflect۰Value۰Type(fr *frame, args []value) value {
	// Signature: func (reflect.Value) reflect.Type
	return makeReflectType(rV2T(args[0]))
}

func ext۰reflect۰Value۰Uint(fr *frame, args []value) value {
	// Signature: func (reflect.Value) uint64
	switch v := rV2V(args[0]).(type) {
	case uint:
		return uint64(v)
	case uint8:
		return uint64(v)
	case uint16:
		return uint64(v)
	case uint32:
		return uint64(v)
	case uint64:
		return uint64(v)
	case uintptr:
		return uint64(v)
	}
	panic("reflect.Value.Uint")
}

func ext۰reflect۰Value۰Len(fr *frame, args []value) value {
	// Signature: func (reflect.Value) int
	switch v := rV2V(args[0]).(type) {
	case string:
		return len(v)
	case symStr:
		return len(v.b)
	case array:
		return len(v)
	case chan value:
		return cap(v)
	case []value:
		return len(v)
	case *symMap:
		return v.len(fr.i)
	default:
		panic(fmt.Sprintf("reflect.(Value).Len(%v)", v))
	}
}

func ext۰reflect۰Value۰MapIndex(fr *frame, args []value) value {
	// Signature: func (reflect.Value) Value
	tValue := rV2T(args[0]).t.Underlying().(*types.Map).Elem()
	k := rV2V(args[1])
	switch m := rV2V(args[0]).(type) {
	case *symMap:
		if v, ok := m.lookup(fr.i, k); ok {
			return makeReflectValue(tValue, v)
		}

	default:
		panic(fmt.Sprintf("(reflect.Value).MapIndex(%T, %T)", m, k))
	}
	return makeReflectValue(nil, nil)
}

func ext۰reflect۰Value۰MapKeys(fr *frame, args []value) value {
	// Signature: func (reflect.Value) []Value
	var keys []value
	tKey := rV2T(args[0]).t.Underlying().(*types.Map).Key()
	switch v := rV2V(args[0]).(type) {
	case *symMap:
		if v != nil {
			for _, e := range v.entries {
				if e.live {
					keys = append(keys, makeReflectValue(tKey, e.key))
				}
			}
		}

	default:
		panic(fmt.Sprintf("(reflect.Value).MapKeys(%T)", v))
	}
	return keys
}

func ext۰reflect۰Value۰NumField(fr *frame, args []value) value {
	// Signature: func (reflect.Value) int
	return len(rV2V(args[0]).(structure))
}

func ext۰reflect۰Value۰NumMethod(fr *frame, args []value) value {
	// Signature: func (reflect.Value) int
	return fr.i.prog.MethodSets.MethodSet(rV2T(args[0]).t).Len()
}

func ext۰reflect۰Value۰Pointer(fr *frame, args []value) value {
	// Signature: func (v reflect.Value) uintptr
	switch v := rV2V(args[0]).(type) {
	case *value:
		return uintptr(unsafe.Pointer(v))
	case chan value:
		return reflect.ValueOf(v).Pointer()
	case []value:
		return reflect.ValueOf(v).Pointer()
	case *symMap:
		return uintptr(unsafe.Pointer(v))
	case *ssa.Function:
		return uintptr(unsafe.Pointer(v))
	case *closure:
		return uintptr(unsafe.Pointer(v))
	default:
		panic(fmt.Sprintf("reflect.(Value).Pointer(%T)", v))
	}
}

func ext۰reflect۰Value۰Index(fr *frame, args []value) value {
	// Signature: func (v reflect.Value, i int) Value
	i := args[1].(int)
	t := rV2T(args[0]).t.Underlying()
	switch v := rV2V(args[0]).(type) {
	case array:
		return makeReflectValue(t.(*types.Array).Elem(), v[i])
	case []value:
		return makeReflectValue(t.(*types.Slice).Elem(), v[i])
	default:
		panic(fmt.Sprintf("reflect.(Value).Index(%T)", v))
	}
}

func ext۰reflect۰Value۰Bool(fr *frame, args []value) value {
	// Signature: func (reflect.Value) bool
	return rV2V(args[0]).(bool)
}

func ext۰reflect۰Value۰CanAddr(fr *frame, args []value) value {
	// Signature: func (v reflect.Value) bool
	// Always false for our representation.
	return false
}

func ext۰reflect۰Value۰CanInterface(fr *frame, args []value) value {
	// Signature: func (v reflect.Value) bool
	// Always true for our representation.
	return true
}

func ext۰reflect۰Value۰Elem(fr *frame, args []value) value {
	// Signature: func (v reflect.Value) reflect.Value
	switch x := rV2V(args[0]).(type) {
	case iface:
		return makeReflectValue(x.t, x.v)
	case *value:
		var v value
		if x != nil {
			v = *x
		}
		return makeReflectValue(rV2T(args[0]).t.Underlying().(*types.Pointer).Elem(), v)
	default:
		panic(fmt.Sprintf("reflect.(Value).Elem(%T)", x))
	}
}

func ext۰reflect۰Value۰Field(fr *frame, args []value) value {
	// Signature: func (v reflect.Value, i int) reflect.Value
	v := args[0]
	i := args[1].(int)
	return makeReflectValue(rV2T(v).t.Underlying().(*types.Struct).Field(i).Type(), rV2V(v).(structure)[i])
}

func ext۰reflect۰Value۰Float(fr *frame, args []value) value {
	// Signature: func (reflect.Value) float64
	switch v := rV2V(args[0]).(type) {
	case float32:
		return float64(v)
	case float64:
		return float64(v)
	}
	panic("reflect.Value.Float")
}

func ext۰reflect۰Value۰Interface(fr *frame, args []value) value {
	// Signature: func (v reflect.Value) interface{}
	return ext۰reflect۰valueInterface(args)
}

func ext۰reflect۰Value۰Int(fr *frame, args []value) value {
	// Signature: func (reflect.Value) int64
	switch x := rV2V(args[0]).(type) {
	case int:
		return int64(x)
	case int8:
		return int64(x)
	case int16:
		return int64(x)
	case int32:
		return int64(x)
	case int64:
		return x
	default:
		panic(fmt.Sprintf("reflect.(Value).Int(%T)", x))
	}
}

func ext۰reflect۰Value۰IsNil(fr *frame, args []value) value {
	// Signature: func (reflect.Value) bool
	switch x := rV2V(args[0]).(type) {
	case *value:
		return x == nil
	case chan value:
		return x == nil
	case *symMap:
		return x == nil
	case iface:
		return x.t == nil
	case []value:
		return x == nil
	case *ssa.Function:
		return x == nil
	case *ssa.Builtin:
		return x == nil
	case *closure:
		return x == nil
	default:
		panic(fmt.Sprintf("reflect.(Value).IsNil(%T)", x))
	}
}

func ext۰reflect۰Value۰IsValid(fr *frame, args []value) value {
	// Signature: func (reflect.Value) bool
	return rV2V(args[0]) != nil
}

func ext۰reflect۰Value۰Set(fr *frame, args []value) value {
	// TODO(adonovan): implement.
	return nil
}

func ext۰reflect۰valueInterface(args []value) value {
	// Signature: func (v reflect.Value, safe bool) interface{}
	v := args[0].(structure)
	if it, ok := rV2V(v).(iface); ok && rV2T(v).t != nil && types.IsInterface(rV2T(v).t) {
		return it // a Value of interface kind holds the interface value itself
	}
	return iface{rV2T(v).t, rV2V(v)}
}

func ext۰reflect۰error۰Error(fr *frame, args []value) value {
	return args[0]
}

// newMethod creates a new method of the specified name, package and receiver type.
func newMethod(pkg *ssa.Package, recvType types.Type, name string) *ssa.Function {
	// TODO(adonovan): fix: hack: currently the only part of Signature
	// that is needed is the "pointerness" of Recv.Type, and for
	// now, we'll set it to always be false since we're only
	// concerned with rtype.  Encapsulate this better.
	sig := types.NewSignatureType(types.NewParam(token.NoPos, nil, "recv", recvType), nil, nil, nil, nil, false)
	fn := pkg.Prog.NewFunction(name, sig, "fake reflect method")
	fn.Pkg = pkg
	return fn
}

func initReflect(i *interpreter) {
	i.reflectPackage = &ssa.Package{
		Prog:    i.prog,
		Pkg:     reflectTypesPackage,
		Members: make(map[string]ssa.Member),
	}

	// Clobber the type-checker's notion of reflect.Value's
	// underlying type so that it more closely matches the fake one
	// (at least in the number of fields---we lie about the type of
	// the rtype field).
	//
	// We must ensure that calls to (ssa.Value).Type() return the
	// fake type so that correct "shape" is used when allocating
	// variables, making zero values, loading, and storing.
	//
	// TODO(adonovan): obviously this is a hack.  We need a cleaner
	// way to fake the reflect package (almost---DeepEqual is fine).
	// One approach would be not to even load its source code, but
	// provide fake source files.  This would guarantee that no bad
	// information leaks into other packages.
	if r := i.prog.ImportedPackage("reflect"); r != nil {
		rV := r.Pkg.Scope().Lookup("Value").Type().(*types.Named)

		// delete bodies of the old methods
		mset := i.prog.MethodSets.MethodSet(rV)
		for method := range mset.Methods() {
			i.prog.MethodValue(method).Blocks = nil
		}

		tEface := types.NewInterface(nil, nil).Complete()
		rV.SetUnderlying(types.NewStruct([]*types.Var{
			types.NewField(token.NoPos, r.Pkg, "t", tEface, false), // a lie
			types.NewField(token.NoPos, r.Pkg, "v", tEface, false),
		}, nil))
	}

	i.rtypeMethods = methodSet{
		"Bits":      newMethod(i.reflectPackage, rtypeType, "Bits"),
		"Elem":      newMethod(i.reflectPackage, rtypeType, "Elem"),
		"Field":     newMethod(i.reflectPackage, rtypeType, "Field"),
		"In":        newMethod(i.reflectPackage, rtypeType, "In"),
		"Kind":      newMethod(i.reflectPackage, rtypeType, "Kind"),
		"NumField":  newMethod(i.reflectPackage, rtypeType, "NumField"),
		"NumIn":     newMethod(i.reflectPackage, rtypeType, "NumIn"),
		"NumMethod": newMethod(i.reflectPackage, rtypeType, "NumMethod"),
		"NumOut":    newMethod(i.reflectPackage, rtypeType, "NumOut"),
		"Out":       newMethod(i.reflectPackage, rtypeType, "Out"),
		"Size":      newMethod(i.reflectPackage, rtypeType, "Size"),
		"String":    newMethod(i.reflectPackage, rtypeType, "String"),
	}
	for _, name := range extraRtypeMethods {
		i.rtypeMethods[name] = newMethod(i.reflectPackage, rtypeType, name)
	}
	i.errorMethods = methodSet{
		"Error": newMethod(i.reflectPackage, errorType, "Error"),
	}
}
