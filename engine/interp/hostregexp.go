package interp

// Regular-expression matching of a concrete pattern against concrete text is
// run by the host's regexp package (the same standard library the code under
// test is built with) instead of interpreting the matcher instruction by
// instruction. Switched on per path by symxRealLibrary("raymond"), whose lexer
// scans kilobytes of constant template text with two dozen expressions; any
// symbolic operand falls back to the interpreted matcher.

import (
	"go/types"
	"regexp"
	"sync"
)

var hostRegexps sync.Map // pattern -> *regexp.Regexp

func hostRegexpFor(fr *frame, recv value) *regexp.Regexp {
	if !fr.i.path.realLibs["raymond"] {
		return nil
	}
	p, ok := recv.(*value)
	if !ok || p == nil {
		return nil
	}
	st, ok := (*p).(structure)
	if !ok {
		return nil
	}
	ts := mustDeref(fr.fn.Signature.Recv().Type()).Underlying().(*types.Struct)
	for k := 0; k < ts.NumFields(); k++ {
		if ts.Field(k).Name() == "expr" {
			pat, ok := st[k].(string)
			if !ok {
				return nil
			}
			if re, ok := hostRegexps.Load(pat); ok {
				return re.(*regexp.Regexp)
			}
			re, err := regexp.Compile(pat)
			if err != nil {
				return nil
			}
			hostRegexps.Store(pat, re)
			return re
		}
	}
	return nil
}

func init() {
	onConcrete := func(f func(re *regexp.Regexp, s string) value) externalFn {
		return func(fr *frame, args []value) value {
			if re := hostRegexpFor(fr, args[0]); re != nil {
				if s, ok := args[1].(string); ok {
					fr.i.path.res.Intrinsics["regexp(host, concrete operands)"]++
					return f(re, s)
				}
			}
			return callBody(fr.i, fr.caller, nil, fr.fn, args, nil)
		}
	}
	ints := func(xs []int) value {
		if xs == nil {
			return []value(nil)
		}
		out := make([]value, len(xs))
		for k, x := range xs {
			out[k] = x
		}
		return out
	}
	strs := func(xs []string) value {
		if xs == nil {
			return []value(nil)
		}
		out := make([]value, len(xs))
		for k, x := range xs {
			out[k] = x
		}
		return out
	}
	intrinsics["(*regexp.Regexp).MatchString"] = onConcrete(func(re *regexp.Regexp, s string) value { return re.MatchString(s) })
	intrinsics["(*regexp.Regexp).FindString"] = onConcrete(func(re *regexp.Regexp, s string) value { return re.FindString(s) })
	intrinsics["(*regexp.Regexp).FindStringIndex"] = onConcrete(func(re *regexp.Regexp, s string) value { return ints(re.FindStringIndex(s)) })
	intrinsics["(*regexp.Regexp).FindStringSubmatch"] = onConcrete(func(re *regexp.Regexp, s string) value { return strs(re.FindStringSubmatch(s)) })
	intrinsics["(*regexp.Regexp).FindStringSubmatchIndex"] = onConcrete(func(re *regexp.Regexp, s string) value { return ints(re.FindStringSubmatchIndex(s)) })
	intrinsics["(*regexp.Regexp).ReplaceAllString"] = func(fr *frame, args []value) value {
		if re := hostRegexpFor(fr, args[0]); re != nil {
			if s, ok := args[1].(string); ok {
				if r, ok := args[2].(string); ok {
					fr.i.path.res.Intrinsics["regexp(host, concrete operands)"]++
					return re.ReplaceAllString(s, r)
				}
			}
		}
		return callBody(fr.i, fr.caller, nil, fr.fn, args, nil)
	}
}
