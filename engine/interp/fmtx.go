package interp

// A model of fmt.Sprintf/Errorf/Sprint over interpreter values (fmt itself is
// reflection-driven and cannot be interpreted).

import (
	"fmt"
	"go/types"
	"strconv"
	"strings"

	"golang.org/x/tools/go/ssa"
)

// callMethodByName invokes the niladic method name on (t, v) if it exists.
func (i *interpreter) callMethodByName(fr *frame, t types.Type, v value, name string) (value, bool) {
	mset := i.prog.MethodSets.MethodSet(t)
	for k := 0; k < mset.Len(); k++ {
		sel := mset.At(k)
		if sel.Obj().Name() == name {
			sig := sel.Type().(*types.Signature)
			if sig.Params().Len() != 0 || sig.Results().Len() != 1 {
				return nil, false
			}
			fn := i.prog.MethodValue(sel)
			if fn == nil {
				return nil, false
			}
			return call(i, fr, 0, fn, []value{v}), true
		}
	}
	return nil, false
}

type fmtState struct {
	i   *interpreter
	fr  *frame
	out []value // bytes
}

func (f *fmtState) ws(s string) {
	for k := 0; k < len(s); k++ {
		f.out = append(f.out, s[k])
	}
}

func (f *fmtState) wv(s value) { f.out = append(f.out, strBytes(s)...) }

// formatValue appends the %v (or given verb) rendering of v of static type t.
func (f *fmtState) formatValue(t types.Type, v value, verb byte, plus, sharp bool, depth int) {
	i := f.i
	if t == nil {
		f.ws("<nil>")
		return
	}
	if verb == 'T' {
		f.ws(types.TypeString(t, nil))
		return
	}
	// error / Stringer take precedence for %v %s %q
	if depth < 6 && (verb == 'v' || verb == 's' || verb == 'q') && !sharp {
		if p, ok := v.(*value); !ok || p != nil {
			if _, isIface := t.Underlying().(*types.Interface); !isIface {
				if r, ok := i.callMethodByName(f.fr, t, v, "Error"); ok {
					f.formatString(r, verb)
					return
				}
				if r, ok := i.callMethodByName(f.fr, t, v, "String"); ok {
					f.formatString(r, verb)
					return
				}
			}
		}
	}
	switch ut := t.Underlying().(type) {
	case *types.Basic:
		switch {
		case ut.Info()&types.IsString != 0:
			f.formatString(v, verb)
		case ut.Info()&types.IsBoolean != 0:
			b := i.concValue(v, "fmt bool").(bool)
			f.ws(strconv.FormatBool(b))
		case ut.Info()&types.IsInteger != 0:
			cv := i.concValue(v, "fmt integer")
			switch verb {
			case 'c':
				f.ws(string(rune(asInt64(cv))))
			case 'x':
				f.ws(fmt.Sprintf("%x", cv))
			case 'X':
				f.ws(fmt.Sprintf("%X", cv))
			case 'q':
				f.ws(fmt.Sprintf("%q", cv))
			case 'o':
				f.ws(fmt.Sprintf("%o", cv))
			case 'b':
				f.ws(fmt.Sprintf("%b", cv))
			case 'U':
				f.ws(fmt.Sprintf("%U", cv))
			default:
				f.ws(fmt.Sprintf("%d", cv))
			}
		case ut.Info()&types.IsFloat != 0:
			f.ws(fmt.Sprintf("%"+string(verb), v))
		case ut.Kind() == types.UnsafePointer:
			f.ws("0xPTR")
		default:
			f.ws(fmt.Sprintf("%v", v))
		}
	case *types.Interface:
		it := v.(iface)
		f.formatValue(it.t, it.v, verb, plus, sharp, depth+1)
	case *types.Pointer:
		p := v.(*value)
		if p == nil {
			f.ws("<nil>")
			return
		}
		if depth == 0 {
			if st, ok := ut.Elem().Underlying().(*types.Struct); ok {
				_ = st
				f.ws("&")
				f.formatValue(ut.Elem(), *p, verb, plus, sharp, depth+1)
				return
			}
		}
		f.ws("0xPTR")
		i.path.res.Intrinsics["fmt.opaque-pointer"]++
	case *types.Slice:
		xs := v.([]value)
		if b, ok := ut.Elem().Underlying().(*types.Basic); ok && b.Kind() == types.Uint8 && (verb == 's' || verb == 'q') {
			f.formatString(mkStr(xs), verb)
			return
		}
		f.ws("[")
		for k, e := range xs {
			if k > 0 {
				f.ws(" ")
			}
			f.formatValue(ut.Elem(), e, verb, plus, sharp, depth+1)
		}
		f.ws("]")
	case *types.Array:
		xs := v.(array)
		f.ws("[")
		for k, e := range xs {
			if k > 0 {
				f.ws(" ")
			}
			f.formatValue(ut.Elem(), e, verb, plus, sharp, depth+1)
		}
		f.ws("]")
	case *types.Struct:
		st := v.(structure)
		f.ws("{")
		for k := 0; k < ut.NumFields(); k++ {
			if k > 0 {
				f.ws(" ")
			}
			if plus {
				f.ws(ut.Field(k).Name() + ":")
			}
			f.formatValue(ut.Field(k).Type(), st[k], verb, plus, sharp, depth+1)
		}
		f.ws("}")
	case *types.Map:
		m := v.(*symMap)
		f.ws("map[")
		if m != nil {
			// fmt sorts map keys; only concrete basic keys are supported exactly
			type kv struct {
				ks string
				e  *mapEntry
			}
			var kvs []kv
			for _, e := range m.entries {
				if e.live {
					sub := &fmtState{i: i, fr: f.fr}
					sub.formatValue(ut.Key(), e.key, verb, plus, sharp, depth+1)
					kvs = append(kvs, kv{i.concValue(mkStr(sub.out), "fmt map key").(string), e})
				}
			}
			// sort by rendered key (exact for string keys)
			for a := 1; a < len(kvs); a++ {
				for b := a; b > 0 && kvs[b].ks < kvs[b-1].ks; b-- {
					kvs[b], kvs[b-1] = kvs[b-1], kvs[b]
				}
			}
			for k, x := range kvs {
				if k > 0 {
					f.ws(" ")
				}
				f.ws(x.ks + ":")
				f.formatValue(ut.Elem(), x.e.val, verb, plus, sharp, depth+1)
			}
		}
		f.ws("]")
	case *types.Signature:
		f.ws("0xFUNC")
	default:
		f.ws("<" + t.String() + ">")
		i.path.res.Intrinsics["fmt.opaque"]++
	}
}

func (f *fmtState) formatString(v value, verb byte) {
	switch verb {
	case 'q':
		s := f.i.concValue(v, "fmt %q").(string)
		f.ws(strconv.Quote(s))
	case 'x':
		s := f.i.concValue(v, "fmt %x").(string)
		f.ws(fmt.Sprintf("%x", s))
	default:
		f.wv(v)
	}
}

// sprintf renders format with args ([]iface values).
func (i *interpreter) sprintf(fr *frame, format value, args []value) value {
	fs, ok := format.(string)
	if !ok {
		fs = i.concValue(format, "fmt format string").(string)
	}
	f := &fmtState{i: i, fr: fr}
	argi := 0
	for k := 0; k < len(fs); k++ {
		c := fs[k]
		if c != '%' {
			f.out = append(f.out, c)
			continue
		}
		k++
		if k >= len(fs) {
			f.ws("%!(NOVERB)")
			break
		}
		plus, sharp := false, false
		flags := ""
		for k < len(fs) && strings.IndexByte("+-# 0123456789.", fs[k]) >= 0 {
			if fs[k] == '+' {
				plus = true
			}
			if fs[k] == '#' {
				sharp = true
			}
			flags += string(fs[k])
			k++
		}
		if k >= len(fs) {
			f.ws("%!(NOVERB)")
			break
		}
		verb := fs[k]
		if verb == '%' {
			f.ws("%")
			continue
		}
		if argi >= len(args) {
			f.ws("%!" + string(verb) + "(MISSING)")
			continue
		}
		a := args[argi].(iface)
		argi++
		if verb == 'w' {
			verb = 'v'
		}
		widthFlags := strings.Trim(flags, "+#")
		if widthFlags != "" {
			// width/precision: render concretely through host fmt when the operand is basic
			cv := i.concValue(a.v, "fmt width")
			switch cv.(type) {
			case string, bool, int, int8, int16, int32, int64, uint, uint8, uint16, uint32, uint64, uintptr, float32, float64:
				f.ws(fmt.Sprintf("%"+flags+string(verb), cv))
				continue
			}
			i.path.abort("fmt: unsupported flags %q for %T", flags, a.v)
		}
		f.formatValue(a.t, a.v, verb, plus, sharp, 0)
	}
	if argi < len(args) {
		f.ws("%!(EXTRA ")
		for k := argi; k < len(args); k++ {
			a := args[k].(iface)
			if k > argi {
				f.ws(", ")
			}
			if a.t != nil {
				f.ws(types.TypeString(a.t, nil) + "=")
			}
			f.formatValue(a.t, a.v, 'v', false, false, 0)
		}
		f.ws(")")
	}
	return mkStr(f.out)
}

// sprint renders fmt.Sprint(args...) / Sprintln.
func (i *interpreter) sprint(fr *frame, args []value, ln bool) value {
	f := &fmtState{i: i, fr: fr}
	prevString := false
	for k, av := range args {
		a := av.(iface)
		isString := false
		if a.t != nil {
			if b, ok := a.t.Underlying().(*types.Basic); ok && b.Info()&types.IsString != 0 {
				isString = true
			}
		}
		if k > 0 && (ln || (!isString && !prevString)) {
			f.ws(" ")
		}
		f.formatValue(a.t, a.v, 'v', false, false, 0)
		prevString = isString
	}
	if ln {
		f.ws("\n")
	}
	return mkStr(f.out)
}

var _ *ssa.Function

// callMethodWithArgs invokes method name of (t, v) with extra args.
func (i *interpreter) callMethodWithArgs(fr *frame, t types.Type, v value, name string, args []value) (value, bool) {
	mset := i.prog.MethodSets.MethodSet(t)
	for k := 0; k < mset.Len(); k++ {
		sel := mset.At(k)
		if sel.Obj().Name() == name {
			fn := i.prog.MethodValue(sel)
			if fn == nil {
				return nil, false
			}
			return call(i, fr, 0, fn, append([]value{v}, args...)), true
		}
	}
	return nil, false
}
