package interp

// Symbolic values and the symbolic halves of binop/unop/conv.

import (
	"fmt"
	"go/token"
	"go/types"
	"os"
	"runtime/debug"
	"unicode/utf8"

	"gosym/sym"
)

// symInt is an integer of Go basic kind k whose value is the bit-vector term t.
type symInt struct {
	k types.BasicKind
	t *sym.Term
}

type symBool struct{ t *sym.Term }

// symStr is a string of concrete length whose bytes are uint8 or symInt{Uint8}.
type symStr struct{ b []value }

func kindWidth(k types.BasicKind) int {
	switch k {
	case types.Int8, types.Uint8:
		return 8
	case types.Int16, types.Uint16:
		return 16
	case types.Int32, types.Uint32:
		return 32
	case types.Int, types.Int64, types.Uint, types.Uint64, types.Uintptr:
		return 64
	}
	panic(fmt.Sprintf("kindWidth: %v", k))
}

func kindSigned(k types.BasicKind) bool {
	switch k {
	case types.Int, types.Int8, types.Int16, types.Int32, types.Int64:
		return true
	}
	return false
}

// intKind returns the basic kind and value bits of a concrete integer value.
func intKind(v value) (types.BasicKind, uint64, bool) {
	switch v := v.(type) {
	case int:
		return types.Int, uint64(v), true
	case int8:
		return types.Int8, uint64(v), true
	case int16:
		return types.Int16, uint64(v), true
	case int32:
		return types.Int32, uint64(v), true
	case int64:
		return types.Int64, uint64(v), true
	case uint:
		return types.Uint, uint64(v), true
	case uint8:
		return types.Uint8, uint64(v), true
	case uint16:
		return types.Uint16, uint64(v), true
	case uint32:
		return types.Uint32, uint64(v), true
	case uint64:
		return types.Uint64, v, true
	case uintptr:
		return types.Uintptr, uint64(v), true
	}
	return 0, 0, false
}

func concInt(k types.BasicKind, bits uint64) value {
	switch k {
	case types.Int:
		return int(bits)
	case types.Int8:
		return int8(bits)
	case types.Int16:
		return int16(bits)
	case types.Int32:
		return int32(bits)
	case types.Int64:
		return int64(bits)
	case types.Uint:
		return uint(bits)
	case types.Uint8:
		return uint8(bits)
	case types.Uint16:
		return uint16(bits)
	case types.Uint32:
		return uint32(bits)
	case types.Uint64:
		return bits
	case types.Uintptr:
		return uintptr(bits)
	}
	panic(fmt.Sprintf("concInt: %v", k))
}

func mkInt(k types.BasicKind, t *sym.Term) value {
	if t.IsConst() {
		return concInt(k, t.Val)
	}
	return symInt{k, t}
}

func mkBool(t *sym.Term) value {
	if t.IsConst() {
		return t.Val == 1
	}
	return symBool{t}
}

func isSym(v value) bool {
	switch v.(type) {
	case symInt, symBool, symStr:
		return true
	}
	return false
}

// intTerm returns kind and term for any integer value (concrete or symbolic).
func intTerm(v value) (types.BasicKind, *sym.Term, bool) {
	if s, ok := v.(symInt); ok {
		return s.k, s.t, true
	}
	if k, bits, ok := intKind(v); ok {
		return k, sym.BV(kindWidth(k), bits), true
	}
	return 0, nil, false
}

func boolTerm(v value) (*sym.Term, bool) {
	switch v := v.(type) {
	case bool:
		return sym.Bool(v), true
	case symBool:
		return v.t, true
	}
	return nil, false
}

func byteTerm(v value) *sym.Term {
	switch v := v.(type) {
	case uint8:
		return sym.BV(8, uint64(v))
	case symInt:
		return v.t
	}
	panic(fmt.Sprintf("byteTerm: %T", v))
}

// strBytes returns the byte vector of a string value.
func strBytes(v value) []value {
	switch v := v.(type) {
	case string:
		b := make([]value, len(v))
		for i := 0; i < len(v); i++ {
			b[i] = v[i]
		}
		return b
	case symStr:
		return v.b
	}
	if os.Getenv("GOSYM_HOSTSTACK") != "" {
		fmt.Fprintf(os.Stderr, "strBytes %#v\n%s\n", v, debug.Stack())
	}
	panic(fmt.Sprintf("strBytes: %T", v))
}

func isStr(v value) bool {
	switch v.(type) {
	case string, symStr:
		return true
	}
	return false
}

func strLen(v value) int {
	switch v := v.(type) {
	case string:
		return len(v)
	case symStr:
		return len(v.b)
	}
	panic(fmt.Sprintf("strLen: %T", v))
}

// mkStr builds a string value from bytes, collapsing to a Go string if concrete.
func mkStr(b []value) value {
	conc := true
	for _, x := range b {
		if _, ok := x.(uint8); !ok {
			conc = false
			break
		}
	}
	if conc {
		bs := make([]byte, len(b))
		for i, x := range b {
			bs[i] = x.(uint8)
		}
		return string(bs)
	}
	return symStr{b: append([]value(nil), b...)}
}

func strEqTerm(x, y value) *sym.Term {
	xb, yb := strBytes(x), strBytes(y)
	if len(xb) != len(yb) {
		return sym.False
	}
	cs := make([]*sym.Term, 0, len(xb))
	for i := range xb {
		c := sym.Eq(byteTerm(xb[i]), byteTerm(yb[i]))
		if c.IsFalse() {
			return sym.False
		}
		cs = append(cs, c)
	}
	return sym.And(cs...)
}

// strLtTerm returns x < y (lexicographic, bytewise).
func strLtTerm(x, y value, orEq bool) *sym.Term {
	xb, yb := strBytes(x), strBytes(y)
	n := len(xb)
	if len(yb) < n {
		n = len(yb)
	}
	// tail result when common prefix equal
	var res *sym.Term
	if len(xb) < len(yb) {
		res = sym.True
	} else if len(xb) == len(yb) {
		res = sym.Bool(orEq)
	} else {
		res = sym.False
	}
	for i := n - 1; i >= 0; i-- {
		a, b := byteTerm(xb[i]), byteTerm(yb[i])
		res = sym.Ite(sym.Cmp(sym.OpULt, a, b), sym.True, sym.Ite(sym.Eq(a, b), res, sym.False))
	}
	return res
}

// symBinop handles binop when at least one operand is symbolic. ok=false means not applicable.
func (i *interpreter) symBinop(op token.Token, t types.Type, x, y value) (value, bool) {
	if !isSym(x) && !isSym(y) {
		return nil, false
	}
	// strings
	if isStr(x) && isStr(y) {
		switch op {
		case token.ADD:
			return mkStr(append(append([]value(nil), strBytes(x)...), strBytes(y)...)), true
		case token.EQL:
			return mkBool(strEqTerm(x, y)), true
		case token.NEQ:
			return mkBool(sym.Not(strEqTerm(x, y))), true
		case token.LSS:
			return mkBool(strLtTerm(x, y, false)), true
		case token.LEQ:
			return mkBool(strLtTerm(x, y, true)), true
		case token.GTR:
			return mkBool(strLtTerm(y, x, false)), true
		case token.GEQ:
			return mkBool(strLtTerm(y, x, true)), true
		}
		i.path.abort("symbolic string op %s", op)
	}
	// booleans
	if bx, ok := boolTerm(x); ok {
		by, ok2 := boolTerm(y)
		if !ok2 {
			i.path.abort("bool op with %T", y)
		}
		switch op {
		case token.EQL:
			return mkBool(sym.Eq(bx, by)), true
		case token.NEQ:
			return mkBool(sym.Not(sym.Eq(bx, by))), true
		case token.AND, token.LAND:
			return mkBool(sym.And(bx, by)), true
		case token.OR, token.LOR:
			return mkBool(sym.Or(bx, by)), true
		}
		i.path.abort("symbolic bool op %s", op)
	}
	kx, tx, okx := intTerm(x)
	ky, ty, oky := intTerm(y)
	if !okx || !oky {
		// composite values (structs, arrays, interfaces) containing symbolic leaves
		if op == token.EQL || op == token.NEQ {
			return nil, false // handled by symbolic-aware equals
		}
		i.path.abort("symbolic binop %s on %T, %T", op, x, y)
	}
	signed := kindSigned(kx)
	switch op {
	case token.SHL, token.SHR:
		// shift count may have a different kind/width
		w := kindWidth(kx)
		var cnt *sym.Term
		if kindSigned(ky) {
			// negative shift count panics
			if i.path.branch(sym.Cmp(sym.OpSLt, ty, sym.BV(ty.W, 0))) {
				panic(fmt.Sprintf("negative shift amount"))
			}
		}
		if ty.W < w {
			cnt = sym.ZExt(ty, w)
		} else if ty.W > w {
			// saturate: if ty >= w then w else low bits
			big := sym.Not(sym.Cmp(sym.OpULt, ty, sym.BV(ty.W, uint64(w))))
			cnt = sym.Ite(big, sym.BV(w, uint64(w)), sym.Extract(ty, 0, w))
		} else {
			cnt = ty
		}
		if op == token.SHL {
			return mkInt(kx, sym.Bin(sym.OpShl, tx, cnt)), true
		}
		if signed {
			return mkInt(kx, sym.Bin(sym.OpAShr, tx, cnt)), true
		}
		return mkInt(kx, sym.Bin(sym.OpLShr, tx, cnt)), true
	}
	if tx.W != ty.W {
		i.path.abort("symbolic binop %s width mismatch %v/%v", op, kx, ky)
	}
	switch op {
	case token.ADD:
		return mkInt(kx, sym.Bin(sym.OpAdd, tx, ty)), true
	case token.SUB:
		return mkInt(kx, sym.Bin(sym.OpSub, tx, ty)), true
	case token.MUL:
		return mkInt(kx, sym.Bin(sym.OpMul, tx, ty)), true
	case token.QUO, token.REM:
		if i.path.branch(sym.Eq(ty, sym.BV(ty.W, 0))) {
			panic(runtimeError("integer divide by zero"))
		}
		var o sym.Op
		switch {
		case op == token.QUO && signed:
			o = sym.OpSDiv
		case op == token.QUO:
			o = sym.OpUDiv
		case signed:
			o = sym.OpSRem
		default:
			o = sym.OpURem
		}
		return mkInt(kx, sym.Bin(o, tx, ty)), true
	case token.AND:
		return mkInt(kx, sym.Bin(sym.OpBAnd, tx, ty)), true
	case token.OR:
		return mkInt(kx, sym.Bin(sym.OpBOr, tx, ty)), true
	case token.XOR:
		return mkInt(kx, sym.Bin(sym.OpBXor, tx, ty)), true
	case token.AND_NOT:
		return mkInt(kx, sym.Bin(sym.OpBAnd, tx, sym.BNot(ty))), true
	case token.EQL:
		return mkBool(sym.Eq(tx, ty)), true
	case token.NEQ:
		return mkBool(sym.Not(sym.Eq(tx, ty))), true
	case token.LSS:
		if signed {
			return mkBool(sym.Cmp(sym.OpSLt, tx, ty)), true
		}
		return mkBool(sym.Cmp(sym.OpULt, tx, ty)), true
	case token.LEQ:
		if signed {
			return mkBool(sym.Cmp(sym.OpSLe, tx, ty)), true
		}
		return mkBool(sym.Cmp(sym.OpULe, tx, ty)), true
	case token.GTR:
		if signed {
			return mkBool(sym.Cmp(sym.OpSLt, ty, tx)), true
		}
		return mkBool(sym.Cmp(sym.OpULt, ty, tx)), true
	case token.GEQ:
		if signed {
			return mkBool(sym.Cmp(sym.OpSLe, ty, tx)), true
		}
		return mkBool(sym.Cmp(sym.OpULe, ty, tx)), true
	}
	i.path.abort("symbolic int op %s", op)
	return nil, false
}

type runtimeError string

func (e runtimeError) Error() string { return "runtime error: " + string(e) }
func (e runtimeError) RuntimeError() {}

func (i *interpreter) symUnop(op token.Token, x value) (value, bool) {
	switch x := x.(type) {
	case symBool:
		if op == token.NOT {
			return mkBool(sym.Not(x.t)), true
		}
	case symInt:
		switch op {
		case token.SUB:
			return mkInt(x.k, sym.Neg(x.t)), true
		case token.XOR:
			return mkInt(x.k, sym.BNot(x.t)), true
		}
	}
	return nil, false
}

// symConv handles conversions of symbolic values.
func (i *interpreter) symConv(t_dst, t_src types.Type, x value) (value, bool) {
	ud := t_dst.Underlying()
	switch x := x.(type) {
	case symInt:
		if b, ok := ud.(*types.Basic); ok {
			if b.Info()&types.IsInteger != 0 {
				k := b.Kind()
				w := kindWidth(k)
				var t *sym.Term
				if w <= x.t.W {
					t = sym.Extract(x.t, 0, w)
				} else if kindSigned(x.k) {
					t = sym.SExt(x.t, w)
				} else {
					t = sym.ZExt(x.t, w)
				}
				return mkInt(k, t), true
			}
			if b.Kind() == types.String {
				// string(rune): fork ASCII vs rest
				r := i.concRune(x)
				return string(r), true
			}
			if b.Info()&types.IsFloat != 0 {
				v := i.path.concretize(x.t, "int->float conversion")
				return conv(t_dst, t_src, concInt(x.k, v)), true
			}
		}
	case symStr:
		switch ud := ud.(type) {
		case *types.Basic:
			if ud.Kind() == types.String {
				return x, true
			}
		case *types.Slice:
			switch ud.Elem().Underlying().(*types.Basic).Kind() {
			case types.Byte:
				return append([]value(nil), x.b...), true
			case types.Rune:
				var res []value
				it := &symStrIter{i: i, b: x.b}
				for {
					tup := it.next()
					if ok := tup[0].(bool); !ok {
						break
					}
					res = append(res, tup[2])
				}
				return res, true
			}
		}
	case []value:
		// []byte / []rune -> string with symbolic elements
		if us, ok := t_src.Underlying().(*types.Slice); ok {
			if b, ok := ud.(*types.Basic); ok && b.Kind() == types.String {
				switch us.Elem().Underlying().(*types.Basic).Kind() {
				case types.Byte:
					return mkStr(x), true
				case types.Rune:
					var out []value
					for _, r := range x {
						switch r := r.(type) {
						case int32:
							for _, c := range []byte(string(r)) {
								out = append(out, c)
							}
						case symInt:
							// ASCII fast path, else concretise
							if i.path.branch(sym.Cmp(sym.OpULt, r.t, sym.BV(32, 0x80))) {
								out = append(out, mkInt(types.Uint8, sym.Extract(r.t, 0, 8)))
							} else {
								v := i.path.concretize(r.t, "rune->string")
								for _, c := range []byte(string(rune(int32(v)))) {
									out = append(out, c)
								}
							}
						}
					}
					return mkStr(out), true
				}
			}
		}
		return nil, false
	}
	return nil, false
}

func (i *interpreter) concRune(x symInt) rune {
	v := i.path.concretize(x.t, "rune")
	return rune(int32(signExtTo64(v, x.t.W)))
}

func signExtTo64(v uint64, w int) int64 {
	if w >= 64 {
		return int64(v)
	}
	sh := uint(64 - w)
	return int64(v<<sh) >> sh
}

// concInt64 returns a concrete int64 for an integer value, concretising if needed.
func (i *interpreter) concInt64(x value, why string) int64 {
	if s, ok := x.(symInt); ok {
		v := i.path.concretize(s.t, why)
		if kindSigned(s.k) {
			return signExtTo64(v, s.t.W)
		}
		return int64(v)
	}
	return asInt64(x)
}

// concValue makes any basic value concrete (forking over feasible values).
func (i *interpreter) concValue(x value, why string) value {
	switch x := x.(type) {
	case symInt:
		return concInt(x.k, i.path.concretize(x.t, why))
	case symBool:
		return i.path.concretize(x.t, why) == 1
	case symStr:
		bs := make([]byte, len(x.b))
		for j, b := range x.b {
			switch b := b.(type) {
			case uint8:
				bs[j] = b
			case symInt:
				bs[j] = byte(i.path.concretize(b.t, why))
			}
		}
		return string(bs)
	}
	return x
}

// index with bounds check on a possibly symbolic index; returns concrete index.
func (i *interpreter) boundedIndex(idx value, n int, what string) int {
	if s, ok := idx.(symInt); ok {
		var inRange *sym.Term
		if kindSigned(s.k) {
			t64 := sym.SExt(s.t, 64)
			inRange = sym.And(sym.Cmp(sym.OpSLe, sym.BV(64, 0), t64), sym.Cmp(sym.OpSLt, t64, sym.BV(64, uint64(n))))
		} else {
			inRange = sym.Cmp(sym.OpULt, sym.ZExt(s.t, 64), sym.BV(64, uint64(n)))
		}
		if !i.path.branch(inRange) {
			panic(runtimeError(fmt.Sprintf("index out of range [symbolic] with length %d", n)))
		}
		return int(i.path.concretize(s.t, what))
	}
	k := asInt64(idx)
	if k < 0 || k >= int64(n) {
		panic(runtimeError(fmt.Sprintf("index out of range [%d] with length %d", k, n)))
	}
	return int(k)
}

// symStrIter ranges over a (possibly symbolic) string decoding UTF-8.
type symStrIter struct {
	i   *interpreter
	b   []value
	pos int
}

func (it *symStrIter) next() tuple {
	if it.pos >= len(it.b) {
		return tuple{false, nil, nil}
	}
	start := it.pos
	b0 := it.b[it.pos]
	if s, ok := b0.(symInt); ok {
		if it.i.path.branch(sym.Cmp(sym.OpULt, s.t, sym.BV(8, 0x80))) {
			it.pos++
			return tuple{true, start, mkInt(types.Int32, sym.ZExt(s.t, 32))}
		}
	} else if b0.(uint8) < 0x80 {
		it.pos++
		return tuple{true, start, int32(b0.(uint8))}
	}
	// multi-byte: concretise up to 4 bytes and decode
	var buf [4]byte
	n := 0
	for j := it.pos; j < len(it.b) && n < 4; j++ {
		switch b := it.b[j].(type) {
		case uint8:
			buf[n] = b
		case symInt:
			buf[n] = byte(it.i.path.concretize(b.t, "utf8 decode"))
		}
		n++
		// stop early if sequence complete
		if utf8.FullRune(buf[:n]) {
			break
		}
	}
	r, sz := utf8.DecodeRune(buf[:n])
	it.pos += sz
	return tuple{true, start, int32(r)}
}
