// Copyright 2013 The Go Authors. All rights reserved.
// Use of this source code is governed by a BSD-style
// license that can be found in the LICENSE file.

// Package ssa/interp defines an interpreter for the SSA
// representation of Go programs.
//
// This interpreter is provided as an adjunct for testing the SSA
// construction algorithm.  Its purpose is to provide a minimal
// metacircular implementation of the dynamic semantics of each SSA
// instruction.  It is not, and will never be, a production-quality Go
// interpreter.
//
// The following is a partial list of Go features that are currently
// unsupported or incomplete in the interpreter.
//
// * Unsafe operations, including all uses of unsafe.Pointer, are
// impossible to support given the "boxed" value representation we
// have chosen.
//
// * The reflect package is only partially implemented.
//
// * The "testing" package is no longer supported because it
// depends on low-level details that change too often.
//
// * "sync/atomic" operations are not atomic due to the "boxed" value
// representation: it is not possible to read, modify and write an
// interface value atomically. As a consequence, Mutexes are currently
// broken.
//
// * recover is only partially implemented.  Also, the interpreter
// makes no attempt to distinguish target panics from interpreter
// crashes.
//
// * the sizes of the int, uint and uintptr types in the target
// program are assumed to be the same as those of the interpreter
// itself.
//
// * all values occupy space, even those of types defined by the spec
// to have zero size, e.g. struct{}.  This can cause asymptotic
// performance degradation.
//
// * os.Exit is implemented using panic, causing deferred functions to
// run.
package interp // import "golang.org/x/tools/go/ssa/interp"

import (
	"fmt"
	"go/token"
	"go/types"
	"log"
	"os"
	"runtime"
	"runtime/debug"
	"slices"
	"strings"
	_ "unsafe"

	"golang.org/x/tools/go/ssa"
)

type continuation int

const (
	kNext continuation = iota
	kReturn
	kJump
)

// Mode is a bitmask of options affecting the interpreter.
type Mode uint

const (
	DisableRecover Mode = 1 << iota // Disable recover() in target programs; show interpreter crash instead.
	EnableTracing                   // Print a trace of all instructions as they are interpreted.
)

type methodSet map[string]*ssa.Function

// State shared between all interpreted goroutines.
type interpreter struct {
	jsonFr *frame // frame of the json.Marshal call in progress (for MarshalJSON methods)
	*Shared
	globals map[*ssa.Global]*value // addresses of global variables, allocated lazily per path
	inited  map[*ssa.Package]bool  // packages whose init has run (or is running) on this path
	mode    Mode                   // interpreter options
	path    *pathCtx
	envst   *envState // recording environment stubs (os.*, stubs)
	ws      *workerState
}

// Shared is the per-program state shared by all workers (immutable after NewShared).
type Shared struct {
	prog               *ssa.Program // the SSA program
	reflectPackage     *ssa.Package // the fake reflect package
	errorMethods       methodSet    // the method set of reflect.error, which implements the error interface.
	rtypeMethods       methodSet    // the method set of rtype, which implements the reflect.Type interface.
	runtimeErrorString types.Type   // the runtime.errorString type
	sizes              types.Sizes  // the effective type-sizing function
	initWrites         map[*ssa.Global]bool
	Trace              bool
}

type deferred struct {
	fn    value
	args  []value
	instr *ssa.Defer
	tail  *deferred
}

type frame struct {
	i                *interpreter
	caller           *frame
	fn               *ssa.Function
	block, prevBlock *ssa.BasicBlock
	env              map[ssa.Value]value // dynamic values of SSA variables
	locals           []value
	defers           *deferred
	result           value
	panicking        bool
	panic            any
	phitemps         []value // temporaries for parallel phi assignment
}

func (fr *frame) get(key ssa.Value) value {
	switch key := key.(type) {
	case nil:
		// Hack; simplifies handling of optional attributes
		// such as ssa.Slice.{Low,High}.
		return nil
	case *ssa.Function, *ssa.Builtin:
		return key
	case *ssa.Const:
		return constValue(key)
	case *ssa.Global:
		return fr.i.globalAddr(key)
	}
	if r, ok := fr.env[key]; ok {
		return r
	}
	panic(fmt.Sprintf("get: no value for %T: %v", key, key.Name()))
}

// runDefer runs a deferred call d.
// It always returns normally, but may set or clear fr.panic.
func (fr *frame) runDefer(d *deferred) {
	if fr.i.mode&EnableTracing != 0 {
		fmt.Fprintf(os.Stderr, "%s: invoking deferred function call\n",
			fr.i.prog.Fset.Position(d.instr.Pos()))
	}
	var ok bool
	defer func() {
		if !ok {
			// Deferred call created a new state of panic.
			r := recover()
			if isEngineUnwind(r) {
				panic(r)
			}
			fr.panicking = true
			fr.panic = r
		}
	}()
	call(fr.i, fr, d.instr.Pos(), d.fn, d.args)
	ok = true
}

// runDefers executes fr's deferred function calls in LIFO order.
//
// On entry, fr.panicking indicates a state of panic; if
// true, fr.panic contains the panic value.
//
// On completion, if a deferred call started a panic, or if no
// deferred call recovered from a previous state of panic, then
// runDefers itself panics after the last deferred call has run.
//
// If there was no initial state of panic, or it was recovered from,
// runDefers returns normally.
func (fr *frame) runDefers() {
	for d := fr.defers; d != nil; d = d.tail {
		fr.runDefer(d)
	}
	fr.defers = nil
	if fr.panicking {
		panic(fr.panic) // new panic, or still panicking
	}
}

// lookupMethod returns the method set for type typ, which may be one
// of the interpreter's fake types.
func lookupMethod(i *interpreter, typ types.Type, meth *types.Func) *ssa.Function {
	switch typ {
	case rtypeType:
		return i.rtypeMethods[meth.Id()]
	case errorType:
		return i.errorMethods[meth.Id()]
	}
	return i.prog.LookupMethod(typ, meth.Pkg(), meth.Name())
}

// visitInstr interprets a single ssa.Instruction within the activation
// record frame.  It returns a continuation value indicating where to
// read the next instruction from.
func visitInstr(fr *frame, instr ssa.Instruction) continuation {
	switch instr := instr.(type) {
	case *ssa.DebugRef:
		// no-op

	case *ssa.UnOp:
		fr.env[instr] = unop(fr.i, instr, fr.get(instr.X))

	case *ssa.BinOp:
		fr.env[instr] = binop(fr.i, instr.Op, instr.X.Type(), fr.get(instr.X), fr.get(instr.Y))

	case *ssa.Call:
		fn, args := prepareCall(fr, &instr.Call)
		fr.env[instr] = call(fr.i, fr, instr.Pos(), fn, args)

	case *ssa.ChangeInterface:
		fr.env[instr] = fr.get(instr.X)

	case *ssa.ChangeType:
		fr.env[instr] = fr.get(instr.X) // (can't fail)

	case *ssa.Convert:
		fr.env[instr] = fr.i.convert(instr.Type(), instr.X.Type(), fr.get(instr.X))

	case *ssa.SliceToArrayPointer:
		fr.env[instr] = sliceToArrayPointer(instr.Type(), instr.X.Type(), fr.get(instr.X))

	case *ssa.MakeInterface:
		fr.env[instr] = iface{t: instr.X.Type(), v: fr.get(instr.X)}

	case *ssa.Extract:
		fr.env[instr] = fr.get(instr.Tuple).(tuple)[instr.Index]

	case *ssa.Slice:
		fr.env[instr] = slice(fr.i, fr.get(instr.X), fr.get(instr.Low), fr.get(instr.High), fr.get(instr.Max))

	case *ssa.Return:
		switch len(instr.Results) {
		case 0:
		case 1:
			fr.result = fr.get(instr.Results[0])
		default:
			var res []value
			for _, r := range instr.Results {
				res = append(res, fr.get(r))
			}
			fr.result = tuple(res)
		}
		fr.block = nil
		return kReturn

	case *ssa.RunDefers:
		fr.runDefers()

	case *ssa.Panic:
		panic(targetPanic{fr.get(instr.X)})

	case *ssa.Send:
		select {
		case fr.get(instr.Chan).(chan value) <- fr.get(instr.X):
		default:
			fr.i.path.abort("channel send would block (in %s)", fr.fn)
		}

	case *ssa.Store:
		store(mustDeref(instr.Addr.Type()), fr.get(instr.Addr).(*value), fr.get(instr.Val))

	case *ssa.If:
		succ := 1
		switch c := fr.get(instr.Cond).(type) {
		case bool:
			if c {
				succ = 0
			}
		case symBool:
			if fr.i.path.branch(c.t) {
				succ = 0
			}
		default:
			panic(fmt.Sprintf("If on %T", c))
		}
		fr.prevBlock, fr.block = fr.block, fr.block.Succs[succ]
		return kJump

	case *ssa.Jump:
		fr.prevBlock, fr.block = fr.block, fr.block.Succs[0]
		return kJump

	case *ssa.Defer:
		fn, args := prepareCall(fr, &instr.Call)
		defers := &fr.defers
		if into := fr.get(instr.DeferStack); into != nil {
			defers = into.(**deferred)
		}
		*defers = &deferred{
			fn:    fn,
			args:  args,
			instr: instr,
			tail:  *defers,
		}

	case *ssa.Go:
		// Producer/consumer goroutines (a lexer feeding a parser) are run to
		// completion at the go statement; unbuffered channels are given room
		// (see MakeChan) so the producer never waits for the consumer. Any
		// operation that would block for ever aborts the path.
		fn, args := prepareCall(fr, &instr.Call)
		call(fr.i, fr, instr.Pos(), fn, args)

	case *ssa.MakeChan:
		sz := asInt64(fr.get(instr.Size))
		if sz == 0 {
			sz = 1 << 14
		}
		fr.env[instr] = make(chan value, sz)

	case *ssa.Alloc:
		var addr *value
		if instr.Heap {
			// new
			addr = new(value)
			fr.env[instr] = addr
		} else {
			// local
			addr = fr.env[instr].(*value)
		}
		*addr = zero(mustDeref(instr.Type()))

	case *ssa.MakeSlice:
		capv := fr.i.concInt64(fr.get(instr.Cap), "make cap")
		lenv := fr.i.concInt64(fr.get(instr.Len), "make len")
		if lenv < 0 || capv < lenv || capv > 1<<26 {
			panic(runtimeError("makeslice: len out of range"))
		}
		slice := make([]value, capv)
		tElt := instr.Type().Underlying().(*types.Slice).Elem()
		for i := range slice {
			slice[i] = zero(tElt)
		}
		fr.env[instr] = slice[:lenv]

	case *ssa.MakeMap:
		var reserve int64
		if instr.Reserve != nil {
			reserve = asInt64(fr.get(instr.Reserve))
		}
		fr.env[instr] = makeMap(instr.Type().Underlying().(*types.Map).Key(), reserve)

	case *ssa.Range:
		fr.env[instr] = rangeIter(fr.i, fr.get(instr.X))

	case *ssa.Next:
		fr.env[instr] = fr.get(instr.Iter).(iter).next()

	case *ssa.FieldAddr:
		px := fr.get(instr.X).(*value)
		if px == nil {
			panic(runtimeError("invalid memory address or nil pointer dereference"))
		}
		fr.env[instr] = &(*px).(structure)[instr.Field]

	case *ssa.Field:
		fr.env[instr] = fr.get(instr.X).(structure)[instr.Field]

	case *ssa.IndexAddr:
		x := fr.get(instr.X)
		idx := fr.get(instr.Index)
		switch x := x.(type) {
		case []value:
			fr.env[instr] = &x[fr.i.boundedIndex(idx, len(x), "slice index")]
		case *value: // *array
			if x == nil {
				panic(runtimeError("invalid memory address or nil pointer dereference"))
			}
			a := (*x).(array)
			fr.env[instr] = &a[fr.i.boundedIndex(idx, len(a), "array index")]
		default:
			panic(fmt.Sprintf("unexpected x type in IndexAddr: %T", x))
		}

	case *ssa.Index:
		x := fr.get(instr.X)
		idx := fr.get(instr.Index)

		switch x := x.(type) {
		case array:
			fr.env[instr] = x[fr.i.boundedIndex(idx, len(x), "array index")]
		case string:
			fr.env[instr] = x[fr.i.boundedIndex(idx, len(x), "string index")]
		case symStr:
			fr.env[instr] = x.b[fr.i.boundedIndex(idx, len(x.b), "string index")]
		default:
			panic(fmt.Sprintf("unexpected x type in Index: %T", x))
		}

	case *ssa.Lookup:
		fr.env[instr] = lookup(fr.i, instr, fr.get(instr.X), fr.get(instr.Index))

	case *ssa.MapUpdate:
		m := fr.get(instr.Map)
		key := fr.get(instr.Key)
		v := fr.get(instr.Value)
		switch m := m.(type) {
		case *symMap:
			m.insert(fr.i, key, v)
		default:
			panic(fmt.Sprintf("illegal map type: %T", m))
		}

	case *ssa.TypeAssert:
		fr.env[instr] = typeAssert(instr, fr.get(instr.X).(iface))

	case *ssa.MakeClosure:
		var bindings []value
		for _, binding := range instr.Bindings {
			bindings = append(bindings, fr.get(binding))
		}
		fr.env[instr] = &closure{instr.Fn.(*ssa.Function), bindings}

	case *ssa.Phi:
		log.Fatal("unreachable") // phis are processed at block entry

	case *ssa.Select:
		fr.i.path.abort("select is not supported")

	default:
		panic(fmt.Sprintf("unexpected instruction: %T", instr))
	}

	// if val, ok := instr.(ssa.Value); ok {
	// 	fmt.Println(toString(fr.env[val])) // debugging
	// }

	return kNext
}

// prepareCall determines the function value and argument values for a
// function call in a Call, Go or Defer instruction, performing
// interface method lookup if needed.
func prepareCall(fr *frame, call *ssa.CallCommon) (fn value, args []value) {
	v := fr.get(call.Value)
	if call.Method == nil {
		// Function call.
		fn = v
	} else {
		// Interface method invocation.
		recv := v.(iface)
		if recv.t == nil {
			panic(runtimeError("invalid memory address or nil pointer dereference (method " + call.Method.Name() + " invoked on nil interface)"))
		}
		if f := lookupMethod(fr.i, recv.t, call.Method); f == nil {
			// Unreachable in well-typed programs.
			panic(fmt.Sprintf("method set for dynamic type %v does not contain %s", recv.t, call.Method))
		} else {
			fn = f
		}
		args = append(args, recv.v)
	}
	for _, arg := range call.Args {
		args = append(args, fr.get(arg))
	}
	return
}

// call interprets a call to a function (function, builtin or closure)
// fn with arguments args, returning its result.
// callpos is the position of the callsite.
func call(i *interpreter, caller *frame, callpos token.Pos, fn value, args []value) value {
	switch fn := fn.(type) {
	case *ssa.Function:
		if fn == nil {
			panic("call of nil function") // nil of func type
		}
		return callSSA(i, caller, callpos, fn, args, nil)
	case *closure:
		return callSSA(i, caller, callpos, fn.Fn, args, fn.Env)
	case *ssa.Builtin:
		return callBuiltin(caller, fn, args)
	case boundMethod:
		return callSSA(i, caller, callpos, fn.fn, append([]value{fn.recv}, args...), nil)
	}
	panic(fmt.Sprintf("cannot call %T", fn))
}

func loc(fset *token.FileSet, pos token.Pos) string {
	if pos == token.NoPos {
		return ""
	}
	return " at " + fset.Position(pos).String()
}

// callSSA interprets a call to function fn with arguments args,
// and lexical environment env, returning its result.
// callpos is the position of the callsite.
func callSSA(i *interpreter, caller *frame, callpos token.Pos, fn *ssa.Function, args []value, env []value) value {
	if i.mode&EnableTracing != 0 {
		fset := fn.Prog.Fset
		// TODO(adonovan): fix: loc() lies for external functions.
		fmt.Fprintf(os.Stderr, "Entering %s%s.\n", fn, loc(fset, fn.Pos()))
		suffix := ""
		if caller != nil {
			suffix = ", resuming " + caller.fn.String() + loc(fset, callpos)
		}
		defer fmt.Fprintf(os.Stderr, "Leaving %s%s.\n", fn, suffix)
	}
	fr := &frame{
		i:      i,
		caller: caller, // for panic/recover
		fn:     fn,
	}
	if caller != nil && fn.Pkg != nil && fn.Name() == "init" && fn.Parent() == nil && fn.Signature.Recv() == nil && fn.Synthetic != "" {
		// a package initialiser invoked from another package's init: packages are initialised
		// lazily on first use of their globals (engine.go), never eagerly.
		return nil
	}
	if ext := i.lookupExternal(fn); ext != nil {
		if i.Trace {
			fmt.Fprintf(os.Stderr, "%*sext %s\n", i.path.depth, "", fn)
		}
		return ext(fr, args)
	}
	if fn.Blocks == nil {
		where := ""
		for k := len(i.path.stack) - 1; k >= 0 && k >= len(i.path.stack)-8; k-- {
			where += " <- " + i.path.stack[k].String()
		}
		i.path.abort("no code for function: %s%s", fn.String(), where)
	}
	return callBody(i, caller, fr, fn, args, env)
}

// callBody interprets fn's SSA body (no intrinsic lookup).
func callBody(i *interpreter, caller *frame, fr *frame, fn *ssa.Function, args []value, env []value) value {
	if fr == nil {
		fr = &frame{i: i, caller: caller, fn: fn}
	}
	if i.Trace {
		fmt.Fprintf(os.Stderr, "%*scall %s\n", i.path.depth, "", fn)
	}
	i.path.depth++
	i.path.stack = append(i.path.stack, fn)
	if i.path.depth > i.path.maxDepth {
		panic(pathEnd{"unwind: call depth exceeded in " + fn.String()})
	}
	defer func() {
		i.path.depth--
		if r := recover(); r != nil {
			if i.path.panicStack == nil {
				if os.Getenv("GOSYM_HOSTSTACK") != "" {
					if _, isRt := r.(runtime.Error); isRt {
						fmt.Fprintf(os.Stderr, "host panic %v\n%s\n", r, debug.Stack())
					}
				}
				n := len(i.path.stack)
				for k := n - 1; k >= 0 && k >= n-10; k-- {
					i.path.panicStack = append(i.path.panicStack, i.path.stack[k].String())
				}
			}
			i.path.stack = i.path.stack[:len(i.path.stack)-1]
			panic(r)
		}
		i.path.stack = i.path.stack[:len(i.path.stack)-1]
	}()
	if fn.Pkg != nil && i.path.res != nil {
		i.path.res.Funcs[fn.String()] = true
	}

	// generic function body?
	if fn.TypeParams().Len() > 0 && len(fn.TypeArgs()) == 0 {
		panic("interp requires ssa.BuilderMode to include InstantiateGenerics to execute generics")
	}

	fr.env = make(map[ssa.Value]value)
	fr.block = fn.Blocks[0]
	fr.locals = make([]value, len(fn.Locals))
	for i, l := range fn.Locals {
		fr.locals[i] = zero(mustDeref(l.Type()))
		fr.env[l] = &fr.locals[i]
	}
	for i, p := range fn.Params {
		fr.env[p] = args[i]
	}
	for i, fv := range fn.FreeVars {
		fr.env[fv] = env[i]
	}
	for fr.block != nil {
		runFrame(fr)
	}
	// Destroy the locals to avoid accidental use after return.
	for i := range fn.Locals {
		fr.locals[i] = bad{}
	}
	return fr.result
}

// runFrame executes SSA instructions starting at fr.block and
// continuing until a return, a panic, or a recovered panic.
//
// After a panic, runFrame panics.
//
// After a normal return, fr.result contains the result of the call
// and fr.block is nil.
//
// A recovered panic in a function without named return parameters
// (NRPs) becomes a normal return of the zero value of the function's
// result type.
//
// After a recovered panic in a function with NRPs, fr.result is
// undefined and fr.block contains the block at which to resume
// control.
func runFrame(fr *frame) {
	defer func() {
		if fr.block == nil {
			return // normal return
		}
		if fr.i.mode&DisableRecover != 0 {
			return // let interpreter crash
		}
		r := recover()
		if isEngineUnwind(r) {
			fr.block = nil
			panic(r)
		}
		fr.panicking = true
		fr.panic = r
		if fr.i.mode&EnableTracing != 0 {
			fmt.Fprintf(os.Stderr, "Panicking: %T %v.\n", fr.panic, fr.panic)
		}
		fr.runDefers()
		fr.block = fr.fn.Recover
	}()

	for {
		if fr.i.mode&EnableTracing != 0 {
			fmt.Fprintf(os.Stderr, ".%s:\n", fr.block)
		}

		nonPhis := executePhis(fr)
		for _, instr := range nonPhis {
			if fr.i.mode&EnableTracing != 0 {
				if v, ok := instr.(ssa.Value); ok {
					fmt.Fprintln(os.Stderr, "\t", v.Name(), "=", instr)
				} else {
					fmt.Fprintln(os.Stderr, "\t", instr)
				}
			}
			fr.i.path.steps++
			if fr.i.path.steps > fr.i.path.maxSteps {
				panic(pathEnd{"unwind: instruction budget exceeded in " + fr.fn.String()})
			}
			if visitInstr(fr, instr) == kReturn {
				return
			}
			// Inv: kNext (continue) or kJump (last instr)
		}
	}
}

// executePhis executes the phi-nodes at the start of the current
// block and returns the non-phi instructions.
func executePhis(fr *frame) []ssa.Instruction {
	firstNonPhi := -1
	for i, instr := range fr.block.Instrs {
		if _, ok := instr.(*ssa.Phi); !ok {
			firstNonPhi = i
			break
		}
	}
	// Inv: 0 <= firstNonPhi; every block contains a non-phi.

	nonPhis := fr.block.Instrs[firstNonPhi:]
	if firstNonPhi > 0 {
		phis := fr.block.Instrs[:firstNonPhi]
		// Execute parallel assignment of phis.
		//
		// See "the swap problem" in Briggs et al's "Practical Improvements
		// to the Construction and Destruction of SSA Form" for discussion.
		predIndex := slices.Index(fr.block.Preds, fr.prevBlock)
		fr.phitemps = fr.phitemps[:0]
		for _, phi := range phis {
			phi := phi.(*ssa.Phi)
			if fr.i.mode&EnableTracing != 0 {
				fmt.Fprintln(os.Stderr, "\t", phi.Name(), "=", phi)
			}
			fr.phitemps = append(fr.phitemps, fr.get(phi.Edges[predIndex]))
		}
		for i, phi := range phis {
			fr.env[phi.(*ssa.Phi)] = fr.phitemps[i]
		}
	}
	return nonPhis
}

// doRecover implements the recover() built-in.
func doRecover(caller *frame) value {
	// recover() must be exactly one level beneath the deferred
	// function (two levels beneath the panicking function) to
	// have any effect.  Thus we ignore both "defer recover()" and
	// "defer f() -> g() -> recover()".
	if caller.i.mode&DisableRecover == 0 &&
		caller != nil && !caller.panicking &&
		caller.caller != nil && caller.caller.panicking {
		caller.caller.panicking = false
		p := caller.caller.panic
		caller.caller.panic = nil

		// TODO(adonovan): support runtime.Goexit.
		switch p := p.(type) {
		case targetPanic:
			// The target program explicitly called panic().
			return p.v
		case runtime.Error:
			// The interpreter encountered a runtime error.
			return iface{caller.i.runtimeErrorString, p.Error()}
		case runtimeError:
			return iface{caller.i.runtimeErrorString, p.Error()}
		case string:
			// The interpreter explicitly called panic().
			return iface{caller.i.runtimeErrorString, p}
		default:
			panic(fmt.Sprintf("unexpected panic type %T in target call to recover()", p))
		}
	}
	return iface{}
}

func mustDeref(t types.Type) types.Type {
	if p, ok := t.Underlying().(*types.Pointer); ok {
		return p.Elem()
	}
	panic(fmt.Sprintf("mustDeref: %v is not a pointer", t))
}

// isEngineUnwind reports panics that target code must never observe or recover.
func isEngineUnwind(r any) bool {
	switch r := r.(type) {
	case engineAbort, pathEnd:
		return true
	case runtime.Error:
		// a host type assertion naming interpreter types is an engine defect, not a target panic
		if strings.Contains(r.Error(), "interp.") {
			return true
		}
	}
	return false
}

var _ = log.Fatal
var _ = slices.Index[[]int]
