package interp

// Host oracles: reflection-driven library functions that are executed natively
// on concrete (concretised) inputs and whose results are converted back into
// interpreter values. The library itself is trusted (DESIGN.md section 5).

import (
	"go/types"
	"sort"

	"github.com/titanous/json5"
)

var tAny = types.NewInterfaceType(nil, nil).Complete()
var tMapStringAny = types.NewMap(types.Typ[types.String], tAny)
var tSliceAny = types.NewSlice(tAny)

// hostToValue converts a decoded JSON-like host value into an interpreter value of static type any.
func hostToValue(x any) value {
	switch x := x.(type) {
	case nil:
		return iface{}
	case bool:
		return iface{t: types.Typ[types.Bool], v: x}
	case float64:
		return iface{t: types.Typ[types.Float64], v: x}
	case int:
		return iface{t: types.Typ[types.Int], v: x}
	case int64:
		return iface{t: types.Typ[types.Int64], v: x}
	case string:
		return iface{t: types.Typ[types.String], v: x}
	case []any:
		out := make([]value, len(x))
		for k, e := range x {
			out[k] = hostToValue(e)
		}
		return iface{t: tSliceAny, v: out}
	case map[string]any:
		return iface{t: tMapStringAny, v: hostMapToValue(x)}
	}
	panic(engineAbort{"hostToValue: unsupported host value"})
}

func hostMapToValue(x map[string]any) *symMap {
	if x == nil {
		return (*symMap)(nil)
	}
	m := makeMap(types.Typ[types.String], 0).(*symMap)
	ks := make([]string, 0, len(x))
	for k := range x {
		ks = append(ks, k)
	}
	sort.Strings(ks)
	for _, k := range ks {
		m.insert(nil, k, hostToValue(x[k]))
	}
	return m
}

func init() {
	// func Unmarshal(data []byte, v interface{}) error
	intrinsics["github.com/titanous/json5.Unmarshal"] = func(fr *frame, args []value) value {
		i := fr.i
		data := i.concValue(mkStr(args[0].([]value)), "json5 input").(string)
		dst := args[1].(iface)
		ptr, ok := dst.v.(*value)
		if !ok || ptr == nil {
			i.path.abort("json5.Unmarshal into %v is not modelled", dst.t)
		}
		elem := dst.t.Underlying().(*types.Pointer).Elem()
		i.envst.log = append(i.envst.log, "json5.Unmarshal:"+data)
		switch elem.Underlying().(type) {
		case *types.Map:
			var out map[string]any
			if err := json5.Unmarshal([]byte(data), &out); err != nil {
				return i.newError(fr, err.Error())
			}
			*ptr = hostMapToValue(out)
			return iface{}
		case *types.Interface:
			var out any
			if err := json5.Unmarshal([]byte(data), &out); err != nil {
				return i.newError(fr, err.Error())
			}
			*ptr = hostToValue(out)
			return iface{}
		}
		i.path.abort("json5.Unmarshal into %v is not modelled", dst.t)
		return nil
	}
}

// newError builds an error value via the interpreted errors.New.
func (i *interpreter) newError(fr *frame, msg string) value {
	errNew := i.prog.ImportedPackage("errors").Func("New")
	return call(i, fr, 0, errNew, []value{msg})
}
