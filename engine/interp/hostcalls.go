package interp

// Host oracles: reflection-driven library functions that are executed natively
// on concrete (concretised) inputs and whose results are converted back into
// interpreter values. The library itself is trusted (DESIGN.md section 5).

import (
	"strconv"
	"encoding/json"
	"strings"
	"go/types"
	"sort"

	"github.com/titanous/json5"
)

var tAny = types.NewInterfaceType(nil, nil).Complete()
var tMapStringAny = types.NewMap(types.Typ[types.String], tAny)
var tSliceAny = types.NewSlice(tAny)

// hostToValue converts a decoded JSON-like host value into an interpreter value of static type any.
func hostToValue(x any) value {
	switch x := x.(type) {
	case nil:
		return iface{}
	case bool:
		return iface{t: types.Typ[types.Bool], v: x}
	case float64:
		return iface{t: types.Typ[types.Float64], v: x}
	case int:
		return iface{t: types.Typ[types.Int], v: x}
	case int64:
		return iface{t: types.Typ[types.Int64], v: x}
	case string:
		return iface{t: types.Typ[types.String], v: x}
	case jsonSymStr:
		return iface{t: types.Typ[types.String], v: mkStr(x.b)}
	case []any:
		out := make([]value, len(x))
		for k, e := range x {
			out[k] = hostToValue(e)
		}
		return iface{t: tSliceAny, v: out}
	case map[string]any:
		return iface{t: tMapStringAny, v: hostMapToValue(x)}
	}
	panic(engineAbort{"hostToValue: unsupported host value"})
}

func hostMapToValue(x map[string]any) *symMap {
	if x == nil {
		return (*symMap)(nil)
	}
	m := makeMap(types.Typ[types.String], 0).(*symMap)
	ks := make([]string, 0, len(x))
	for k := range x {
		ks = append(ks, k)
	}
	sort.Strings(ks)
	for _, k := range ks {
		m.insert(nil, k, hostToValue(x[k]))
	}
	return m
}

func init() {
	// func Unmarshal(data []byte, v interface{}) error
	// func (dec *Decoder) Decode(v any) error: the stream decoder reads one top-level value from its reader and leaves
	// the rest; the reader is drained through its own Read method, the value is decoded by the real library
	intrinsics["(*github.com/titanous/json5.Decoder).Decode"] = func(fr *frame, args []value) value {
		i := fr.i
		dp, ok := args[0].(*value)
		if !ok || dp == nil {
			panic(runtimeError("invalid memory address or nil pointer dereference"))
		}
		dec := (*dp).(structure)
		var data []value
		found := false
		for _, f := range dec {
			r, isIface := f.(iface)
			if !isIface || r.t == nil {
				continue
			}
			found = true
			for {
				buf := make([]value, 512)
				for k := range buf {
					buf[k] = uint8(0)
				}
				res, ok := i.callMethodWithArgs(fr, r.t, r.v, "Read", []value{buf})
				if !ok {
					i.path.abort("json5.Decoder: reader of type %s has no Read method", r.t)
				}
				tup := res.(tuple)
				n := int(asInt64(i.concValue(tup[0], "bytes read")))
				data = append(data, buf[:n]...)
				if e := tup[1].(iface); e.t != nil || n == 0 {
					break
				}
			}
			break
		}
		if !found {
			i.path.abort("json5.Decoder: no reader field found")
		}
		text := i.concValue(mkStr(data), "json5 input").(string)
		dst := args[1].(iface)
		ptr, ok := dst.v.(*value)
		if !ok || ptr == nil {
			i.path.abort("json5.Decoder.Decode into %v is not modelled", dst.t)
		}
		i.envst.log = append(i.envst.log, "json5.Decode:"+text)
		hostDec := json5.NewDecoder(strings.NewReader(text))
		switch dst.t.Underlying().(*types.Pointer).Elem().Underlying().(type) {
		case *types.Map:
			var out map[string]any
			if err := hostDec.Decode(&out); err != nil {
				return i.newError(fr, err.Error())
			}
			*ptr = hostMapToValue(out)
			return iface{}
		case *types.Interface:
			var out any
			if err := hostDec.Decode(&out); err != nil {
				return i.newError(fr, err.Error())
			}
			*ptr = hostToValue(out)
			return iface{}
		}
		i.path.abort("json5.Decoder.Decode into %v is not modelled", dst.t)
		return nil
	}
	intrinsics["github.com/titanous/json5.Unmarshal"] = func(fr *frame, args []value) value {
		i := fr.i
		data := i.concValue(mkStr(args[0].([]value)), "json5 input").(string)
		dst := args[1].(iface)
		ptr, ok := dst.v.(*value)
		if !ok || ptr == nil {
			i.path.abort("json5.Unmarshal into %v is not modelled", dst.t)
		}
		elem := dst.t.Underlying().(*types.Pointer).Elem()
		i.envst.log = append(i.envst.log, "json5.Unmarshal:"+data)
		switch elem.Underlying().(type) {
		case *types.Map:
			var out map[string]any
			if err := json5.Unmarshal([]byte(data), &out); err != nil {
				return i.newError(fr, err.Error())
			}
			*ptr = hostMapToValue(out)
			return iface{}
		case *types.Interface:
			var out any
			if err := json5.Unmarshal([]byte(data), &out); err != nil {
				return i.newError(fr, err.Error())
			}
			*ptr = hostToValue(out)
			return iface{}
		}
		// any other target (a configuration struct): the real library decodes into a generic tree, which is then shaped
		// by the target's Go type and `json` tags like the encoding/json model does
		var out any
		if err := json5.Unmarshal([]byte(data), &out); err != nil {
			return i.newError(fr, err.Error())
		}
		v, err := jsonToTyped(elem, json5Numbers(out), load(elem, ptr))
		if err != nil {
			return i.newError(fr, err.Error())
		}
		store(elem, ptr, v)
		return iface{}
	}
}

// newError builds an error value via the interpreted errors.New.
func (i *interpreter) newError(fr *frame, msg string) value {
	errNew := i.prog.ImportedPackage("errors").Func("New")
	return call(i, fr, 0, errNew, []value{msg})
}

func init() {
	// annotations.GetCastProperty[T] is reflection-driven glue (reflect.MakeSlice/Convert/Set); it is
	// modelled here with the same contract: absent property -> (nil, nil); slice target -> the value
	// must be a slice whose elements' dynamic types are convertible to T's element type; otherwise a
	// plain type assertion to T. Errors carry a message only.
	intrinsics["github.com/gopher-fleece/gleece/v2/core/annotations.GetCastProperty"] = func(fr *frame, args []value) value {
		i := fr.i
		fn := fr.fn
		targs := fn.TypeArgs()
		if len(targs) != 1 {
			i.path.abort("GetCastProperty: unexpected instantiation %s", fn)
		}
		T := targs[0]
		nilPtr := (*value)(nil)
		attrib := args[0].(*value)
		if attrib == nil {
			panic(runtimeError("invalid memory address or nil pointer dereference"))
		}
		// attr.GetProperty(name)
		attrT := mustDeref(fn.Params[0].Type())
		res, ok := i.callMethodWithArgs(fr, attrT, load(attrT, attrib), "GetProperty", []value{args[1]})
		if !ok {
			i.path.abort("GetCastProperty: Attribute.GetProperty not found")
		}
		pv := res.(*value)
		if pv == nil {
			return tuple{nilPtr, iface{}}
		}
		val, _ := (*pv).(iface)
		if st, isSlice := T.Underlying().(*types.Slice); isSlice {
			if val.t == nil {
				return tuple{nilPtr, i.newError(fr, "failed to cast attribute property to "+T.String()+" - value cannot be converted")}
			}
			if _, srcIsSlice := val.t.Underlying().(*types.Slice); !srcIsSlice {
				return tuple{nilPtr, i.newError(fr, "failed to cast attribute property to "+T.String()+" - value cannot be converted")}
			}
			src := val.v.([]value)
			out := make([]value, len(src))
			for k, e := range src {
				et := val.t.Underlying().(*types.Slice).Elem()
				ev := e
				if _, isIface := et.Underlying().(*types.Interface); isIface {
					it := e.(iface)
					if it.t == nil {
						return tuple{nilPtr, i.newError(fr, "failed to cast attribute property to "+T.String()+" - element cannot be converted")}
					}
					et, ev = it.t, it.v
				}
				if !types.ConvertibleTo(et, st.Elem()) {
					return tuple{nilPtr, i.newError(fr, "failed to cast attribute property to "+T.String()+" - element cannot be converted")}
				}
				if types.Identical(et.Underlying(), st.Elem().Underlying()) {
					out[k] = ev
				} else {
					out[k] = i.convert(st.Elem(), et, ev)
				}
			}
			var cell value = out
			return tuple{&cell, iface{}}
		}
		if val.t != nil && types.Identical(val.t, T) {
			cell := val.v
			return tuple{&cell, iface{}}
		}
		if _, isIface := T.Underlying().(*types.Interface); isIface && val.t != nil {
			var cell value = val
			return tuple{&cell, iface{}}
		}
		return tuple{nilPtr, i.newError(fr, "property exists but cannot be cast to "+T.String())}
	}
}

func init() {
	// context.WithValue checks key comparability through internal/reflectlite; build the valueCtx directly.
	intrinsics["context.WithValue"] = func(fr *frame, args []value) value {
		i := fr.i
		parent := args[0].(iface)
		if parent.t == nil {
			panic(targetPanic{iface{t: types.Typ[types.String], v: "cannot create context from nil parent"}})
		}
		key := args[1].(iface)
		if key.t == nil {
			panic(targetPanic{iface{t: types.Typ[types.String], v: "nil key"}})
		}
		ctxPkg := i.prog.ImportedPackage("context")
		vt := ctxPkg.Type("valueCtx").Type()
		var cell value = structure{parent, key, args[2]}
		return iface{t: types.NewPointer(vt), v: &cell}
	}
}

// json5Numbers rewrites the float64 numbers of a decoded tree as json.Number (what jsonToTyped expects).
func json5Numbers(x any) any {
	switch v := x.(type) {
	case float64:
		return json.Number(strconv.FormatFloat(v, 'f', -1, 64))
	case []any:
		for k, e := range v {
			v[k] = json5Numbers(e)
		}
		return v
	case map[string]any:
		for k, e := range v {
			v[k] = json5Numbers(e)
		}
		return v
	}
	return x
}
