package interp

// Maps: insertion-ordered entry list with an index for concrete keys.
// Keys may contain symbolic leaves; then lookups compare against each live
// entry and fork on the (symbolic) equality. Iteration order is insertion
// order or, when the path enables it, a symbolic permutation.

import (
	"bytes"
	"go/types"
)

type mapEntry struct {
	key, val value
	live     bool
	ckey     string // canonical key if concrete
	conc     bool
}

type symMap struct {
	keyType types.Type
	entries []*mapEntry
	idx     map[string]*mapEntry // concrete keys
	nsym    int                  // live entries with symbolic keys
	nlive   int
	order   int8 // per-map iteration order under permuteMode 2: 0 undecided, 1 insertion order, 2 reverse
}

func makeMap(kt types.Type, reserve int64) value {
	return &symMap{keyType: kt, idx: map[string]*mapEntry{}}
}

func (m *symMap) find(i *interpreter, k value) *mapEntry {
	if m == nil {
		return nil
	}
	var buf bytes.Buffer
	conc := canonKey(&buf, k)
	if conc {
		if e := m.idx[buf.String()]; e != nil {
			return e
		}
		if m.nsym == 0 {
			return nil
		}
		// compare with symbolic-keyed entries only
		for _, e := range m.entries {
			if e.live && !e.conc {
				if i.path.branch(eqTerm(m.keyType, e.key, k)) {
					return e
				}
			}
		}
		return nil
	}
	for _, e := range m.entries {
		if e.live {
			if i.path.branch(eqTerm(m.keyType, e.key, k)) {
				return e
			}
		}
	}
	return nil
}

func (m *symMap) lookup(i *interpreter, k value) (value, bool) {
	if e := m.find(i, k); e != nil {
		return e.val, true
	}
	return nil, false
}

func (m *symMap) insert(i *interpreter, k, v value) {
	if m == nil {
		panic(runtimeError("assignment to entry in nil map"))
	}
	if e := m.find(i, k); e != nil {
		e.val = v
		return
	}
	var buf bytes.Buffer
	conc := canonKey(&buf, k)
	e := &mapEntry{key: k, val: v, live: true, conc: conc}
	if conc {
		e.ckey = buf.String()
		m.idx[e.ckey] = e
	} else {
		m.nsym++
	}
	m.nlive++
	m.entries = append(m.entries, e)
}

func (m *symMap) delete(i *interpreter, k value) {
	if m == nil {
		return
	}
	if e := m.find(i, k); e != nil {
		e.live = false
		m.nlive--
		if e.conc {
			delete(m.idx, e.ckey)
		} else {
			m.nsym--
		}
		// compact occasionally
		if len(m.entries) > 32 && m.nlive*2 < len(m.entries) {
			out := m.entries[:0:0]
			for _, e := range m.entries {
				if e.live {
					out = append(out, e)
				}
			}
			m.entries = out
		}
	}
}

func (m *symMap) len(i *interpreter) int {
	if m == nil {
		return 0
	}
	return m.nlive
}

type symMapIter struct {
	i       *interpreter
	m       *symMap
	visited map[*mapEntry]bool
	pos     int
}

func (m *symMap) iterator(i *interpreter) iter {
	return &symMapIter{i: i, m: m, visited: map[*mapEntry]bool{}}
}

func (it *symMapIter) next() tuple {
	if it.m == nil {
		return tuple{false, nil, nil}
	}
	if it.i.path.permute && it.i.path.permuteTwo {
		// bounded order space: each map is iterated in insertion order or in reverse insertion order, decided once
		// per map (a fork) and kept for every later iteration of that map
		if it.m.order == 0 {
			live := 0
			for _, e := range it.m.entries {
				if e.live {
					live++
				}
			}
			if live > 1 {
				it.m.order = int8(1 + it.i.path.choice(2))
			}
		}
		if it.m.order == 2 {
			for k := len(it.m.entries) - 1; k >= 0; k-- {
				if e := it.m.entries[k]; e.live && !it.visited[e] {
					it.visited[e] = true
					return tuple{true, e.key, e.val}
				}
			}
			return tuple{false, nil, nil}
		}
	} else if it.i.path.permute {
		var rem []*mapEntry
		for _, e := range it.m.entries {
			if e.live && !it.visited[e] {
				rem = append(rem, e)
			}
		}
		if len(rem) == 0 {
			return tuple{false, nil, nil}
		}
		if len(rem) > 1 && len(it.i.path.stack) > 0 {
			it.i.path.res.Intrinsics["maprange-fork:"+it.i.path.stack[len(it.i.path.stack)-1].String()]++
		}
		e := rem[it.i.path.choice(len(rem))]
		it.visited[e] = true
		return tuple{true, e.key, e.val}
	}
	for _, e := range it.m.entries {
		if e.live && !it.visited[e] {
			it.visited[e] = true
			return tuple{true, e.key, e.val}
		}
	}
	return tuple{false, nil, nil}
}
