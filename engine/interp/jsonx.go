package interp

// encoding/json is reflection-driven and cannot be interpreted. Decoding runs the real library on the
// (concretised) bytes into an untyped tree which is then shaped by the static Go type; encoding renders
// interpreter values by their static type. Struct tags (name, omitempty, "-") are honoured.

import (
	"bytes"
	"encoding/json"
	"fmt"
	"go/types"
	"golang.org/x/tools/go/ssa"
	"gosym/sym"
	"math"
	"reflect"
	"sort"
	"strconv"
	"strings"
)

type jsonField struct {
	idx       int
	name      string
	omitEmpty bool
	typ       types.Type
}

func jsonFields(st *types.Struct) []jsonField {
	var out []jsonField
	for k := 0; k < st.NumFields(); k++ {
		f := st.Field(k)
		if !f.Exported() && !f.Embedded() {
			continue
		}
		tag := reflect.StructTag(st.Tag(k)).Get("json")
		if tag == "-" {
			continue
		}
		name := f.Name()
		omit := false
		if tag != "" {
			parts := strings.Split(tag, ",")
			if parts[0] != "" {
				name = parts[0]
			}
			for _, o := range parts[1:] {
				if o == "omitempty" {
					omit = true
				}
			}
		}
		out = append(out, jsonField{k, name, omit, f.Type()})
	}
	return out
}

func jsonKindName(raw any) string {
	switch raw.(type) {
	case nil:
		return "null"
	case bool:
		return "bool"
	case json.Number:
		return "number"
	case string:
		return "string"
	case []any:
		return "array"
	case map[string]any:
		return "object"
	}
	return "value"
}

// jsonToTyped shapes a decoded JSON tree into an interpreter value of type T (base = current value).
func jsonToTyped(T types.Type, raw any, base value) (value, error) {
	mismatch := func() (value, error) {
		return base, fmt.Errorf("json: cannot unmarshal %s into Go value of type %s", jsonKindName(raw), types.TypeString(T, nil))
	}
	if raw == nil {
		switch T.Underlying().(type) {
		case *types.Pointer, *types.Slice, *types.Map, *types.Interface:
			return zero(T), nil
		}
		return base, nil // null leaves other kinds untouched
	}
	switch ut := T.Underlying().(type) {
	case *types.Pointer:
		cell := zero(ut.Elem())
		v, err := jsonToTyped(ut.Elem(), raw, cell)
		if err != nil {
			return base, err
		}
		return &v, nil
	case *types.Interface:
		return hostToValue(jsonPlain(raw)), nil
	case *types.Struct:
		m, ok := raw.(map[string]any)
		if !ok {
			return mismatch()
		}
		st := append(structure(nil), base.(structure)...)
		fields := jsonFields(ut)
		keys := make([]string, 0, len(m))
		for k := range m {
			keys = append(keys, k)
		}
		sort.Strings(keys)
		for _, k := range keys {
			var target *jsonField
			for fi := range fields {
				if fields[fi].name == k {
					target = &fields[fi]
					break
				}
			}
			if target == nil {
				for fi := range fields {
					if strings.EqualFold(fields[fi].name, k) {
						target = &fields[fi]
						break
					}
				}
			}
			if target == nil {
				continue
			}
			v, err := jsonToTyped(target.typ, m[k], st[target.idx])
			if err != nil {
				return base, err
			}
			st[target.idx] = v
		}
		return st, nil
	case *types.Slice:
		arr, ok := raw.([]any)
		if !ok {
			if s, isStr := raw.(string); isStr {
				if b, isB := ut.Elem().Underlying().(*types.Basic); isB && b.Kind() == types.Uint8 {
					_ = s
					return mismatch() // base64 []byte decoding is not modelled
				}
			}
			return mismatch()
		}
		out := make([]value, len(arr))
		for k, e := range arr {
			v, err := jsonToTyped(ut.Elem(), e, zero(ut.Elem()))
			if err != nil {
				return base, err
			}
			out[k] = v
		}
		return out, nil
	case *types.Map:
		m, ok := raw.(map[string]any)
		if !ok {
			return mismatch()
		}
		sm := makeMap(ut.Key(), 0).(*symMap)
		keys := make([]string, 0, len(m))
		for k := range m {
			keys = append(keys, k)
		}
		sort.Strings(keys)
		for _, k := range keys {
			v, err := jsonToTyped(ut.Elem(), m[k], zero(ut.Elem()))
			if err != nil {
				return base, err
			}
			sm.insert(nil, k, v)
		}
		return sm, nil
	case *types.Basic:
		switch {
		case ut.Info()&types.IsString != 0:
			if ss, isSym := raw.(jsonSymStr); isSym {
				return mkStr(ss.b), nil
			}
			s, ok := raw.(string)
			if !ok {
				return mismatch()
			}
			return s, nil
		case ut.Info()&types.IsBoolean != 0:
			b, ok := raw.(bool)
			if !ok {
				return mismatch()
			}
			return b, nil
		case ut.Info()&types.IsInteger != 0:
			n, ok := raw.(json.Number)
			if !ok {
				return mismatch()
			}
			if ut.Info()&types.IsUnsigned != 0 {
				u, err := strconv.ParseUint(n.String(), 10, kindWidth(ut.Kind()))
				if err != nil {
					return mismatch()
				}
				return concInt(ut.Kind(), u), nil
			}
			iv, err := strconv.ParseInt(n.String(), 10, kindWidth(ut.Kind()))
			if err != nil {
				return mismatch()
			}
			return concInt(ut.Kind(), uint64(iv)), nil
		case ut.Info()&types.IsFloat != 0:
			n, ok := raw.(json.Number)
			if !ok {
				return mismatch()
			}
			f, err := n.Float64()
			if err != nil {
				return mismatch()
			}
			if ut.Kind() == types.Float32 {
				return float32(f), nil
			}
			return f, nil
		}
	}
	return base, fmt.Errorf("json: unsupported target type %s", types.TypeString(T, nil))
}

// Symbolic bytes inside JSON string literals: a byte that cannot be a quote, a backslash, a control character or
// a non-ASCII byte is an ordinary string character wherever it stands, so the document is decoded with a
// private-use placeholder rune in its place and the placeholder is mapped back afterwards. Any other symbolic
// byte is concretised (forking) as before.
const jsonPlaceholderBase = 0xE000

type jsonSymStr struct{ b []value }

func (i *interpreter) jsonInput(in []value) (string, []value) {
	var sb strings.Builder
	var syms []value
	inStr, esc := false, false
	track := func(c byte) {
		switch {
		case esc:
			esc = false
		case inStr && c == '\\':
			esc = true
		case c == '"':
			inStr = !inStr
		}
	}
	for _, b := range in {
		if c, ok := b.(uint8); ok {
			sb.WriteByte(c)
			track(c)
			continue
		}
		if !inStr || esc {
			c := i.concValue(b, "json input byte outside a string literal").(uint8)
			sb.WriteByte(c)
			track(c)
			continue
		}
		t := byteTerm(b)
		special := sym.Or(sym.Cmp(sym.OpULt, t, sym.BV(8, 0x20)), sym.Eq(t, sym.BV(8, '"')), sym.Eq(t, sym.BV(8, '\\')), sym.Cmp(sym.OpULe, sym.BV(8, 0x80), t))
		if len(syms) >= 0x1800 || i.path.branch(special) {
			c := i.concValue(b, "json input byte").(uint8)
			sb.WriteByte(c)
			track(c)
			continue
		}
		sb.WriteRune(rune(jsonPlaceholderBase + len(syms)))
		syms = append(syms, b)
	}
	return sb.String(), syms
}

func jsonRestoreString(s string, syms []value) any {
	has := false
	for _, r := range s {
		if r >= jsonPlaceholderBase && int(r-jsonPlaceholderBase) < len(syms) {
			has = true
			break
		}
	}
	if !has {
		return s
	}
	var out []value
	for _, r := range s {
		if r >= jsonPlaceholderBase && int(r-jsonPlaceholderBase) < len(syms) {
			out = append(out, syms[r-jsonPlaceholderBase])
			continue
		}
		for _, c := range []byte(string(r)) {
			out = append(out, c)
		}
	}
	return jsonSymStr{out}
}

// jsonRestore maps placeholder runes in decoded strings back to the symbolic bytes they stand for. A placeholder
// in an object key is not supported (keys of the documents under test are concrete).
func jsonRestore(raw any, syms []value) any {
	if len(syms) == 0 {
		return raw
	}
	switch x := raw.(type) {
	case string:
		return jsonRestoreString(x, syms)
	case []any:
		for k, e := range x {
			x[k] = jsonRestore(e, syms)
		}
		return x
	case map[string]any:
		for k, e := range x {
			if _, isSym := jsonRestoreString(k, syms).(jsonSymStr); isSym {
				panic(engineAbort{"json: symbolic byte in an object key"})
			}
			x[k] = jsonRestore(e, syms)
		}
		return x
	}
	return raw
}

func jsonPlain(raw any) any {
	switch x := raw.(type) {
	case json.Number:
		f, _ := x.Float64()
		return f
	case []any:
		out := make([]any, len(x))
		for k, e := range x {
			out[k] = jsonPlain(e)
		}
		return out
	case map[string]any:
		out := map[string]any{}
		for k, e := range x {
			out[k] = jsonPlain(e)
		}
		return out
	}
	return raw
}

// jsonEncode appends the JSON rendering of v (static type T) to out (bytes may be symbolic).
func (i *interpreter) jsonEncode(out []value, T types.Type, v value) []value {
	ws := func(s string) {
		for k := 0; k < len(s); k++ {
			out = append(out, s[k])
		}
	}
	if T == nil {
		ws("null")
		return out
	}
	// a type with its own MarshalJSON (in its method set) renders itself, as encoding/json has it
	if _, isIface := T.Underlying().(*types.Interface); !isIface && i.jsonFr != nil {
		if p, isPtr := v.(*value); !isPtr || p != nil {
			if fn := i.marshalJSONMethod(T); fn != nil {
				saved := i.jsonFr
				res := call(i, saved, 0, fn, []value{v}).(tuple)
				i.jsonFr = saved
				if e := res[1].(iface); e.t != nil {
					i.path.abort("json: MarshalJSON of %s returned an error", types.TypeString(T, nil))
				}
				return append(out, res[0].([]value)...)
			}
		}
	}
	switch ut := T.Underlying().(type) {
	case *types.Interface:
		it := v.(iface)
		if it.t == nil {
			ws("null")
			return out
		}
		return i.jsonEncode(out, it.t, it.v)
	case *types.Pointer:
		p := v.(*value)
		if p == nil {
			ws("null")
			return out
		}
		return i.jsonEncode(out, ut.Elem(), *p)
	case *types.Struct:
		st := v.(structure)
		ws("{")
		first := true
		for _, f := range jsonFields(ut) {
			if f.omitEmpty && jsonIsEmpty(st[f.idx]) {
				continue
			}
			if !first {
				ws(",")
			}
			first = false
			ws(strconv.Quote(f.name) + ":")
			out = i.jsonEncode(out, f.typ, st[f.idx])
		}
		ws("}")
		return out
	case *types.Slice:
		xs := v.([]value)
		if xs == nil {
			ws("null")
			return out
		}
		ws("[")
		for k, e := range xs {
			if k > 0 {
				ws(",")
			}
			out = i.jsonEncode(out, ut.Elem(), e)
		}
		ws("]")
		return out
	case *types.Map:
		m := v.(*symMap)
		if m == nil {
			ws("null")
			return out
		}
		type kv struct {
			k string
			v value
		}
		var kvs []kv
		for _, e := range m.entries {
			if e.live {
				kvs = append(kvs, kv{i.concValue(e.key, "json map key").(string), e.val})
			}
		}
		sort.Slice(kvs, func(a, b int) bool { return kvs[a].k < kvs[b].k })
		ws("{")
		for k, e := range kvs {
			if k > 0 {
				ws(",")
			}
			ws(strconv.Quote(e.k) + ":")
			out = i.jsonEncode(out, ut.Elem(), e.v)
		}
		ws("}")
		return out
	case *types.Basic:
		switch {
		case ut.Info()&types.IsString != 0:
			out = append(out, uint8('"'))
			bs := strBytes(v)
			allPlain := true
			for _, b := range bs {
				c, ok := b.(uint8)
				if !ok {
					t := byteTerm(b)
					special := sym.Or(sym.Cmp(sym.OpULt, t, sym.BV(8, 0x20)), sym.Eq(t, sym.BV(8, '"')), sym.Eq(t, sym.BV(8, '\\')), sym.Cmp(sym.OpULe, sym.BV(8, 0x7f), t),
						sym.Eq(t, sym.BV(8, '<')), sym.Eq(t, sym.BV(8, '>')), sym.Eq(t, sym.BV(8, '&')))
					if !i.path.branch(special) {
						continue // an ordinary character: rendered as is
					}
				} else if c >= 0x20 && c < 0x7f && c != '"' && c != '\\' && c != '<' && c != '>' && c != '&' {
					continue
				}
				allPlain = false
				break
			}
			if allPlain {
				out = append(out, bs...)
			} else {
				// escapes, HTML-unsafe or non-ASCII bytes: the host encoder renders the (concretised) string
				hb, _ := json.Marshal(i.concValue(v, "json string with escapes").(string))
				ws(string(hb[1 : len(hb)-1]))
			}
			out = append(out, uint8('"'))
			return out
		case ut.Info()&types.IsBoolean != 0:
			ws(strconv.FormatBool(i.concValue(v, "json bool").(bool)))
			return out
		case ut.Info()&types.IsInteger != 0:
			ws(fmt.Sprintf("%d", i.concValue(v, "json integer")))
			return out
		case ut.Info()&types.IsFloat != 0:
			f := reflect.ValueOf(v).Convert(reflect.TypeOf(float64(0))).Float()
			if math.IsInf(f, 0) || math.IsNaN(f) {
				ws("null")
				return out
			}
			b, _ := json.Marshal(f)
			ws(string(b))
			return out
		}
	}
	ws("null")
	return out
}

// marshalJSONMethod returns T's MarshalJSON() ([]byte, error) if it is in T's method set.
func (i *interpreter) marshalJSONMethod(T types.Type) *ssa.Function {
	if _, ok := T.(*types.Named); !ok {
		if pt, ok := T.(*types.Pointer); !ok {
			return nil
		} else if _, ok := pt.Elem().(*types.Named); !ok {
			return nil
		}
	}
	mset := i.prog.MethodSets.MethodSet(T)
	for k := 0; k < mset.Len(); k++ {
		sel := mset.At(k)
		if sel.Obj().Name() != "MarshalJSON" {
			continue
		}
		sig := sel.Type().(*types.Signature)
		if sig.Params().Len() != 0 || sig.Results().Len() != 2 {
			return nil
		}
		return i.prog.MethodValue(sel)
	}
	return nil
}

func jsonIsEmpty(v value) bool {
	switch x := v.(type) {
	case string:
		return x == ""
	case symStr:
		return len(x.b) == 0
	case bool:
		return !x
	case []value:
		return len(x) == 0
	case *value:
		return x == nil
	case *symMap:
		return x == nil || x.nlive == 0
	case iface:
		return x.t == nil
	}
	if _, bits, ok := intKind(v); ok {
		return bits == 0
	}
	return false
}

func init() {
	// func Unmarshal(data []byte, v any) error
	intrinsics["encoding/json.Unmarshal"] = func(fr *frame, args []value) value {
		i := fr.i
		data, syms := i.jsonInput(args[0].([]value))
		dst := args[1].(iface)
		ptr, ok := dst.v.(*value)
		if !ok || ptr == nil || dst.t == nil {
			return i.newError(fr, "json: Unmarshal(non-pointer)")
		}
		pt, ok := dst.t.Underlying().(*types.Pointer)
		if !ok {
			return i.newError(fr, "json: Unmarshal(non-pointer)")
		}
		dec := json.NewDecoder(bytes.NewReader([]byte(data)))
		dec.UseNumber()
		var raw any
		if err := dec.Decode(&raw); err != nil {
			return i.newError(fr, err.Error())
		}
		if dec.More() {
			return i.newError(fr, "invalid character after top-level value")
		}
		raw = jsonRestore(raw, syms)
		v, err := jsonToTyped(pt.Elem(), raw, load(pt.Elem(), ptr))
		if err != nil {
			return i.newError(fr, err.Error())
		}
		store(pt.Elem(), ptr, v)
		return iface{}
	}
	// func Marshal(v any) ([]byte, error)
	intrinsics["encoding/json.Marshal"] = func(fr *frame, args []value) value {
		it := args[0].(iface)
		fr.i.jsonFr = fr
		out := fr.i.jsonEncode(nil, it.t, it.v)
		return tuple{out, iface{}}
	}
	// func (enc *Encoder) Encode(v any) error : writes the rendering plus a newline to enc.w
	intrinsics["(*encoding/json.Encoder).Encode"] = func(fr *frame, args []value) value {
		i := fr.i
		enc := (*args[0].(*value)).(structure)
		w := enc[0].(iface)
		it := args[1].(iface)
		i.jsonFr = fr
		out := i.jsonEncode(nil, it.t, it.v)
		out = append(out, uint8('\n'))
		if w.t == nil {
			panic(runtimeError("invalid memory address or nil pointer dereference"))
		}
		if _, ok := i.callMethodWithArgs(fr, w.t, w.v, "Write", []value{out}); !ok {
			i.path.abort("json.Encoder: writer of type %s has no Write method", w.t)
		}
		return iface{}
	}
}
