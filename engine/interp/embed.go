package interp

// //go:embed support: a package-level string or []byte variable carrying a
// go:embed directive starts out holding the named file's bytes, read from
// the directory of the declaring source file (as the compiler does).

import (
	"go/ast"
	"go/parser"
	"go/token"
	"go/types"
	"os"
	"path/filepath"
	"strings"
	"sync"

	"golang.org/x/tools/go/ssa"
)

var embedCache sync.Map // file name -> map[var name]string

func embedsOfFile(filename string) map[string]string {
	if m, ok := embedCache.Load(filename); ok {
		return m.(map[string]string)
	}
	out := map[string]string{}
	src, err := os.ReadFile(filename)
	if err == nil && strings.Contains(string(src), "//go:embed") {
		fset := token.NewFileSet()
		if f, err := parser.ParseFile(fset, filename, src, parser.ParseComments); err == nil {
			for _, d := range f.Decls {
				gd, ok := d.(*ast.GenDecl)
				if !ok || gd.Tok != token.VAR {
					continue
				}
				for _, sp := range gd.Specs {
					vs := sp.(*ast.ValueSpec)
					doc := vs.Doc
					if doc == nil && len(gd.Specs) == 1 {
						doc = gd.Doc
					}
					if doc == nil || len(vs.Names) != 1 {
						continue
					}
					for _, c := range doc.List {
						if rest, ok := strings.CutPrefix(c.Text, "//go:embed "); ok {
							pat := strings.TrimSpace(rest)
							if data, err := os.ReadFile(filepath.Join(filepath.Dir(filename), filepath.FromSlash(pat))); err == nil {
								out[vs.Names[0].Name] = string(data)
							}
						}
					}
				}
			}
		}
	}
	embedCache.Store(filename, out)
	return out
}

// embeddedContent reports the go:embed content of g, if it has any.
func (i *interpreter) embeddedContent(g *ssa.Global) (value, bool) {
	if !g.Pos().IsValid() {
		return nil, false
	}
	t := mustDeref(g.Type()).Underlying()
	isStr := false
	switch t := t.(type) {
	case *types.Basic:
		isStr = t.Kind() == types.String
		if !isStr {
			return nil, false
		}
	case *types.Slice:
		if b, ok := t.Elem().Underlying().(*types.Basic); !ok || b.Kind() != types.Uint8 {
			return nil, false
		}
	default:
		return nil, false
	}
	s, ok := embedsOfFile(i.prog.Fset.Position(g.Pos()).Filename)[g.Name()]
	if !ok {
		return nil, false
	}
	if isStr {
		return s, true
	}
	bs := make([]value, len(s))
	for k := 0; k < len(s); k++ {
		bs[k] = s[k]
	}
	return bs, true
}
