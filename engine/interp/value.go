// Copyright 2013 The Go Authors. All rights reserved.
// Use of this source code is governed by a BSD-style
// license that can be found in the LICENSE file.

package interp

// Values
//
// All interpreter values are "boxed" in the empty interface, value.
// The range of possible dynamic types within value are:
//
// - bool
// - numbers (all built-in int/float/complex types are distinguished)
// - string
// - map[value]value --- maps for which  usesBuiltinMap(keyType)
//   *hashmap        --- maps for which !usesBuiltinMap(keyType)
// - chan value
// - []value --- slices
// - iface --- interfaces.
// - structure --- structs.  Fields are ordered and accessed by numeric indices.
// - array --- arrays.
// - *value --- pointers.  Careful: *value is a distinct type from *array etc.
// - *ssa.Function \
//   *ssa.Builtin   } --- functions.  A nil 'func' is always of type *ssa.Function.
//   *closure      /
// - tuple --- as returned by Return, Next, "value,ok" modes, etc.
// - iter --- iterators from 'range' over map or string.
// - bad --- a poison pill for locals that have gone out of scope.
// - rtype -- the interpreter's concrete implementation of reflect.Type
// - **deferred -- the address of a frame's defer stack for a Defer._Stack.
//
// Note that nil is not on this list.
//
// Pay close attention to whether or not the dynamic type is a pointer.
// The compiler cannot help you since value is an empty interface.

import (
	"bytes"
	"fmt"
	"go/types"
	"io"
	"strings"
	"unsafe"

	"gosym/sym"

	"golang.org/x/tools/go/ssa"
	"golang.org/x/tools/go/types/typeutil"
)

type value any

type tuple []value

type array []value

type iface struct {
	t types.Type // never an "untyped" type
	v value
}

type structure []value

// For map, array, *array, slice, string or channel.
type iter interface {
	// next returns a Tuple (key, value, ok).
	// key and value are unaliased, e.g. copies of the sequence element.
	next() tuple
}

type closure struct {
	Fn  *ssa.Function
	Env []value
}

type bad struct{}

type rtype struct {
	t types.Type
}

// Hash functions and equivalence relation:

// hashString computes the FNV hash of s.
func hashString(s string) int {
	var h uint32
	for i := 0; i < len(s); i++ {
		h ^= uint32(s[i])
		h *= 16777619
	}
	return int(h)
}

var hasher = typeutil.MakeHasher()

// hashType returns a hash for t such that
// types.Identical(x, y) => hashType(x) == hashType(y).
func hashType(t types.Type) int {
	return int(hasher.Hash(t))
}

// nil-tolerant variant of types.Identical.
func sameType(x, y types.Type) bool {
	if x == nil {
		return y == nil
	}
	return y != nil && types.Identical(x, y)
}

// equals returns true iff x and y are equal (concrete operands only).
func equals(t types.Type, x, y value) bool {
	r := eqTerm(t, x, y)
	if !r.IsConst() {
		panic(engineAbort{"equals on symbolic operands outside a symbolic context"})
	}
	return r.Val == 1
}

// eqTerm returns x == y under Go's equivalence relation for type t as a
// boolean term; constant when no symbolic leaf is involved.
func eqTerm(t types.Type, x, y value) *sym.Term {
	if isSym(x) || isSym(y) {
		if isStr(x) && isStr(y) {
			return strEqTerm(x, y)
		}
		if bx, ok := boolTerm(x); ok {
			if by, ok := boolTerm(y); ok {
				return sym.Eq(bx, by)
			}
		}
		if _, tx, ok := intTerm(x); ok {
			if _, ty, ok := intTerm(y); ok && tx.W == ty.W {
				return sym.Eq(tx, ty)
			}
		}
		panic(engineAbort{fmt.Sprintf("eqTerm: symbolic comparison of %T and %T", x, y)})
	}
	switch x := x.(type) {
	case bool:
		return sym.Bool(x == y.(bool))
	case int:
		return sym.Bool(x == y.(int))
	case int8:
		return sym.Bool(x == y.(int8))
	case int16:
		return sym.Bool(x == y.(int16))
	case int32:
		return sym.Bool(x == y.(int32))
	case int64:
		return sym.Bool(x == y.(int64))
	case uint:
		return sym.Bool(x == y.(uint))
	case uint8:
		return sym.Bool(x == y.(uint8))
	case uint16:
		return sym.Bool(x == y.(uint16))
	case uint32:
		return sym.Bool(x == y.(uint32))
	case uint64:
		return sym.Bool(x == y.(uint64))
	case uintptr:
		return sym.Bool(x == y.(uintptr))
	case float32:
		return sym.Bool(x == y.(float32))
	case float64:
		return sym.Bool(x == y.(float64))
	case complex64:
		return sym.Bool(x == y.(complex64))
	case complex128:
		return sym.Bool(x == y.(complex128))
	case string:
		return sym.Bool(x == y.(string))
	case *value:
		return sym.Bool(x == y.(*value))
	case chan value:
		return sym.Bool(x == y.(chan value))
	case unsafe.Pointer:
		return sym.Bool(x == y.(unsafe.Pointer))
	case structure:
		y := y.(structure)
		if nt, ok := t.(*types.Named); ok && nt.Obj().Name() == "Value" && nt.Obj().Pkg() != nil && nt.Obj().Pkg().Path() == "reflect" {
			// the modelled reflect.Value: {rtype, value}, or two nil interfaces for the zero Value
			xt, yt := rV2T(x).t, rV2T(y).t
			if xt == nil || yt == nil {
				return sym.Bool(xt == nil && yt == nil)
			}
			if !types.Identical(xt, yt) {
				return sym.False
			}
			if !types.Comparable(xt) {
				panic(engineAbort{"comparison of two non-zero reflect.Values of type " + xt.String()})
			}
			return eqTerm(xt, rV2V(x), rV2V(y))
		}
		tStruct := t.Underlying().(*types.Struct)
		var cs []*sym.Term
		for i, n := 0, tStruct.NumFields(); i < n; i++ {
			if f := tStruct.Field(i); f.Name() != "_" {
				c := eqTerm(f.Type(), x[i], y[i])
				if c.IsFalse() {
					return sym.False
				}
				cs = append(cs, c)
			}
		}
		return sym.And(cs...)
	case array:
		y := y.(array)
		tElt := t.Underlying().(*types.Array).Elem()
		var cs []*sym.Term
		for i, xi := range x {
			c := eqTerm(tElt, xi, y[i])
			if c.IsFalse() {
				return sym.False
			}
			cs = append(cs, c)
		}
		return sym.And(cs...)
	case iface:
		y := y.(iface)
		if !sameType(x.t, y.t) {
			return sym.False
		}
		if x.t == nil {
			return sym.True
		}
		return eqTerm(x.t, x.v, y.v)
	case rtype:
		return sym.Bool(types.Identical(x.t, y.(rtype).t))
	case *ssa.Function:
		if yf, ok := y.(*ssa.Function); ok {
			return sym.Bool(x == yf)
		}
		return sym.False
	case *closure:
		if yc, ok := y.(*closure); ok {
			return sym.Bool(x == yc)
		}
		return sym.False
	}

	// Since map, func and slice don't support comparison, this
	// case is only reachable if one of x or y is literally nil
	// (handled in eqnil) or via interface{} values.
	panic(runtimeError(fmt.Sprintf("comparing uncomparable type %s", t)))
}

// canonKey returns a canonical string for a concrete map key; ok=false if the
// key contains a symbolic leaf.
func canonKey(buf *bytes.Buffer, v value) bool {
	switch v := v.(type) {
	case symInt, symBool, symStr:
		return false
	case string:
		fmt.Fprintf(buf, "s%d:%s", len(v), v)
	case bool, int, int8, int16, int32, int64, uint, uint8, uint16, uint32, uint64, uintptr, float32, float64, complex64, complex128:
		fmt.Fprintf(buf, "%T:%v", v, v)
	case *value:
		fmt.Fprintf(buf, "p%p", v)
	case chan value:
		fmt.Fprintf(buf, "c%p", v)
	case unsafe.Pointer:
		fmt.Fprintf(buf, "u%p", v)
	case structure:
		buf.WriteString("{")
		for _, e := range v {
			if !canonKey(buf, e) {
				return false
			}
			buf.WriteString(",")
		}
		buf.WriteString("}")
	case array:
		buf.WriteString("[")
		for _, e := range v {
			if !canonKey(buf, e) {
				return false
			}
			buf.WriteString(",")
		}
		buf.WriteString("]")
	case iface:
		if v.t == nil {
			buf.WriteString("nil")
			return true
		}
		fmt.Fprintf(buf, "i(%s)", v.t.String())
		return canonKey(buf, v.v)
	case rtype:
		fmt.Fprintf(buf, "rt(%s)", v.t.String())
	case *ssa.Function:
		fmt.Fprintf(buf, "f%p", v)
	case *closure:
		fmt.Fprintf(buf, "cl%p", v)
	default:
		panic(runtimeError(fmt.Sprintf("hash of unhashable type %T", v)))
	}
	return true
}

// reflect.Value struct values don't have a fixed shape, since the
// payload can be a scalar or an aggregate depending on the instance.
// So store (and load) can't simply use recursion over the shape of the
// rhs value, or the lhs, to copy the value; we need the static type
// information.  (We can't make reflect.Value a new basic data type
// because its "structness" is exposed to Go programs.)

// load returns the value of type T in *addr.
func load(T types.Type, addr *value) value {
	switch T := T.Underlying().(type) {
	case *types.Struct:
		v := (*addr).(structure)
		a := make(structure, len(v))
		for i := range a {
			a[i] = load(T.Field(i).Type(), &v[i])
		}
		return a
	case *types.Array:
		v := (*addr).(array)
		a := make(array, len(v))
		for i := range a {
			a[i] = load(T.Elem(), &v[i])
		}
		return a
	default:
		return *addr
	}
}

// store stores value v of type T into *addr.
func store(T types.Type, addr *value, v value) {
	switch T := T.Underlying().(type) {
	case *types.Struct:
		lhs := (*addr).(structure)
		rhs := v.(structure)
		for i := range lhs {
			store(T.Field(i).Type(), &lhs[i], rhs[i])
		}
	case *types.Array:
		lhs := (*addr).(array)
		rhs := v.(array)
		for i := range lhs {
			store(T.Elem(), &lhs[i], rhs[i])
		}
	default:
		*addr = v
	}
}

// Prints in the style of built-in println.
// (More or less; in gc println is actually a compiler intrinsic and
// can distinguish println(1) from println(interface{}(1)).)
func writeValue(buf *bytes.Buffer, v value) {
	switch v := v.(type) {
	case nil, bool, int, int8, int16, int32, int64, uint, uint8, uint16, uint32, uint64, uintptr, float32, float64, complex64, complex128, string:
		fmt.Fprintf(buf, "%v", v)

	case *symMap:
		buf.WriteString("map[")
		sep := ""
		if v != nil {
			for _, e := range v.entries {
				if !e.live {
					continue
				}
				buf.WriteString(sep)
				sep = " "
				writeValue(buf, e.key)
				buf.WriteString(":")
				writeValue(buf, e.val)
			}
		}
		buf.WriteString("]")

	case symInt:
		buf.WriteString("sym:" + v.t.SMT())
	case symBool:
		buf.WriteString("sym:" + v.t.SMT())
	case symStr:
		buf.WriteString("symstr[")
		for _, b := range v.b {
			writeValue(buf, b)
			buf.WriteString(" ")
		}
		buf.WriteString("]")

	case chan value:
		fmt.Fprintf(buf, "%v", v) // (an address)

	case *value:
		if v == nil {
			buf.WriteString("<nil>")
		} else {
			fmt.Fprintf(buf, "%p", v)
		}

	case iface:
		fmt.Fprintf(buf, "(%s, ", v.t)
		writeValue(buf, v.v)
		buf.WriteString(")")

	case structure:
		buf.WriteString("{")
		for i, e := range v {
			if i > 0 {
				buf.WriteString(" ")
			}
			writeValue(buf, e)
		}
		buf.WriteString("}")

	case array:
		buf.WriteString("[")
		for i, e := range v {
			if i > 0 {
				buf.WriteString(" ")
			}
			writeValue(buf, e)
		}
		buf.WriteString("]")

	case []value:
		buf.WriteString("[")
		for i, e := range v {
			if i > 0 {
				buf.WriteString(" ")
			}
			writeValue(buf, e)
		}
		buf.WriteString("]")

	case *ssa.Function, *ssa.Builtin, *closure:
		fmt.Fprintf(buf, "%p", v) // (an address)

	case rtype:
		buf.WriteString(v.t.String())

	case tuple:
		// Unreachable in well-formed Go programs
		buf.WriteString("(")
		for i, e := range v {
			if i > 0 {
				buf.WriteString(", ")
			}
			writeValue(buf, e)
		}
		buf.WriteString(")")

	default:
		fmt.Fprintf(buf, "<%T>", v)
	}
}

// Implements printing of Go values in the style of built-in println.
func toString(v value) string {
	var b bytes.Buffer
	writeValue(&b, v)
	return b.String()
}

// ------------------------------------------------------------------------
// Iterators

type stringIter struct {
	*strings.Reader
	i int
}

func (it *stringIter) next() tuple {
	okv := make(tuple, 3)
	ch, n, err := it.ReadRune()
	ok := err != io.EOF
	okv[0] = ok
	if ok {
		okv[1] = it.i
		okv[2] = ch
	}
	it.i += n
	return okv
}
