package interp

// Source formatting of concrete text. golang.org/x/tools/imports.Process
// shells out to the go command and walks GOROOT and the module cache - it is
// environment, not code under test - and go/format.Source is a standard
// library printer. On concrete bytes both are run by the host: the engine is
// built against the same x/tools version as the code under test (go.mod) and
// with the same Go release, so the host call is the same code run natively.
// Switched on per path by symxRealLibrary("raymond"); symbolic text aborts the
// path (imports.Process) or falls back to interpretation (format.Source).

import (
	"go/format"
	"go/types"

	"golang.org/x/tools/imports"
)

func concreteBytes(v value) ([]byte, bool) {
	bs, ok := v.([]value)
	if !ok {
		return nil, false
	}
	out := make([]byte, len(bs))
	for k, b := range bs {
		c, ok := b.(uint8)
		if !ok {
			return nil, false
		}
		out[k] = c
	}
	return out, true
}

func byteValues(b []byte) []value {
	out := make([]value, len(b))
	for k, c := range b {
		out[k] = c
	}
	return out
}

func init() {
	intrinsics["golang.org/x/tools/imports.Process"] = func(fr *frame, args []value) value {
		i := fr.i
		if !i.path.realLibs["raymond"] {
			i.path.abort("imports.Process runs the go command; only available with symxRealLibrary(\"raymond\")")
		}
		name, ok := args[0].(string)
		src, ok2 := concreteBytes(args[1])
		if !ok || !ok2 || name != "" || args[2].(*value) != nil {
			i.path.abort("imports.Process: only (\"\", concrete source, nil options) is supported")
		}
		i.path.res.Intrinsics["imports.Process(host, concrete text)"]++
		out, err := imports.Process("", src, nil)
		if err != nil {
			return tuple{[]value(nil), i.newError(fr, err.Error())}
		}
		return tuple{byteValues(out), iface{}}
	}
	intrinsics["go/format.Source"] = func(fr *frame, args []value) value {
		i := fr.i
		if src, ok := concreteBytes(args[0]); ok && i.path.realLibs["raymond"] {
			i.path.res.Intrinsics["format.Source(host, concrete text)"]++
			out, err := format.Source(src)
			if err != nil {
				return tuple{[]value(nil), i.newError(fr, err.Error())}
			}
			return tuple{byteValues(out), iface{}}
		}
		return callBody(i, fr.caller, nil, fr.fn, args, nil)
	}
}

// sync.Map (a lock-free trie over unsafe pointers in the runtime): modelled as an ordinary map from any to any kept
// beside the path, keyed by the address of the sync.Map.
func (i *interpreter) syncMapOf(recv value) *symMap {
	p := recv.(*value)
	if i.path.syncMaps == nil {
		i.path.syncMaps = map[*value]*symMap{}
	}
	m, ok := i.path.syncMaps[p]
	if !ok {
		m = makeMap(types.NewInterfaceType(nil, nil).Complete(), 0).(*symMap)
		i.path.syncMaps[p] = m
	}
	return m
}

func init() {
	intrinsics["(*sync.Map).Load"] = func(fr *frame, args []value) value {
		if v, ok := fr.i.syncMapOf(args[0]).lookup(fr.i, args[1]); ok {
			return tuple{v, true}
		}
		return tuple{iface{}, false}
	}
	intrinsics["(*sync.Map).Store"] = func(fr *frame, args []value) value {
		fr.i.syncMapOf(args[0]).insert(fr.i, args[1], args[2])
		return nil
	}
	intrinsics["(*sync.Map).LoadOrStore"] = func(fr *frame, args []value) value {
		m := fr.i.syncMapOf(args[0])
		if v, ok := m.lookup(fr.i, args[1]); ok {
			return tuple{v, true}
		}
		m.insert(fr.i, args[1], args[2])
		return tuple{args[2], false}
	}
	intrinsics["(*sync.Map).Delete"] = func(fr *frame, args []value) value {
		fr.i.syncMapOf(args[0]).delete(fr.i, args[1])
		return nil
	}
}
