package interp

// Engine glue: shared program state, lazily initialised globals, exploration
// driver. See DESIGN.md section 2.

import (
	"fmt"
	"go/types"
	"os"
	"runtime"
	"runtime/debug"
	"sort"
	"strings"
	"sync"
	"time"

	"golang.org/x/tools/go/ssa"

	"gosym/sym"
)

// NewShared prepares the per-program state. It mutates prog (fake reflect) and
// must be called once.
func NewShared(prog *ssa.Program, sizes types.Sizes) *Shared {
	sh := &Shared{prog: prog, sizes: sizes, initWrites: map[*ssa.Global]bool{}}
	if rt := prog.ImportedPackage("runtime"); rt != nil {
		sh.runtimeErrorString = rt.Type("errorString").Object().Type()
	} else {
		sh.runtimeErrorString = errorType
	}
	tmp := &interpreter{Shared: sh}
	initReflect(tmp)
	// Which globals does each package's init store to (directly)?
	for _, pkg := range prog.AllPackages() {
		for _, m := range pkg.Members {
			fn, ok := m.(*ssa.Function)
			if !ok || !strings.HasPrefix(fn.Name(), "init") {
				continue
			}
			markInitWrites(sh, fn, map[*ssa.Function]bool{})
		}
	}
	return sh
}

func markInitWrites(sh *Shared, fn *ssa.Function, seen map[*ssa.Function]bool) {
	if seen[fn] || fn.Blocks == nil {
		return
	}
	seen[fn] = true
	for _, b := range fn.Blocks {
		for _, in := range b.Instrs {
			switch in := in.(type) {
			case *ssa.Store:
				if g := rootGlobal(in.Addr); g != nil {
					sh.initWrites[g] = true
				}
			case *ssa.MapUpdate:
				// m is loaded from a global: treat as written
				if u, ok := in.Map.(*ssa.UnOp); ok {
					if g := rootGlobal(u.X); g != nil {
						sh.initWrites[g] = true
					}
				}
			}
		}
	}
	for _, af := range fn.AnonFuncs {
		markInitWrites(sh, af, seen)
	}
}

func rootGlobal(v ssa.Value) *ssa.Global {
	for {
		switch x := v.(type) {
		case *ssa.Global:
			return x
		case *ssa.FieldAddr:
			v = x.X
		case *ssa.IndexAddr:
			v = x.X
		default:
			return nil
		}
	}
}

// Packages whose init functions are plain Go and safe to interpret lazily.
// Everything under the module of the code under test is always allowed.
var pureInitPrefixes = []string{
	"strings", "strconv", "unicode", "unicode/utf8", "unicode/utf16", "sort", "slices", "maps", "cmp", "errors", "bytes",
	"regexp", "regexp/syntax", "container/list", "math", "math/bits", "net/http", "net/http/internal", "net/http/internal/ascii", "net/textproto", "net/mail", "mime", "mime/multipart", "path", "path/filepath",
	"encoding/base64", "encoding/hex", "html", "net/url", "go/", "text/", "iter", "io", "bufio", "fmt", "math/big",
	"github.com/", "gopkg.in/", "golang.org/x/", "go.yaml.in/",
}

var denyInit = map[string]bool{
	"runtime": true, "os": true, "reflect": true, "syscall": true, "sync": true, "time": true, "unsafe": true,
	"sync/atomic": true, "net": true, "log": true, "testing": true, "crypto/rand": true, "math/rand": true,
}

// ExtraInitPrefixes are module paths (of the code under test) whose package initialisers are interpreted.
var ExtraInitPrefixes []string

func initAllowed(path string) bool {
	for _, p := range ExtraInitPrefixes {
		if path == p || strings.HasPrefix(path, p+"/") {
			return true
		}
	}
	if denyInit[path] || strings.HasPrefix(path, "internal/") || strings.HasPrefix(path, "runtime/") || strings.HasPrefix(path, "crypto/") {
		return false
	}
	for _, p := range pureInitPrefixes {
		if path == p || (strings.HasSuffix(p, "/") && strings.HasPrefix(path, p)) {
			return true
		}
	}
	return false
}

// globalAddr returns the address of global g on this path, running the owning
// package's initialiser first when g is one it writes.
func (i *interpreter) globalAddr(g *ssa.Global) *value {
	if a, ok := i.globals[g]; ok {
		return a
	}
	pkg := g.Pkg
	if pkg != nil && !i.inited[pkg] {
		if i.initWrites[g] {
			if initAllowed(pkg.Pkg.Path()) {
				i.runInit(pkg)
				if a, ok := i.globals[g]; ok {
					return a
				}
			} else if ov, ok := globalOverrides[g.String()]; ok {
				cell := ov(i)
				i.globals[g] = &cell
				return &cell
			} else {
				where := ""
				for k := len(i.path.stack) - 1; k >= 0 && k >= len(i.path.stack)-4; k-- {
					where += " <- " + i.path.stack[k].String()
				}
				i.path.abort("read of global %s whose package initialiser cannot be interpreted%s", g.String(), where)
			}
		}
	}
	cell := zero(mustDeref(g.Type()))
	if v, ok := i.embeddedContent(g); ok {
		cell = v
	}
	a := &cell
	i.globals[g] = a
	return a
}

func (i *interpreter) runInit(pkg *ssa.Package) {
	if i.inited[pkg] {
		return
	}
	i.inited[pkg] = true
	fn := pkg.Func("init")
	if fn == nil || fn.Blocks == nil {
		return
	}
	saveDepth := i.path.depth
	i.path.inInit++
	defer func() { i.path.inInit--; i.path.depth = saveDepth }()
	callSSA(i, nil, 0, fn, nil, nil)
}

// globalOverrides gives values for init-written globals of packages whose
// initialisers are never interpreted.
var globalOverrides = map[string]func(i *interpreter) value{
	"internal/bytealg.MaxLen":        func(i *interpreter) value { return int(63) },
	"internal/bytealg.MaxBruteForce": func(i *interpreter) value { return int(64) },
	// time.Local = &localLoc: a zero Location (never consulted for anything a check observes)
	"time.Local": func(i *interpreter) value {
		pkg := i.prog.ImportedPackage("time")
		cell := zero(pkg.Type("Location").Type())
		return &cell
	},
}

// ------------------------------------------------------------------ running

// Config controls one exploration.
type Config struct {
	Workers    int
	Solver     string // primary: z3 | z3-new | cvc5
	CrossCheck string // verdict cross-check solver ("" = none)
	TimeoutMs  int
	MaxPaths   int
	MaxSteps   int64
	Deadline   time.Time
	Verbose    bool
	KeepPaths  int // number of completed-path models to retain for witness replay
	Seed       int64
}

type HarnessResult struct {
	Harness      string
	Paths        int // executions
	Completed    int // status ok
	AssumeFalse  int
	PanicPaths   int
	Violations   []Violation
	Inconclusive []string
	Covers       map[string]int
	Queries      int
	SolverTime   time.Duration
	Funcs        map[string]bool
	Intrinsics   map[string]int
	Witnesses    []Witness // sampled completed paths
	Steps        int64
	Exhaustive   bool
	Wall         time.Duration
	StatusCount  map[string]int
}

// Witness is a completed path: a model and the events the engine predicts.
type Witness struct {
	Model  map[string]uint64 `json:"model"`
	Events []string          `json:"events"`
	Status string            `json:"status"`
	Msg    string            `json:"msg,omitempty"`
}

type workItem struct{ prefix []Decision }

// Explore runs harness fn over all paths.
func Explore(sh *Shared, fn *ssa.Function, cfg Config) *HarnessResult {
	if cfg.Workers <= 0 {
		cfg.Workers = runtime.NumCPU()
	}
	if cfg.Solver == "" {
		cfg.Solver = "z3"
	}
	if cfg.TimeoutMs == 0 {
		cfg.TimeoutMs = 20000
	}
	res := &HarnessResult{Harness: fn.Name(), Covers: map[string]int{}, Funcs: map[string]bool{}, Intrinsics: map[string]int{}, StatusCount: map[string]int{}}
	t0 := time.Now()

	var mu sync.Mutex
	cond := sync.NewCond(&mu)
	queue := []workItem{{}}
	active := 0
	stop := false
	violSeen := map[string]int{}

	worker := func(id int) {
		solver, err := sym.StartSolver(cfg.Solver, cfg.TimeoutMs)
		if err != nil {
			mu.Lock()
			res.Inconclusive = append(res.Inconclusive, "cannot start solver: "+err.Error())
			stop = true
			cond.Broadcast()
			mu.Unlock()
			return
		}
		defer solver.Close()
		ws := &workerState{}
		if lf := os.Getenv("GOSYM_SOLVER_LOG"); lf != "" && id == 0 {
			if f, err := os.Create(lf); err == nil {
				solver.Log = f
				defer f.Close()
			}
		}
		var solver2 *sym.Solver
		if cfg.CrossCheck != "" {
			solver2, err = sym.StartSolver(cfg.CrossCheck, cfg.TimeoutMs)
			if err == nil {
				defer solver2.Close()
				if lf := os.Getenv("GOSYM_SOLVER2_LOG"); lf != "" && id == 0 {
					if f, err := os.Create(lf); err == nil {
						solver2.Log = f
						defer f.Close()
					}
				}
			}
		}
		for {
			mu.Lock()
			for len(queue) == 0 && active > 0 && !stop {
				cond.Wait()
			}
			if stop || (len(queue) == 0 && active == 0) {
				cond.Broadcast()
				mu.Unlock()
				break
			}
			// DFS: take from the end
			it := queue[len(queue)-1]
			queue = queue[:len(queue)-1]
			active++
			mu.Unlock()

			pr := runPathWS(sh, fn, it.prefix, solver, solver2, cfg, nil, func(w []Decision) {
				mu.Lock()
				queue = append(queue, workItem{w})
				cond.Signal()
				mu.Unlock()
			}, ws)

			mu.Lock()
			active--
			res.Paths++
			res.StatusCount[statusClass(pr.Status)]++
			res.Queries += pr.Queries
			res.Steps += pr.Steps
			for _, c := range pr.Covers {
				res.Covers[c]++
			}
			for f := range pr.Funcs {
				res.Funcs[f] = true
			}
			for k, n := range pr.Intrinsics {
				res.Intrinsics[k] += n
			}
			for _, v := range pr.Violations {
				key := v.Kind + "|" + v.Label + "|" + v.Known
				violSeen[key]++
				if violSeen[key] <= 5 {
					res.Violations = append(res.Violations, v)
				}
			}
			switch statusClass(pr.Status) {
			case "ok":
				res.Completed++
			case "assume-false":
				res.AssumeFalse++
			case "panic":
				res.PanicPaths++
			case "abort", "unwind":
				if len(res.Inconclusive) < 20 {
					res.Inconclusive = append(res.Inconclusive, pr.Status+": "+pr.Msg)
				}
			}
			if pr.Model != nil && (statusClass(pr.Status) == "ok" || statusClass(pr.Status) == "panic" || statusClass(pr.Status) == "assert-failed") {
				w := Witness{Model: pr.Model, Events: pr.Events, Status: statusClass(pr.Status), Msg: pr.Msg}
				if len(res.Witnesses) < cfg.KeepPaths {
					res.Witnesses = append(res.Witnesses, w)
				} else if cfg.KeepPaths > 0 {
					// reservoir sampling driven by a cheap LCG on the seed
					cfg.Seed = cfg.Seed*6364136223846793005 + 1442695040888963407
					j := int(uint64(cfg.Seed>>33) % uint64(res.Paths))
					if j < cfg.KeepPaths {
						res.Witnesses[j] = w
					}
				}
			}
			for _, w := range pr.NewWork {
				queue = append(queue, workItem{w})
			}
			if cfg.MaxPaths > 0 && res.Paths >= cfg.MaxPaths && (len(queue) > 0 || active > 0) {
				if !stop {
					res.Inconclusive = append(res.Inconclusive, fmt.Sprintf("path budget %d exhausted with %d prefixes pending", cfg.MaxPaths, len(queue)))
				}
				stop = true
			}
			if !cfg.Deadline.IsZero() && time.Now().After(cfg.Deadline) && (len(queue) > 0 || active > 0) {
				if !stop {
					res.Inconclusive = append(res.Inconclusive, fmt.Sprintf("time budget exhausted with %d prefixes pending", len(queue)))
				}
				stop = true
			}
			cond.Broadcast()
			mu.Unlock()
		}
		mu.Lock()
		res.SolverTime += solver.Time
		if os.Getenv("GOSYM_TIMING") != "" {
			fmt.Fprintf(os.Stderr, "worker %d: check %v get-value %v queries %d\n", id, solver.Time, solver.GetTime, solver.Queries)
		}
		if solver2 != nil {
			res.SolverTime += solver2.Time
		}
		mu.Unlock()
	}
	var wg sync.WaitGroup
	for w := 0; w < cfg.Workers; w++ {
		wg.Add(1)
		go func(id int) { defer wg.Done(); worker(id) }(w)
	}
	wg.Wait()
	res.Exhaustive = len(res.Inconclusive) == 0
	res.Wall = time.Since(t0)
	sort.Slice(res.Violations, func(a, b int) bool { return res.Violations[a].Label < res.Violations[b].Label })
	return res
}

func statusClass(s string) string {
	if i := strings.IndexByte(s, ':'); i >= 0 {
		return s[:i]
	}
	return s
}

// RunPath executes fn once following prefix. If concrete != nil the run is a
// concrete replay driven by that model (no solver).
func RunPath(sh *Shared, fn *ssa.Function, prefix []Decision, solver, solver2 *sym.Solver, cfg Config, concrete map[string]uint64) (pr *PathResult) {
	return runPathEmit(sh, fn, prefix, solver, solver2, cfg, concrete, nil)
}

// workerState survives across the paths executed by one worker (memoised immutable values).
type workerState struct {
	regexps map[string]value
}

func runPathEmit(sh *Shared, fn *ssa.Function, prefix []Decision, solver, solver2 *sym.Solver, cfg Config, concrete map[string]uint64, emit func([]Decision)) (pr *PathResult) {
	return runPathWS(sh, fn, prefix, solver, solver2, cfg, concrete, emit, &workerState{})
}

func runPathWS(sh *Shared, fn *ssa.Function, prefix []Decision, solver, solver2 *sym.Solver, cfg Config, concrete map[string]uint64, emit func([]Decision), ws *workerState) (pr *PathResult) {
	p := newPathCtx(prefix, solver, solver2, fn.Name())
	p.concrete = concrete
	p.emit = emit
	if cfg.MaxSteps > 0 {
		p.maxSteps = cfg.MaxSteps
	}
	i := &interpreter{Shared: sh, globals: map[*ssa.Global]*value{}, inited: map[*ssa.Package]bool{}, path: p, envst: &envState{}, ws: ws}
	pr = p.res
	defer func() {
		pr.Decisions = p.decisions
		pr.NewWork = p.newWork
		pr.Steps = p.steps
		r := recover()
		if r == nil {
			return
		}
		switch r := r.(type) {
		case pathEnd:
			pr.Status = r.status
			if strings.HasPrefix(r.status, "unwind") {
				pr.Msg = r.status
				if p.panicMode == "c14" {
					// a hang suspicion is a C14 violation candidate, but budget exhaustion is inconclusive, not proof
				}
			}
			if statusClass(r.status) == "assert-failed" {
				func() {
					defer func() { recover() }()
					pr.Model = p.finalModelWithExtra()
				}()
			}
		case engineAbort:
			pr.Status = "abort"
			pr.Msg = r.reason
		default:
			if isEngineUnwind(r) {
				pr.Status = "abort"
				pr.Msg = fmt.Sprintf("engine defect: %v\n%s", r, trimStack(debug.Stack()))
				return
			}
			// target panic escaping the harness
			msg := panicString(r)
			if len(p.panicStack) > 0 {
				msg += " @ " + strings.Join(p.panicStack, " <- ")
			}
			pr.Status = "panic"
			pr.Msg = msg
			pr.Events = append(pr.Events, "panic")
			func() {
				defer func() {
					if r2 := recover(); r2 != nil {
						pr.Status = "abort"
						pr.Msg = fmt.Sprintf("while reporting panic %q: %v", msg, r2)
					}
				}()
				if p.panicMode != "ignore" {
					p.reportViolation("panic", "panic", msg, sym.True)
				}
				pr.Model = p.finalModelWithExtra()
			}()
		}
	}()
	call(i, nil, 0, fn, nil)
	pr.Status = "ok"
	if !p.noWitness {
		pr.Model = p.finalModelWithExtra()
	}
	return pr
}

func trimStack(b []byte) string {
	s := string(b)
	lines := strings.Split(s, "\n")
	var out []string
	for _, l := range lines {
		if strings.Contains(l, "interp/") {
			out = append(out, strings.TrimSpace(l))
			if len(out) > 6 {
				break
			}
		}
	}
	return strings.Join(out, " | ")
}

func panicString(r any) string {
	switch r := r.(type) {
	case targetPanic:
		return "panic: " + targetPanicString(r.v)
	case runtimeError:
		return r.Error()
	case runtime.Error:
		return r.Error()
	case string:
		return r
	case error:
		return r.Error()
	}
	return fmt.Sprintf("%v", r)
}

func targetPanicString(v value) string {
	if it, ok := v.(iface); ok {
		switch x := it.v.(type) {
		case string:
			return x
		case *value:
			// error values: try field 0 string (errors.errorString)
			if x != nil {
				if st, ok := (*x).(structure); ok && len(st) > 0 {
					if s, ok := st[0].(string); ok {
						return s
					}
				}
			}
		}
	}
	return toString(v)
}

func (p *pathCtx) finalModelWithExtra() map[string]uint64 {
	m := p.finalModel()
	p.resolveRecords(m)
	out := make(map[string]uint64, len(m)+len(p.extraModel))
	for k, v := range m {
		out[k] = v
	}
	for k, v := range p.extraModel {
		out[k] = v
	}
	return out
}

var _ = os.Stderr
