// Command gosym: symbolic execution of go/ssa harnesses over the real code of
// /repo with an SMT back end. See /verif/DESIGN.md.
package main

import (
	"encoding/json"
	"flag"
	"fmt"
	"go/ast"
	"go/parser"
	"go/token"
	"go/types"
	"os"
	"path/filepath"
	"regexp"
	"runtime/debug"
	"runtime/pprof"
	"sort"
	"strconv"
	"strings"
	"time"

	"golang.org/x/tools/go/packages"
	"golang.org/x/tools/go/ssa"
	"golang.org/x/tools/go/ssa/ssautil"

	"gosym/interp"
)

var modulePath = "github.com/gopher-fleece/gleece/v2"

func main() {
	// the loaded SSA program is a large, long-lived heap; collect rarely
	debug.SetGCPercent(600)
	debug.SetMemoryLimit(28 << 30)
	if len(os.Args) < 2 {
		fmt.Fprintln(os.Stderr, "usage: gosym run|replay|selftest ...")
		os.Exit(2)
	}
	switch os.Args[1] {
	case "run":
		os.Exit(cmdRun(os.Args[2:]))
	case "replay":
		os.Exit(cmdReplay(os.Args[2:]))
	default:
		fmt.Fprintln(os.Stderr, "unknown command", os.Args[1])
		os.Exit(2)
	}
}

type knownFinding struct {
	Property string `json:"property"`
	ID       string `json:"id"`
	Status   string `json:"status"` // known | fixed
	What     string `json:"what"`
	Commit   string `json:"commit,omitempty"`
}

// discoverHarnesses scans harnessRoot for packages with vh_<prop>_ functions.
func discoverHarnesses(harnessRoot, repo, prop string) ([]*pkgHarness, map[string][]string, error) {
	var out []*pkgHarness
	covers := map[string][]string{} // pkg -> cover labels found in source
	base := filepath.Join(harnessRoot, modulePath)
	err := filepath.Walk(base, func(path string, info os.FileInfo, err error) error {
		if err != nil || !info.IsDir() {
			return err
		}
		files, _ := filepath.Glob(filepath.Join(path, "zz_verif_*.go"))
		if len(files) == 0 {
			return nil
		}
		rel, _ := filepath.Rel(base, path)
		p := &pkgHarness{ImportPath: filepath.ToSlash(filepath.Join(modulePath, rel)), Dir: filepath.Join(repo, rel), Files: files}
		if rel == "." {
			p.ImportPath = modulePath
			p.Dir = repo
		}
		fset := token.NewFileSet()
		has := false
		shims := false // exported Vh* helpers used by harnesses of other packages
		for _, f := range files {
			af, err := parser.ParseFile(fset, f, nil, 0)
			if err != nil {
				return fmt.Errorf("harness %s: %v", f, err)
			}
			p.PkgName = af.Name.Name
			for _, d := range af.Decls {
				if fd, ok := d.(*ast.FuncDecl); ok && fd.Recv == nil && strings.HasPrefix(fd.Name.Name, "vh_") {
					p.Funcs = append(p.Funcs, fd.Name.Name)
					if strings.HasPrefix(fd.Name.Name, "vh_"+prop+"_") {
						has = true
					}
				} else if ok && fd.Recv == nil && strings.HasPrefix(fd.Name.Name, "Vh") {
					shims = true
				}
			}
			ast.Inspect(af, func(n ast.Node) bool {
				if ce, ok := n.(*ast.CallExpr); ok {
					if id, ok := ce.Fun.(*ast.Ident); ok && id.Name == "symxCover" && len(ce.Args) == 1 {
						if bl, ok := ce.Args[0].(*ast.BasicLit); ok {
							s, _ := strconv.Unquote(bl.Value)
							covers[p.ImportPath] = append(covers[p.ImportPath], s)
						}
					}
				}
				return true
			})
		}
		// packages that only carry exported shims (no vh_ functions) are always overlaid
		if has || shims || prop == "" || len(p.Funcs) == 0 {
			out = append(out, p)
		}
		return nil
	})
	return out, covers, err
}

type loaded struct {
	prog   *ssa.Program
	shared *interp.Shared
	pkgs   map[string]*ssa.Package
	loadS  float64
}

func loadProgram(repo string, hs []*pkgHarness, scratch string) (*loaded, error) {
	t0 := time.Now()
	ovFiles, err := overlayFor(hs, scratch, false)
	if err != nil {
		return nil, err
	}
	overlay := map[string][]byte{}
	for virt, real := range ovFiles {
		b, err := os.ReadFile(real)
		if err != nil {
			return nil, err
		}
		overlay[virt] = b
	}
	var patterns []string
	for _, h := range hs {
		patterns = append(patterns, h.ImportPath)
	}
	cfg := &packages.Config{
		Mode:    packages.LoadAllSyntax,
		Dir:     repo,
		Overlay: overlay,
		Env:     append(os.Environ(), "GOFLAGS=-mod=mod", "GOPROXY=off"),
	}
	initial, err := packages.Load(cfg, patterns...)
	if err != nil {
		return nil, err
	}
	nerr := 0
	packages.Visit(initial, nil, func(p *packages.Package) {
		for _, e := range p.Errors {
			if nerr < 10 {
				fmt.Fprintf(os.Stderr, "load error: %s: %v\n", p.PkgPath, e)
			}
			nerr++
		}
	})
	if nerr > 0 {
		return nil, fmt.Errorf("%d package load errors", nerr)
	}
	prog, pkgs := ssautil.AllPackages(initial, ssa.InstantiateGenerics|ssa.SanityCheckFunctions&0)
	prog.Build()
	l := &loaded{prog: prog, pkgs: map[string]*ssa.Package{}}
	for i, p := range pkgs {
		if p != nil {
			l.pkgs[initial[i].PkgPath] = p
		}
	}
	l.shared = interp.NewShared(prog, types.SizesFor("gc", "amd64"))
	l.loadS = time.Since(t0).Seconds()
	return l, nil
}

type harnessEvidence struct {
	Harness        string         `json:"harness"`
	Package        string         `json:"package"`
	Paths          int            `json:"paths_executed"`
	Completed      int            `json:"paths_completed"`
	AssumeFalse    int            `json:"paths_cut_by_assumption"`
	PanicPaths     int            `json:"paths_ending_in_panic"`
	Queries        int            `json:"solver_queries"`
	SolverTimeS    float64        `json:"solver_time_s"`
	WallS          float64        `json:"wall_s"`
	Steps          int64          `json:"ssa_instructions_executed"`
	Exhaustive     bool           `json:"exhaustive"`
	Inconclusive   []string       `json:"inconclusive,omitempty"`
	Covers         map[string]int `json:"cover_points"`
	Replayed       int            `json:"witnesses_replayed_natively"`
	ReplayMismatch int            `json:"witness_mismatches"`
	Violations     int            `json:"violations"`
	StatusCount    map[string]int `json:"path_status"`
}

func cmdRun(args []string) int {
	fs := flag.NewFlagSet("run", flag.ExitOnError)
	repo := fs.String("repo", "/repo", "repository under test")
	verif := fs.String("verif", "/verif", "verification directory")
	prop := fs.String("property", "", "property id (e.g. C15)")
	tier := fs.String("tier", "quick", "quick|thorough")
	only := fs.String("harness", "", "regexp selecting harness functions (default: all of the property for the tier)")
	workers := fs.Int("workers", 16, "worker goroutines")
	solver := fs.String("solver", "z3", "primary solver")
	cross := fs.String("cross", "cvc5", "cross-check solver for verdict queries (empty: none)")
	maxPaths := fs.Int("max-paths", 0, "path budget per harness (0: tier default)")
	budget := fs.Duration("time", 0, "time budget per harness (0: tier default)")
	noReplay := fs.Bool("no-replay", false, "skip native witness replay")
	trace := fs.Bool("trace", false, "trace calls")
	noEvidence := fs.Bool("no-evidence", false, "do not write the evidence file")
	cpuprof := fs.String("cpuprofile", "", "write a CPU profile")
	module := fs.String("module", "", "module path of the code under test (default: gleece)")
	harnessRoot := fs.String("harness-root", "", "harness root directory (default: <verif>/harness)")
	concModel := fs.String("concrete-model", "", "debug: run the selected harness once, concretely, on this JSON model (or replay file) inside the engine")
	fs.Parse(args)
	if *cpuprof != "" {
		f, _ := os.Create(*cpuprof)
		pprof.StartCPUProfile(f)
		defer pprof.StopCPUProfile()
	}
	if *prop == "" {
		fmt.Fprintln(os.Stderr, "--property required")
		return 2
	}
	if *module != "" {
		modulePath = *module
	}
	interp.ExtraInitPrefixes = append(interp.ExtraInitPrefixes, modulePath)
	if *harnessRoot == "" {
		*harnessRoot = filepath.Join(*verif, "harness")
	}
	if t := os.Getenv("VERIF_TIER"); t != "" && *tier == "" {
		*tier = t
	}
	seed := int64(1)
	if s := os.Getenv("VERIF_SEED"); s != "" {
		if v, err := strconv.ParseInt(s, 10, 64); err == nil {
			seed = v
		}
	}
	t0 := time.Now()
	scratch, err := os.MkdirTemp("", "gosym-")
	if err != nil {
		fmt.Fprintln(os.Stderr, err)
		return 2
	}
	defer os.RemoveAll(scratch)

	hs, coverSrc, err := discoverHarnesses(*harnessRoot, *repo, *prop)
	if err != nil || len(hs) == 0 {
		fmt.Fprintf(os.Stderr, "no harnesses for %s: %v\n", *prop, err)
		return 2
	}
	l, err := loadProgram(*repo, hs, scratch)
	if err != nil {
		fmt.Fprintln(os.Stderr, "load failed:", err)
		return 2
	}
	l.shared.Trace = *trace

	known := map[string]knownFinding{}
	if b, err := os.ReadFile(filepath.Join(*verif, "known_findings.json")); err == nil {
		var kfs []knownFinding
		if err := json.Unmarshal(b, &kfs); err != nil {
			fmt.Fprintln(os.Stderr, "known_findings.json:", err)
			return 2
		}
		for _, k := range kfs {
			known[k.ID] = k // a harness of one property may carry assertions (and findings) of a related one
		}
	}

	var re *regexp.Regexp
	if *only != "" {
		re = regexp.MustCompile(*only)
	}
	thorough := *tier == "thorough"
	cfg := interp.Config{Workers: *workers, Solver: *solver, CrossCheck: *cross, TimeoutMs: 20000, KeepPaths: 200, Seed: seed}
	if thorough {
		cfg.TimeoutMs = 120000
		cfg.KeepPaths = 2000
	}

	exit := 0
	confirmedViolation := false // a violation reproduced against the real code wins over inconclusive parts
	var evid []harnessEvidence
	var samples []any
	funcs := map[string]bool{}
	intr := map[string]int{}
	totalPaths, totalCompleted, totalQueries, totalReplayed := 0, 0, 0, 0
	totalViol := 0
	solverTime := 0.0
	var inconclusive []string
	knownPrinted := map[string]bool{}
	coversReached := map[string]int{}
	nReplayFile := 0
	ranAny := false

	for _, h := range hs {
		pkg := l.pkgs[h.ImportPath]
		if pkg == nil {
			fmt.Fprintf(os.Stderr, "package %s not loaded\n", h.ImportPath)
			return 2
		}
		fnames := append([]string(nil), h.Funcs...)
		sort.Strings(fnames)
		type runRes struct {
			name string
			r    *interp.HarnessResult
		}
		var results []runRes
		for _, fname := range fnames {
			if !strings.HasPrefix(fname, "vh_"+*prop+"_") {
				continue
			}
			if strings.HasSuffix(fname, "_T") && !thorough {
				continue
			}
			if strings.HasSuffix(fname, "_Q") && thorough {
				// the thorough tier replaces a quick harness by its _T counterpart when one exists
				hasT := false
				for _, other := range fnames {
					if other == strings.TrimSuffix(fname, "_Q")+"_T" {
						hasT = true
					}
				}
				if hasT {
					continue
				}
			}
			if re != nil && !re.MatchString(fname) {
				continue
			}
			fn := pkg.Func(fname)
			if fn == nil {
				fmt.Fprintf(os.Stderr, "harness %s not found in SSA package\n", fname)
				return 2
			}
			ranAny = true
			if *concModel != "" {
				var m map[string]uint64
				b := []byte(*concModel)
				if fb, err := os.ReadFile(*concModel); err == nil {
					b = fb
				}
				var wrap struct {
					Model map[string]uint64 `json:"model"`
				}
				if json.Unmarshal(b, &wrap) == nil && wrap.Model != nil {
					m = wrap.Model
				} else if err := json.Unmarshal(b, &m); err != nil {
					fmt.Fprintln(os.Stderr, "bad model:", err)
					return 2
				}
				pr := interp.RunPath(l.shared, fn, nil, nil, nil, cfg, m)
				fmt.Printf("concrete engine run of %s: status=%s msg=%s\nevents=%v\nviolations=%v\n", fname, pr.Status, pr.Msg, pr.Events, pr.Violations)
				return 0
			}
			c := cfg
			c.MaxPaths = *maxPaths
			if *budget > 0 {
				c.Deadline = time.Now().Add(*budget)
			} else if thorough {
				c.Deadline = time.Now().Add(40 * time.Minute)
			} else {
				c.Deadline = time.Now().Add(8 * time.Minute)
			}
			r := interp.Explore(l.shared, fn, c)
			results = append(results, runRes{fname, r})
			fmt.Printf("harness %s: paths=%d completed=%d cut=%d panics=%d queries=%d wall=%.1fs exhaustive=%v violations=%d\n",
				fname, r.Paths, r.Completed, r.AssumeFalse, r.PanicPaths, r.Queries, r.Wall.Seconds(), r.Exhaustive, len(r.Violations))
		}
		// native replay for this package: violations first, then sampled witnesses
		var cases []nativeCase
		type caseRef struct {
			res  int
			viol int // index into Violations or -1
			wit  int
		}
		var refs []caseRef
		for ri, rr := range results {
			if engineOnly(rr.name) {
				continue
			}
			for vi, v := range rr.r.Violations {
				cases = append(cases, nativeCase{rr.name, v.Model})
				refs = append(refs, caseRef{ri, vi, -1})
			}
			if !*noReplay {
				for wi, w := range rr.r.Witnesses {
					cases = append(cases, nativeCase{rr.name, w.Model})
					refs = append(refs, caseRef{ri, -1, wi})
				}
			}
		}
		var outs []nativeOutcome
		if len(cases) > 0 {
			outs, err = runNative(*repo, h, hs, cases, scratch)
			if err != nil {
				fmt.Fprintln(os.Stderr, err)
				inconclusive = append(inconclusive, "native replay failed: "+firstLine(err.Error()))
				exit = max(exit, 2)
			}
		}
		replayed := make([]int, len(results))
		mismatch := make([]int, len(results))
		confirmedViol := make([]int, len(results))
		// engine-only harnesses inject library/OS faults that a native run cannot reproduce: their
		// counterexamples are reported from the engine's own (concrete) re-execution of the model
		for ri, rr := range results {
			if !engineOnly(rr.name) {
				continue
			}
			engineOnlyUsed = true
			for _, v := range rr.r.Violations {
				pr := interp.RunPath(l.shared, pkg.Func(rr.name), nil, nil, nil, cfg, v.Model)
				again := false
				for _, v2 := range pr.Violations {
					if v2.Label == v.Label {
						again = true
					}
				}
				if pr.Status == "panic" && v.Kind == "panic" {
					again = true
				}
				if !again {
					msg := fmt.Sprintf("counterexample for %s/%s did not reproduce in the engine's concrete re-execution", rr.name, v.Label)
					fmt.Fprintln(os.Stderr, "INCONCLUSIVE:", msg)
					inconclusive = append(inconclusive, msg)
					exit = max(exit, 2)
					continue
				}
				confirmedViol[ri]++
				totalViol++
				nReplayFile++
				rp := filepath.Join(*verif, "out", "replay", fmt.Sprintf("%s-%s-%d.json", *prop, rr.name, nReplayFile))
				os.MkdirAll(filepath.Dir(rp), 0o755)
				rb, _ := json.MarshalIndent(map[string]any{"property": *prop, "package": h.ImportPath, "harness": rr.name, "label": v.Label, "kind": v.Kind,
					"msg": v.Msg, "model": v.Model, "engine_only": true, "trace": v.Trace}, "", " ")
				os.WriteFile(rp, rb, 0o644)
				fmt.Printf("VIOLATION property=%s replay=%s\n", *prop, rp)
				fmt.Printf("  harness=%s label=%s kind=%s %s model=%s (engine-only harness: faults are injected, replay is the engine's concrete re-execution)\n", rr.name, v.Label, v.Kind, v.Msg, modelString(v.Model))
				exit = max(exit, 1)
				confirmedViolation = true
			}
		}
		for ci, ref := range refs {
			if outs == nil {
				break
			}
			o := outs[ci]
			rr := results[ref.res]
			// assertions labelled "<property>.native.<...>" are decided by the native run alone (the engine cannot
			// load what they need and records them as passed): a failure there is a violation of the real code
			nativeFail := ""
			var nmodel map[string]uint64
			if ref.viol >= 0 {
				nmodel = rr.r.Violations[ref.viol].Model
			} else {
				nmodel = rr.r.Witnesses[ref.wit].Model
				}
			for _, e := range o.Events {
				if strings.HasPrefix(e, "FAIL:") && strings.Contains(e, ".native.") {
					nativeFail = strings.TrimPrefix(e, "FAIL:")
				}
			}
			if nativeFail != "" {
				knownID := ""
				for _, e := range o.Events {
					if strings.HasPrefix(e, "known:") && strings.HasSuffix(e, ":"+nativeFail) {
						knownID = strings.TrimSuffix(strings.TrimPrefix(e, "known:"), ":"+nativeFail)
					}
				}
				if kf, ok := known[knownID]; ok && knownID != "" && kf.Status == "known" {
					confirmedViol[ref.res]++
					if !knownPrinted[knownID] {
						knownPrinted[knownID] = true
						fmt.Printf("KNOWN-FINDING: property=%s %s [%s] witness=%s\n", kf.Property, kf.What, kf.ID, modelString(nmodel))
					}
					continue
				}
				confirmedViol[ref.res]++
				totalViol++
				nReplayFile++
				rp := filepath.Join(*verif, "out", "replay", fmt.Sprintf("%s-%s-%d.json", *prop, rr.name, nReplayFile))
				os.MkdirAll(filepath.Dir(rp), 0o755)
				rb, _ := json.MarshalIndent(map[string]any{"property": *prop, "package": h.ImportPath, "harness": rr.name, "label": nativeFail, "kind": "assert",
					"msg": "decided by the native run", "model": nmodel, "module": modulePath, "harness_root": *harnessRoot, "native_status": o.Status, "native_msg": o.Msg, "native_events": o.Events}, "", " ")
				os.WriteFile(rp, rb, 0o644)
				fmt.Printf("VIOLATION property=%s replay=%s\n", *prop, rp)
				fmt.Printf("  harness=%s label=%s kind=assert (native verdict) %s model=%s\n", rr.name, nativeFail, lastRec(o.Events), modelString(nmodel))
				exit = max(exit, 1)
				confirmedViolation = true
				if len(samples) < 12 {
					samples = append(samples, map[string]any{"harness": rr.name, "violation": nativeFail, "model": nmodel})
				}
				continue
			}
			if ref.viol >= 0 {
				v := rr.r.Violations[ref.viol]
				reproduced := false
				switch v.Kind {
				case "assert":
					for _, e := range o.Events {
						if e == "FAIL:"+v.Label {
							reproduced = true
						}
					}
				case "panic":
					reproduced = o.Status == "panic"
				}
				if !reproduced {
					msg := fmt.Sprintf("counterexample for %s/%s (%s) did not reproduce natively (native status %s %s): engine or stub defect", rr.name, v.Label, v.Kind, o.Status, o.Msg)
					fmt.Fprintln(os.Stderr, "INCONCLUSIVE:", msg)
					if b, err := json.Marshal(v.Model); err == nil {
						fmt.Fprintln(os.Stderr, "  model:", string(b))
					}
					inconclusive = append(inconclusive, msg)
					exit = max(exit, 2)
					continue
				}
				confirmedViol[ref.res]++
				if kf, ok := known[v.Known]; ok && v.Known != "" && kf.Status == "known" {
					if !knownPrinted[v.Known] {
						knownPrinted[v.Known] = true
						fmt.Printf("KNOWN-FINDING: property=%s %s [%s] witness=%s\n", kf.Property, kf.What, kf.ID, modelString(v.Model))
					}
					continue
				}
				// a new violation
				totalViol++
				nReplayFile++
				rp := filepath.Join(*verif, "out", "replay", fmt.Sprintf("%s-%s-%d.json", *prop, rr.name, nReplayFile))
				os.MkdirAll(filepath.Dir(rp), 0o755)
				rb, _ := json.MarshalIndent(map[string]any{"property": *prop, "package": h.ImportPath, "harness": rr.name, "label": v.Label, "kind": v.Kind,
					"msg": v.Msg, "model": v.Model, "module": modulePath, "harness_root": *harnessRoot, "native_status": o.Status, "native_msg": o.Msg, "native_events": o.Events, "region": v.Known}, "", " ")
				os.WriteFile(rp, rb, 0o644)
				fmt.Printf("VIOLATION property=%s replay=%s\n", *prop, rp)
				fmt.Printf("  harness=%s label=%s kind=%s %s model=%s\n", rr.name, v.Label, v.Kind, v.Msg, modelString(v.Model))
				exit = max(exit, 1)
				confirmedViolation = true
				if len(samples) < 12 {
					samples = append(samples, map[string]any{"harness": rr.name, "violation": v.Label, "model": v.Model})
				}
				continue
			}
			w := rr.r.Witnesses[ref.wit]
			replayed[ref.res]++
			if !sameOutcome(w, o) {
				mismatch[ref.res]++
				if mismatch[ref.res] <= 3 {
					msg := fmt.Sprintf("witness mismatch in %s: engine predicted status=%s events=%v, native status=%s msg=%s events=%v model=%s",
						rr.name, w.Status, w.Events, o.Status, o.Msg, o.Events, modelString(w.Model))
					fmt.Fprintln(os.Stderr, "INCONCLUSIVE:", msg)
					inconclusive = append(inconclusive, msg)
				}
				exit = max(exit, 2)
			}
		}
		for ri, rr := range results {
			r := rr.r
			he := harnessEvidence{Harness: rr.name, Package: h.ImportPath, Paths: r.Paths, Completed: r.Completed, AssumeFalse: r.AssumeFalse,
				PanicPaths: r.PanicPaths, Queries: r.Queries, SolverTimeS: r.SolverTime.Seconds(), WallS: r.Wall.Seconds(), Steps: r.Steps,
				Exhaustive: r.Exhaustive, Inconclusive: r.Inconclusive, Covers: r.Covers, Replayed: replayed[ri], ReplayMismatch: mismatch[ri],
				Violations: confirmedViol[ri], StatusCount: r.StatusCount}
			evid = append(evid, he)
			totalPaths += r.Paths
			totalCompleted += r.Completed
			totalQueries += r.Queries
			totalReplayed += replayed[ri]
			solverTime += r.SolverTime.Seconds()
			for f := range r.Funcs {
				funcs[f] = true
			}
			for k, n := range r.Intrinsics {
				intr[k] += n
			}
			for c, n := range r.Covers {
				coversReached[c] += n
			}
			if !r.Exhaustive {
				for _, m := range r.Inconclusive {
					fmt.Fprintf(os.Stderr, "INCONCLUSIVE: %s: %s\n", rr.name, m)
					inconclusive = append(inconclusive, rr.name+": "+m)
				}
				exit = max(exit, 2)
			}
			for wi, w := range r.Witnesses {
				if wi < 2 && len(samples) < 12 {
					samples = append(samples, map[string]any{"harness": rr.name, "status": w.Status, "inputs": w.Model, "events": w.Events})
				}
			}
		}
	}
	if !ranAny {
		fmt.Fprintf(os.Stderr, "no harness of %s selected for tier %s\n", *prop, *tier)
		return 2
	}
	// vacuity: every cover label of this property must be reached
	var missing []string
	if re == nil {
		seenLabel := map[string]bool{}
		for _, ls := range coverSrc {
			for _, lab := range ls {
				if seenLabel[lab] {
					continue
				}
				seenLabel[lab] = true
				need := strings.HasPrefix(lab, *prop+".") || (thorough && strings.HasPrefix(lab, *prop+"t."))
				if !thorough && strings.HasPrefix(lab, *prop+".T.") {
					need = false
				}
				if need && coversReached[lab] == 0 {
					missing = append(missing, lab)
				}
			}
		}
		sort.Strings(missing)
		for _, m := range missing {
			msg := "vacuity: cover point " + m + " was never reached"
			fmt.Fprintln(os.Stderr, "INCONCLUSIVE:", msg)
			inconclusive = append(inconclusive, msg)
			exit = max(exit, 2)
		}
	}

	wall := time.Since(t0).Seconds()
	if !*noEvidence {
		fl := make([]string, 0, len(funcs))
		for f := range funcs {
			if strings.Contains(f, "gopher-fleece/gleece") && !strings.Contains(f, "vh_") && !strings.Contains(f, "symx") {
				fl = append(fl, f)
			}
		}
		sort.Strings(fl)
		depFuncs := len(funcs) - len(fl)
		if len(samples) == 0 {
			samples = append(samples, "no completed path")
		}
		ev := map[string]any{
			"property_id": *prop,
			"tier":        *tier,
			"seed":        seed,
			"level":       "model_checking",
			"wall_s":      wall,
			"violations":  totalViol,
			"coverage": map[string]any{
				"states":                        max(totalCompleted, 0),
				"transitions":                   totalQueries,
				"traces_validated_against_impl": totalReplayed,
				"samples":                       samples,
				"exhaustive":                    exit == 0 || exit == 1,
				"paths_executed":                totalPaths,
				"harnesses":                     evid,
				"functions_encoded":             fl,
				"dependency_functions_executed": depFuncs,
				"intrinsics_hit":                intr,
				"cover_points_reached":          coversReached,
				"cover_points_missing":          missing,
				"solver_time_s":                 solverTime,
				"solvers":                       map[string]string{"feasibility": *solver, "verdict_cross_check": *cross},
				"load_s":                        l.loadS,
				"inconclusive":                  inconclusive,
				"known_findings_reported":       keys(knownPrinted),
				"explanation":                   "states = control-flow paths of the harness explored to completion under the stated bounds (each decided feasible by the SMT solver); transitions = SMT queries discharged; every path's witness sampled for native replay had to produce the same event trace when the harness was compiled by the Go toolchain and run on the solver's model.",
			},
			"assumptions": []string{
				"bounds are those coded in the harness functions (symxString/symxInt/symxChoice ranges); nothing outside them is claimed",
				"intrinsic models listed under intrinsics_hit stand in for assembly/unsafe/reflection code",
				"map iteration follows insertion order unless the harness enables symbolic permutation",
			},
		}
		os.MkdirAll(filepath.Join(*verif, "evidence"), 0o755)
		b, _ := json.MarshalIndent(ev, "", " ")
		if err := os.WriteFile(filepath.Join(*verif, "evidence", *prop+".json"), b, 0o644); err != nil {
			fmt.Fprintln(os.Stderr, err)
			return 2
		}
	}
	if confirmedViolation {
		exit = 1
	}
	fmt.Printf("property %s tier %s: paths=%d completed=%d queries=%d replayed=%d new-violations=%d known=%d wall=%.1fs exit=%d\n",
		*prop, *tier, totalPaths, totalCompleted, totalQueries, totalReplayed, totalViol, len(knownPrinted), wall, exit)
	return exit
}

var engineOnlyUsed bool

// engineOnly reports harnesses (name part "_E_") whose environment faults are injected by the engine.
func engineOnly(name string) bool { return strings.Contains(name, "_E_") || strings.HasSuffix(name, "_E") }

func keys(m map[string]bool) []string {
	out := []string{}
	for k := range m {
		out = append(out, k)
	}
	sort.Strings(out)
	return out
}

func firstLine(s string) string {
	if i := strings.IndexByte(s, '\n'); i >= 0 {
		return s[:i]
	}
	return s
}

// lastRec returns the last recorded observation of a native run (the reason a native verdict gives)
func lastRec(events []string) string {
	for k := len(events) - 1; k >= 0; k-- {
		if strings.HasPrefix(events[k], "rec:native-") {
			if len(events[k]) > 400 {
				return events[k][:400]
			}
			return events[k]
		}
	}
	return ""
}

func sameOutcome(w interp.Witness, o nativeOutcome) bool {
	if w.Status != o.Status {
		return false
	}
	if len(w.Events) != len(o.Events) {
		return false
	}
	for i := range w.Events {
		if w.Events[i] != o.Events[i] {
			return false
		}
	}
	return true
}

func modelString(m map[string]uint64) string {
	ks := make([]string, 0, len(m))
	for k := range m {
		ks = append(ks, k)
	}
	sort.Strings(ks)
	// group string bytes
	var sb strings.Builder
	strs := map[string][]byte{}
	for _, k := range ks {
		if i := strings.LastIndexByte(k, '['); i > 0 && strings.HasSuffix(k, "]") {
			base := k[:i]
			idx, err := strconv.Atoi(k[i+1 : len(k)-1])
			if err == nil {
				for len(strs[base]) <= idx {
					strs[base] = append(strs[base], '?')
				}
				strs[base][idx] = byte(m[k])
				continue
			}
		}
	}
	sb.WriteString("{")
	first := true
	for _, k := range ks {
		if i := strings.LastIndexByte(k, '['); i > 0 && strings.HasSuffix(k, "]") {
			continue
		}
		if strings.HasSuffix(k, ".len") {
			base := strings.TrimSuffix(k, ".len")
			if !first {
				sb.WriteString(" ")
			}
			first = false
			fmt.Fprintf(&sb, "%s=%q", base, string(strs[base]))
			continue
		}
		if !first {
			sb.WriteString(" ")
		}
		first = false
		fmt.Fprintf(&sb, "%s=%d", k, int64(m[k]))
	}
	sb.WriteString("}")
	return sb.String()
}

func cmdReplay(args []string) int {
	fs := flag.NewFlagSet("replay", flag.ExitOnError)
	repo := fs.String("repo", "/repo", "repository under test")
	verif := fs.String("verif", "/verif", "verification directory")
	file := fs.String("file", "", "replay file written by a failing check")
	module := fs.String("module", "", "module path of the code under test")
	harnessRoot := fs.String("harness-root", "", "harness root directory")
	fs.Parse(args)
	if *module != "" {
		modulePath = *module
	}
	if *harnessRoot == "" {
		*harnessRoot = filepath.Join(*verif, "harness")
	}
	b, err := os.ReadFile(*file)
	if err != nil {
		fmt.Fprintln(os.Stderr, err)
		return 2
	}
	var rf struct {
		Property string            `json:"property"`
		Package  string            `json:"package"`
		Harness  string            `json:"harness"`
		Label    string            `json:"label"`
		Kind     string            `json:"kind"`
		Model    map[string]uint64 `json:"model"`
	}
	if err := json.Unmarshal(b, &rf); err != nil {
		fmt.Fprintln(os.Stderr, err)
		return 2
	}
	scratch, _ := os.MkdirTemp("", "gosym-replay-")
	defer os.RemoveAll(scratch)
	hs, _, err := discoverHarnesses(*harnessRoot, *repo, rf.Property)
	if err != nil {
		fmt.Fprintln(os.Stderr, err)
		return 2
	}
	for _, h := range hs {
		if h.ImportPath != rf.Package {
			continue
		}
		outs, err := runNative(*repo, h, hs, []nativeCase{{rf.Harness, rf.Model}}, scratch)
		if err != nil {
			fmt.Fprintln(os.Stderr, err)
			return 2
		}
		o := outs[0]
		fmt.Printf("native replay of %s with %s: status=%s msg=%s\nevents=%v\n", rf.Harness, modelString(rf.Model), o.Status, o.Msg, o.Events)
		if o.Status == "panic" || o.Status == "assert-failed" {
			fmt.Printf("VIOLATION property=%s replay=%s\n", rf.Property, *file)
			return 1
		}
		return 0
	}
	fmt.Fprintln(os.Stderr, "package not found:", rf.Package)
	return 2
}
