package main

// Native replay: the same harness functions, compiled by the Go toolchain and
// driven by a concrete model (DESIGN.md 2.6(3), 2.7).

import (
	"encoding/json"
	"fmt"
	"os"
	"os/exec"
	"path/filepath"
	"sort"
	"strings"
	"time"
)

// symxNativeSrc is injected (via overlay) into every package that has harnesses.
const symxNativeSrc = `package %s

import (
	"fmt"
)

var symxModel map[string]uint64
var symxEvents []string
var symxSeen map[string]bool
var symxFresh int

type symxStop struct{ status string }

func symxReset(m map[string]uint64) {
	symxModel = m
	symxEvents = nil
	symxSeen = map[string]bool{}
	symxFresh = 0
	symxNoAsserts = false
}

func symxName(name string) string {
	if symxSeen[name] {
		symxFresh++
		name = fmt.Sprintf("%%s#%%d", name, symxFresh)
	}
	symxSeen[name] = true
	return name
}

func symxBool(name string) bool { return symxModel[symxName(name)] == 1 }

func symxByte(name string, alphabet string) byte { return byte(symxModel[symxName(name)]) }

func symxInt(name string, lo, hi int) int {
	if lo == hi {
		return lo
	}
	return int(int64(symxModel[symxName(name)]))
}

func symxChoice(name string, n int) int { return int(symxModel[name]) }

func symxStub(name string, n int) int { return int(symxModel[name]) }

func symxString(name string, minLen, maxLen int, alphabet string) string {
	n := int(symxModel[name+".len"])
	b := make([]byte, n)
	for i := range b {
		b[i] = byte(symxModel[symxName(fmt.Sprintf("%%s[%%d]", name, i))])
	}
	return string(b)
}

func symxAssume(c bool) {
	if !c {
		panic(symxStop{"assume-false"})
	}
}

var symxNoAsserts bool

func symxAssertionsOff() { symxNoAsserts = true }

func symxAssert(c bool, label string) {
	if symxNoAsserts {
		return
	}
	symxEvents = append(symxEvents, "assert:"+label)
	if !c {
		symxEvents = append(symxEvents, "FAIL:"+label)
		panic(symxStop{"assert-failed"})
	}
}

func symxCover(label string) { symxEvents = append(symxEvents, "cover:"+label) }

func symxKnown(id string, region bool) {}

func symxKnownFor(id string, label string, region bool) {
	if region && symxHasNative(label) {
		symxEvents = append(symxEvents, "known:"+id+":"+label)
	}
}

func symxHasNative(label string) bool {
	for i := 0; i+8 <= len(label); i++ {
		if label[i:i+8] == ".native." {
			return true
		}
	}
	return false
}

func symxPermuteMaps(on bool) {}

func symxPermuteMapsTwoOrders(on bool) {}

func symxRealLibrary(name string) {}

// symxAtExit registers a clean-up to run after the last replayed case of this test process.
var symxAtExitFns []func()

func symxAtExit(f func()) { symxAtExitFns = append(symxAtExitFns, f) }

func symxPanicMode(mode string) {}

func symxIsSymbolic() bool { return false }

func symxNoWitnessReplay() {}

func symxEnvLog() []string { return nil }

func symxRecord(label string, vals ...any) {
	s := "rec:" + label + "="
	for i, v := range vals {
		if i > 0 {
			s += "|"
		}
		s += fmt.Sprintf("%%v", v)
	}
	symxEvents = append(symxEvents, s)
}
`

const symxTestSrc = `package %s

import (
	"encoding/json"
	"fmt"
	"os"
	"testing"
)

type symxCase struct {
	Harness string            ` + "`json:\"harness\"`" + `
	Model   map[string]uint64 ` + "`json:\"model\"`" + `
}

type symxOutcome struct {
	Status string   ` + "`json:\"status\"`" + `
	Msg    string   ` + "`json:\"msg\"`" + `
	Events []string ` + "`json:\"events\"`" + `
}

var symxHarnesses = map[string]func(){
%s}

func symxRunOne(c symxCase) (out symxOutcome) {
	f := symxHarnesses[c.Harness]
	if f == nil {
		return symxOutcome{Status: "missing", Msg: "no harness " + c.Harness}
	}
	symxReset(c.Model)
	defer func() {
		out.Events = symxEvents
		if r := recover(); r != nil {
			if s, ok := r.(symxStop); ok {
				out.Status = s.status
				return
			}
			out.Status = "panic"
			out.Msg = fmt.Sprint(r)
			out.Events = append(out.Events, "panic")
		}
	}()
	f()
	out.Status = "ok"
	return
}

func TestSymxReplay(t *testing.T) {
	in, err := os.ReadFile(os.Getenv("SYMX_CASES"))
	if err != nil {
		t.Fatal(err)
	}
	var cases []symxCase
	if err := json.Unmarshal(in, &cases); err != nil {
		t.Fatal(err)
	}
	outs := make([]symxOutcome, len(cases))
	for i, c := range cases {
		outs[i] = symxRunOne(c)
	}
	for _, f := range symxAtExitFns {
		f()
	}
	b, _ := json.Marshal(outs)
	if err := os.WriteFile(os.Getenv("SYMX_OUT"), b, 0o644); err != nil {
		t.Fatal(err)
	}
}
`

type nativeCase struct {
	Harness string            `json:"harness"`
	Model   map[string]uint64 `json:"model"`
}

type nativeOutcome struct {
	Status string   `json:"status"`
	Msg    string   `json:"msg"`
	Events []string `json:"events"`
}

// pkgHarness describes one package that carries harness files.
type pkgHarness struct {
	ImportPath string
	Dir        string   // directory under /repo
	PkgName    string   // Go package name
	Files      []string // harness source files under /verif/harness
	Funcs      []string // vh_* function names
}

// overlayFor returns the overlay map (virtual path -> real file) for native builds, writing
// generated files into scratch.
func overlayFor(pkgs []*pkgHarness, scratch string, withTest bool) (map[string]string, error) {
	ov := map[string]string{}
	for _, p := range pkgs {
		for _, f := range p.Files {
			ov[filepath.Join(p.Dir, filepath.Base(f))] = f
		}
		tag := strings.ReplaceAll(p.ImportPath, "/", "_")
		nat := filepath.Join(scratch, tag+"_zz_symx.go")
		if err := os.WriteFile(nat, []byte(fmt.Sprintf(symxNativeSrc, p.PkgName)), 0o644); err != nil {
			return nil, err
		}
		ov[filepath.Join(p.Dir, "zz_symx.go")] = nat
		if withTest {
			var sb strings.Builder
			fs := append([]string(nil), p.Funcs...)
			sort.Strings(fs)
			for _, fn := range fs {
				fmt.Fprintf(&sb, "\t%q: %s,\n", fn, fn)
			}
			tf := filepath.Join(scratch, tag+"_zz_symx_test.go")
			if err := os.WriteFile(tf, []byte(fmt.Sprintf(symxTestSrc, p.PkgName, sb.String())), 0o644); err != nil {
				return nil, err
			}
			ov[filepath.Join(p.Dir, "zz_symx_test.go")] = tf
		}
	}
	return ov, nil
}

// runNative runs the cases of one package natively and returns the outcomes.
func runNative(repo string, p *pkgHarness, all []*pkgHarness, cases []nativeCase, scratch string) ([]nativeOutcome, error) {
	if len(cases) == 0 {
		return nil, nil
	}
	ov, err := overlayFor(all, scratch, false)
	if err != nil {
		return nil, err
	}
	// the test file only for the package under replay
	ov2, err := overlayFor([]*pkgHarness{p}, scratch, true)
	if err != nil {
		return nil, err
	}
	for k, v := range ov2 {
		ov[k] = v
	}
	ovFile := filepath.Join(scratch, "overlay.json")
	b, _ := json.Marshal(map[string]any{"Replace": ov})
	if err := os.WriteFile(ovFile, b, 0o644); err != nil {
		return nil, err
	}
	tag := strings.ReplaceAll(p.ImportPath, "/", "_")
	casesFile := filepath.Join(scratch, tag+"_cases.json")
	outFile := filepath.Join(scratch, tag+"_out.json")
	cb, _ := json.Marshal(cases)
	if err := os.WriteFile(casesFile, cb, 0o644); err != nil {
		return nil, err
	}
	os.Remove(outFile)
	cmd := exec.Command("go", "test", "-vet=off", "-count=1", "-timeout", "20m", "-overlay", ovFile, "-run", "^TestSymxReplay$", p.ImportPath)
	cmd.Dir = repo
	// harnesses that need real files (front-end fixtures) write them under os.TempDir(): give every replay its own
	tmp := filepath.Join(scratch, "tmp")
	os.MkdirAll(tmp, 0o755)
	cmd.Env = append(os.Environ(), "SYMX_CASES="+casesFile, "SYMX_OUT="+outFile, "GOFLAGS=-mod=mod", "GOPROXY=off", "TMPDIR="+tmp, "GOTMPDIR="+scratch)
	t0 := time.Now()
	out, err := cmd.CombinedOutput()
	_ = t0
	ob, rerr := os.ReadFile(outFile)
	if rerr != nil {
		return nil, fmt.Errorf("native replay of %s failed: %v\n%s", p.ImportPath, err, tail(string(out), 4000))
	}
	var outs []nativeOutcome
	if err := json.Unmarshal(ob, &outs); err != nil {
		return nil, err
	}
	if len(outs) != len(cases) {
		return nil, fmt.Errorf("native replay returned %d outcomes for %d cases", len(outs), len(cases))
	}
	return outs, nil
}

func tail(s string, n int) string {
	if len(s) > n {
		return s[len(s)-n:]
	}
	return s
}
