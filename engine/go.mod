module gosym

go 1.24.7

require (
	golang.org/x/tools v0.39.0
	github.com/titanous/json5 v1.0.0
)

require (
	golang.org/x/mod v0.30.0 // indirect
	golang.org/x/sync v0.18.0 // indirect
)
