package symboldg

import (
	"go/ast"
	"go/token"
	"time"

	"github.com/gopher-fleece/gleece/v2/common"
	"github.com/gopher-fleece/gleece/v2/core/metadata"
	"github.com/gopher-fleece/gleece/v2/gast"
	"github.com/gopher-fleece/gleece/v2/graphs"
)

// ---- plain set-of-nodes / set-of-edges model (slices and linear scans only)

type vhNode struct {
	base string // name
	ver  string // version hash
	kind common.SymKind
}

type vhEdge struct {
	from, to string
	kind     SymbolEdgeKind
}

type vhModel struct {
	nodes []vhNode
	edges []vhEdge
}

func (m *vhModel) nodeIdx(base string) int {
	for i := range m.nodes {
		if m.nodes[i].base == base {
			return i
		}
	}
	return -1
}

func (m *vhModel) hasEdge(from, to string, kind SymbolEdgeKind) bool {
	for _, e := range m.edges {
		if e.from == from && e.to == to && e.kind == kind {
			return true
		}
	}
	return false
}

func (m *vhModel) addEdge(from, to string, kind SymbolEdgeKind) {
	if !m.hasEdge(from, to, kind) {
		m.edges = append(m.edges, vhEdge{from, to, kind})
	}
}

// removeEdges removes from->to edges of the given kind ("" = every kind)
func (m *vhModel) removeEdges(from, to string, kind SymbolEdgeKind) {
	var out []vhEdge
	for _, e := range m.edges {
		if e.from == from && e.to == to && (kind == "" || e.kind == kind) {
			continue
		}
		out = append(out, e)
	}
	m.edges = out
}

func vhIn(set []string, s string) bool {
	for _, x := range set {
		if x == s {
			return true
		}
	}
	return false
}

// removeNode: remove the node, every edge touching it, and (to a fixpoint) every dependant
// (a node with an edge to a removed node) that is left without an edge to a remaining node.
func (m *vhModel) removeNode(base string) {
	if m.nodeIdx(base) < 0 {
		return
	}
	removed := []string{base}
	for changed := true; changed; {
		changed = false
		for _, n := range m.nodes {
			if vhIn(removed, n.base) {
				continue
			}
			dependant, keeps := false, false
			for _, e := range m.edges {
				if e.from != n.base {
					continue
				}
				if vhIn(removed, e.to) {
					dependant = true
				} else if m.nodeIdx(e.to) >= 0 {
					keeps = true
				}
			}
			if dependant && !keeps {
				removed = append(removed, n.base)
				changed = true
			}
		}
	}
	var nodes []vhNode
	for _, n := range m.nodes {
		if !vhIn(removed, n.base) {
			nodes = append(nodes, n)
		}
	}
	m.nodes = nodes
	var edges []vhEdge
	for _, e := range m.edges {
		if vhIn(removed, e.from) || vhIn(removed, e.to) {
			continue
		}
		edges = append(edges, e)
	}
	m.edges = edges
}

func (m *vhModel) addNode(base, ver string, kind common.SymKind) {
	if i := m.nodeIdx(base); i >= 0 {
		if m.nodes[i].ver == ver {
			return // re-insertion changes nothing
		}
		m.removeNode(base) // newer version replaces the stale one
	}
	m.nodes = append(m.nodes, vhNode{base, ver, kind})
}

// ---- operands

func vhVersion(hash string) *gast.FileVersion {
	return &gast.FileVersion{Path: "f.go", ModTime: time.Time{}, Hash: hash}
}

func vhKey(name, hash string) graphs.SymbolKey {
	return graphs.NewSymbolKey(&ast.Ident{Name: name, NamePos: token.Pos(1)}, vhVersion(hash))
}

func vhSymName(tag string) string { return symxString(tag, 1, 1, "abc") }
func vhSymHash(tag string, versions bool) string {
	if !versions {
		return "1"
	}
	return symxString(tag, 1, 1, "12")
}
func vhSymKind(tag string) SymbolEdgeKind { return SymbolEdgeKind(symxString(tag, 1, 1, "xy")) }

// ---- comparison of the graph's public answers with the model

func vhCountEdges(m map[string]SymbolEdgeDescriptor, from, to string, kind SymbolEdgeKind) int {
	n := 0
	for _, d := range m {
		if d.Edge.From.Name == from && d.Edge.To.Name == to && d.Edge.Kind == kind {
			n++
		}
	}
	return n
}

func vhHasNode(ns []*SymbolNode, name string) bool {
	for _, n := range ns {
		if n.Id.Name == name {
			return true
		}
	}
	return false
}

func (m *vhModel) reach(from string, out []string) []string {
	for _, e := range m.edges {
		if e.from == from && m.nodeIdx(e.to) >= 0 && !vhIn(out, e.to) {
			out = append(out, e.to)
			out = m.reach(e.to, out)
		}
	}
	return out
}

var vhNames = []string{"a", "b", "c"}
var vhKinds = []SymbolEdgeKind{"x", "y"}

func vhCompare(g *SymbolGraph, m *vhModel, step string, knownEdgeKindLoss bool) {
	for _, name := range vhNames {
		key := vhKey(name, "1")
		mi := m.nodeIdx(name)
		symxAssert(g.Exists(key) == (mi >= 0), "C17.exists")
		node := g.Get(key)
		if mi >= 0 {
			symxCover("C17.node-present")
			symxAssert(node != nil && node.Id.Name == name, "C17.get")
			if node != nil {
				symxAssert(node.Version.Hash == m.nodes[mi].ver, "C17.version-is-latest")
				symxAssert(node.Kind == m.nodes[mi].kind, "C17.kind")
			}
		}
		// edges touching `name`: outgoing iff incoming view, each exactly once
		all := g.GetEdges(key, nil)
		total := 0
		for _, other := range vhNames {
			for _, k := range vhKinds {
				wantOut, wantIn := 0, 0
				if m.hasEdge(name, other, k) {
					wantOut = 1
				}
				if m.hasEdge(other, name, k) {
					wantIn = 1
				}
				if wantIn == 1 {
					symxCover("C17.incoming-edge")
				}
				symxAssert(vhCountEdges(all, name, other, k) == wantOut, "C17.edges.outgoing")
				if other != name {
					symxAssert(vhCountEdges(all, other, name, k) == wantIn, "C17.edges.incoming")
					total += wantIn
				}
				total += wantOut
			}
		}
		symxAssert(len(all) == total, "C17.edges.no-extra")
		if node == nil {
			continue
		}
		children := g.Children(node, nil)
		parents := g.Parents(node, nil)
		desc := g.Descendants(node, nil)
		reach := m.reach(name, nil)
		for _, other := range vhNames {
			oi := m.nodeIdx(other)
			wantChild, wantParent := false, false
			for _, k := range vhKinds {
				if oi >= 0 && m.hasEdge(name, other, k) {
					wantChild = true
				}
				if oi >= 0 && m.hasEdge(other, name, k) {
					wantParent = true
				}
			}
			symxAssert(vhHasNode(children, other) == wantChild, "C17.children")
			symxAssert(vhHasNode(parents, other) == wantParent, "C17.parents")
			symxAssert(vhHasNode(desc, other) == vhIn(reach, other), "C17.descendants")
		}
	}
	consts := g.FindByKind(common.SymKindConstant)
	aliases := g.FindByKind(common.SymKindAlias)
	nc, na := 0, 0
	for _, n := range m.nodes {
		if n.kind == common.SymKindConstant {
			nc++
			symxAssert(vhHasNode(consts, n.base), "C17.findbykind")
		} else {
			na++
			symxAssert(vhHasNode(aliases, n.base), "C17.findbykind")
		}
	}
	symxAssert(len(consts) == nc && len(aliases) == na, "C17.findbykind.count")
}

func vhC17Histories(steps int, versions bool) {
	g := NewSymbolGraph()
	m := &vhModel{}
	vhC17Steps(&g, m, steps, versions)
	vhCompare(&g, m, "end", false)
}

// histories that continue from prepared states no three-step history reaches: a node with one edge to a node and
// one to a key that was never added, a chain of three nodes, a node with edges of two kinds to the same node
func vhC17FromStates(steps int) {
	g := NewSymbolGraph()
	m := &vhModel{}
	addNode := func(name string) {
		_, err := g.AddConst(CreateConstNode{Data: metadata.ConstMeta{SymNodeMeta: metadata.SymNodeMeta{
			Name: name, Node: &ast.Ident{Name: name, NamePos: 1}, FVersion: vhVersion("1")}}})
		symxAssert(err == nil, "C17.add-node.no-error")
		m.addNode(name, "1", common.SymKindConstant)
	}
	addEdge := func(from, to string, k SymbolEdgeKind) {
		g.AddEdge(vhKey(from, "1"), vhKey(to, "1"), k, nil)
		m.addEdge(from, to, k)
	}
	switch symxChoice("state", 3) {
	case 0:
		addNode("a")
		addNode("b")
		addEdge("a", "b", "x")
		addEdge("a", "c", "y") // c was never added
	case 1:
		addNode("a")
		addNode("b")
		addNode("c")
		addEdge("a", "b", "x")
		addEdge("b", "c", "x")
	default:
		addNode("a")
		addNode("b")
		addEdge("a", "b", "x")
		addEdge("a", "b", "y")
		addEdge("b", "a", "x")
	}
	symxCover("C17.prepared-state")
	vhC17Steps(&g, m, steps, false)
	vhCompare(&g, m, "end", false)
}

func vhC17Steps(g *SymbolGraph, m *vhModel, steps int, versions bool) {
	for s := 0; s < steps; s++ {
		tag := "s" + string(rune('0'+s))
		switch symxChoice(tag+".op", 5) {
		case 0: // add a node (constant)
			name, hash := vhSymName(tag+".n"), vhSymHash(tag+".h", versions)
			symxCover("C17.op.add-node")
			_, err := g.AddConst(CreateConstNode{Data: metadata.ConstMeta{SymNodeMeta: metadata.SymNodeMeta{
				Name: name, Node: &ast.Ident{Name: name, NamePos: 1}, FVersion: vhVersion(hash)}}})
			symxAssert(err == nil, "C17.add-node.no-error")
			m.addNode(name, hash, common.SymKindConstant)
		case 1: // add a node (alias)
			name, hash := vhSymName(tag+".n"), vhSymHash(tag+".h", versions)
			symxCover("C17.op.add-alias")
			_, err := g.AddAlias(CreateAliasNode{Data: metadata.AliasMeta{SymNodeMeta: metadata.SymNodeMeta{
				Name: name, Node: &ast.Ident{Name: name, NamePos: 1}, FVersion: vhVersion(hash)}}})
			symxAssert(err == nil, "C17.add-node.no-error")
			m.addNode(name, hash, common.SymKindAlias)
		case 2: // add an edge
			from, to, k := vhSymName(tag+".f"), vhSymName(tag+".t"), vhSymKind(tag+".k")
			symxCover("C17.op.add-edge")
			g.AddEdge(vhKey(from, vhSymHash(tag+".fh", versions)), vhKey(to, vhSymHash(tag+".th", versions)), k, nil)
			m.addEdge(from, to, k)
		case 3: // remove an edge (one kind or all kinds)
			from, to := vhSymName(tag+".f"), vhSymName(tag+".t")
			fk, tk := vhKey(from, vhSymHash(tag+".fh", versions)), vhKey(to, vhSymHash(tag+".th", versions))
			symxCover("C17.op.remove-edge")
			if symxBool(tag + ".allkinds") {
				g.RemoveEdge(fk, tk, nil)
				m.removeEdges(from, to, "")
			} else {
				k := vhSymKind(tag + ".k")
				g.RemoveEdge(fk, tk, &k)
				m.removeEdges(from, to, k)
			}
		case 4: // remove a node
			name := vhSymName(tag + ".n")
			symxCover("C17.op.remove-node")
			g.RemoveNode(vhKey(name, vhSymHash(tag+".h", versions)))
			m.removeNode(name)
		}
	}
}

func vh_C17_histories3_Q()   { vhC17Histories(3, false) }
func vh_C17_from_states2_Q() { vhC17FromStates(2) }
func vh_C17_from_states3_T() { vhC17FromStates(3) }

func vh_C17_versions3_Q()  { vhC17Histories(3, true) }
func vh_C17_histories4_T() { vhC17Histories(4, false) }

// C14: graph operations never panic
func vh_C14_graph_Q() {
	symxAssertionsOff()
	vhC17Histories(3, true)
}
