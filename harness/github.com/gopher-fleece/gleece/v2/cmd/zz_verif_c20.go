package cmd

// C20, first clause, at the command level (engine-only: the configuration file comes from a stand-in file system):
// LoadGleeceConfig = read + JSON5 + validation; a configuration that violates a constraint makes every generate
// command fail with a message naming the field before any source analysis starts, and nothing is written.

import (
	"strings"

	"github.com/gopher-fleece/gleece/v2/cmd/arguments"
)

// VhFileContents is what the stand-in os.ReadFile serves (path -> content).
var VhFileContents map[string]string

func vhConfigText(engine, openapi, baseUrl, title, perms, routesOut, specOut, schemeType, email string) string {
	contact := ""
	if email != "" {
		contact = `, contact: { name: "n", email: "` + email + `" }`
	}
	return `{
	// JSON5: comments and unquoted keys are fine
	commonConfig: { controllerGlobs: ["./*.go"] },
	routesConfig: {
		engine: "` + engine + `", outputPath: "` + routesOut + `", outputFilePerms: "` + perms + `",
		authorizationConfig: { authFileFullPackageName: "example.com/auth", enforceSecurityOnAllRoutes: false },
	},
	openapiGeneratorConfig: {
		openapi: "` + openapi + `",
		info: { title: "` + title + `", version: "1.0.0"` + contact + ` },
		baseUrl: "` + baseUrl + `",
		securitySchemes: [ { description: "k", name: "s", fieldName: "x", type: "` + schemeType + `", in: "header" } ],
		defaultSecurity: { name: "s", scopes: [] },
		specGeneratorConfig: { outputPath: "` + specOut + `" },
	},
}`
}

func vh_C20_load_config_E_Q() {
	if !symxIsSymbolic() {
		return
	}
	f := []string{"gin", "3.0.0", "https://api.example.com", "t", "0644", "./dist/routes.go", "./dist/spec.json", "apiKey", ""}
	field := ""
	switch symxChoice("corruption", 12) {
	case 0:
	case 1:
		f[0], field = "express", "Engine"
	case 2:
		f[1], field = "2.0", "OpenAPI"
	case 3:
		f[2], field = "/api/v1", "BaseURL"
	case 4:
		f[3], field = "", "Title"
	case 5:
		f[4], field = "0999", "OutputFilePerms"
	case 6:
		f[5], field = "", "OutputPath"
	case 7:
		f[6], field = "", "OutputPath"
	case 8:
		f[7], field = "bogus", "Type"
	case 9:
		f[8], field = "not-an-email", "Email"
	case 10:
		f[8] = "dev@example.com"
	case 11:
		f[0], f[1] = "chi", "3.1.0"
	}
	VhFileContents = map[string]string{"/project/gleece.config.json": vhConfigText(f[0], f[1], f[2], f[3], f[4], f[5], f[6], f[7], f[8])}
	cfg, err := LoadGleeceConfig("/project/gleece.config.json")
	for _, e := range symxEnvLog() {
		if e == "stub:os.ReadFile=fail" {
			// the stand-in file system refused the read: an error whatever the file holds
			symxCover("C20.load.unreadable")
			symxAssert(err != nil, "C20.load.unreadable-configuration-is-an-error")
			return
		}
	}
	if field == "" {
		symxCover("C20.load.valid")
		symxAssert(err == nil && cfg != nil, "C20.load.valid-configuration-is-accepted")
		if cfg != nil {
			symxAssert(string(cfg.RoutesConfig.Engine) == f[0] && cfg.OpenAPIGeneratorConfig.OpenAPI == f[1] && cfg.OpenAPIGeneratorConfig.BaseURL == f[2] &&
				cfg.RoutesConfig.OutputPath == f[5] && cfg.OpenAPIGeneratorConfig.SpecGeneratorConfig.OutputPath == f[6], "C20.load.fields-are-read-literally")
		}
		return
	}
	symxCover("C20.load.corrupted")
	symxAssert(err != nil, "C20.load.violated-constraint-is-rejected")
	if err != nil {
		symxAssert(strings.Contains(err.Error(), "'"+field+"'"), "C20.load.message-names-the-field")
	}
	// every generate command fails the same way, before any source analysis and without writing anything
	before := len(symxEnvLog())
	for _, run := range []func(arguments.CliArguments) error{GenerateSpec, GenerateRoutes, GenerateSpecAndRoutes} {
		cmdErr := run(arguments.CliArguments{ConfigPath: "/project/gleece.config.json"})
		symxAssert(cmdErr != nil, "C20.load.command-fails")
		if cmdErr != nil && !strings.Contains(cmdErr.Error(), "could not read config file") {
			symxAssert(strings.Contains(cmdErr.Error(), "'"+field+"'"), "C20.load.command-fails-naming-the-field")
		}
	}
	for _, e := range symxEnvLog()[before:] {
		ok := strings.HasPrefix(e, "os.ReadFile:") || strings.HasPrefix(e, "stub:os.ReadFile") || strings.HasPrefix(e, "json5.") || strings.HasPrefix(e, "os.Stat:")
		symxAssert(ok, "C20.load.nothing-but-reading-the-configuration-happens")
	}
}
