package arbitrators

import (
	"go/ast"
	"go/token"

	"golang.org/x/tools/go/packages"
)

// C13 (file enumeration): the order in which the source files are handed to the visitors decides the order of a
// controller's receivers (controller.visitor.go walks GetAllSourceFiles) and the graph's insertion order, so it
// must not depend on map iteration order.
func vhSourceFiles(n int) {
	symxNoWitnessReplay()
	paths := make([]string, n)
	for i := range paths {
		paths[i] = "/p/" + symxString("file"+string(rune('0'+i)), 1, 1, "abc") + ".go"
		for j := 0; j < i; j++ {
			symxAssume(paths[j] != paths[i])
		}
	}
	rounds := 1
	if !symxIsSymbolic() {
		rounds = 40 // natively the order is the runtime's random choice: repeat
	}
	same := true
	for r := 0; r < rounds; r++ {
		mk := func() *PackagesFacade {
			f := &PackagesFacade{
				fileSet:        token.NewFileSet(),
				files:          make(map[string]*ast.File),
				fileToPackage:  make(map[string]*packages.Package),
				packagesCache:  make(map[string]*packages.Package),
				packageToFiles: map[string][]*ast.File{},
			}
			for _, p := range paths {
				f.files[p] = &ast.File{Name: ast.NewIdent(p)}
			}
			return f
		}
		f1, f2 := mk(), mk()
		symxPermuteMaps(true)
		l1, l2 := f1.GetAllSourceFiles(), f2.GetAllSourceFiles()
		symxPermuteMaps(false)
		if len(l1) != n || len(l2) != n {
			symxAssert(false, "C13.source-files.all-files-listed")
			return
		}
		for k := range l1 {
			if l1[k].Name.Name != l2[k].Name.Name {
				same = false
			}
		}
	}
	symxCover("C13.source-files.compared")
	symxAssert(same, "C13.source-files.two-runs-enumerate-files-in-the-same-order")
}

func vh_C13_source_files_Q() { vhSourceFiles(3) }

// VhNewFacade builds an empty facade (no globbing, no package loading) for harnesses of other packages.
func VhNewFacade() *PackagesFacade {
	return &PackagesFacade{
		fileSet:        token.NewFileSet(),
		files:          make(map[string]*ast.File),
		fileToPackage:  make(map[string]*packages.Package),
		packagesCache:  make(map[string]*packages.Package),
		packageToFiles: map[string][]*ast.File{},
	}
}
