package arbitrators

import (
	"go/ast"
	"go/token"

	"golang.org/x/tools/go/packages"
)

// C13 (file enumeration): the order in which the source files are handed to the visitors decides the order of a
// controller's receivers (controller.visitor.go walks GetAllSourceFiles) and the graph's insertion order, so it
// must not depend on map iteration order.
func vhSourceFiles(n int) {
	symxNoWitnessReplay()
	paths := make([]string, n)
	for i := range paths {
		paths[i] = "/p/" + symxString("file"+string(rune('0'+i)), 1, 1, "abc") + ".go"
		for j := 0; j < i; j++ {
			symxAssume(paths[j] != paths[i])
		}
	}
	rounds := 1
	if !symxIsSymbolic() {
		rounds = 40 // natively the order is the runtime's random choice: repeat
	}
	same := true
	for r := 0; r < rounds; r++ {
		mk := func() *PackagesFacade {
			f := &PackagesFacade{
				fileSet:        token.NewFileSet(),
				files:          make(map[string]*ast.File),
				sourceFiles:    make(map[string]struct{}),
				fileToPackage:  make(map[string]*packages.Package),
				packagesCache:  make(map[string]*packages.Package),
				packageToFiles: map[string][]*ast.File{},
			}
			for _, p := range paths {
				f.files[p] = &ast.File{Name: ast.NewIdent(p)}
				f.sourceFiles[p] = struct{}{}
			}
			return f
		}
		f1, f2 := mk(), mk()
		symxPermuteMaps(true)
		l1, l2 := f1.GetAllSourceFiles(), f2.GetAllSourceFiles()
		symxPermuteMaps(false)
		if len(l1) != n || len(l2) != n {
			symxAssert(false, "C13.source-files.all-files-listed")
			return
		}
		for k := range l1 {
			if l1[k].Name.Name != l2[k].Name.Name {
				same = false
			}
		}
	}
	symxCover("C13.source-files.compared")
	symxAssert(same, "C13.source-files.two-runs-enumerate-files-in-the-same-order")
}

func vh_C13_source_files_Q() { vhSourceFiles(3) }

// VhNewFacade builds an empty facade (no globbing, no package loading) for harnesses of other packages.
func VhNewFacade() *PackagesFacade {
	return &PackagesFacade{
		fileSet:        token.NewFileSet(),
		files:          make(map[string]*ast.File),
		sourceFiles:    make(map[string]struct{}),
		fileToPackage:  make(map[string]*packages.Package),
		packagesCache:  make(map[string]*packages.Package),
		packageToFiles: map[string][]*ast.File{},
	}
}

// VhLoadResult is what the engine's stand-in for packages.Load hands back (the go command is environment).
var VhLoadResult []*packages.Package

// C20 (glob filter, engine-only: the package loader is a stand-in): loading the package directories touched by the
// globs registers exactly the files the globs matched - whatever else the loader finds in those directories - and a
// failed load registers nothing.
func vh_C20_glob_filter_E_Q() {
	if !symxIsSymbolic() {
		return
	}
	f := VhNewFacade()
	names := []string{"/p/a.go", "/p/b.go", "/q/c.go"}
	var syntax []*ast.File
	for _, n := range names {
		tf := f.fileSet.AddFile(n, -1, 100)
		syntax = append(syntax, &ast.File{Package: token.Pos(tf.Base()), Name: ast.NewIdent("p")})
	}
	VhLoadResult = []*packages.Package{
		{PkgPath: "example.com/p", Name: "p", Fset: f.fileSet, Syntax: syntax[:2]},
		{PkgPath: "example.com/q", Name: "q", Fset: f.fileSet, Syntax: syntax[2:]},
	}
	relevant := map[string]struct{}{}
	nMatched := 0
	matched := make([]bool, len(names))
	for k, n := range names {
		if symxBool("matched" + string(rune('0'+k))) {
			relevant[n] = struct{}{}
			matched[k] = true
			nMatched++
		}
	}
	err := f.loadPackagesFiltered([]string{"/p", "/q"}, relevant)
	got := f.GetAllSourceFiles()
	if err != nil {
		symxCover("C20.glob-filter.load-failed")
		symxAssert(len(got) == 0, "C20.glob-filter.failed-load-registers-nothing")
		return
	}
	symxCover("C20.glob-filter.loaded")
	symxAssert(len(got) == nMatched, "C20.glob-filter.only-glob-matched-files-are-source-files")
	for k := range names {
		found := false
		for _, g := range got {
			if g == syntax[k] {
				found = true
			}
		}
		symxAssert(found == matched[k], "C20.glob-filter.file-is-a-source-file-iff-matched")
	}
}

// VhRegister makes a type-checked package and one of its files known to the facade the way a load would.
func VhRegister(f *PackagesFacade, pkg *packages.Package, absPath string, file *ast.File) {
	f.registerParsedFile(absPath, file, pkg, true)
	f.packagesCache[pkg.PkgPath] = pkg
}

// VhCachePackage makes an imported (not globbed) package known to the facade: GetPackage finds it, its files are
// not source files.
func VhCachePackage(f *PackagesFacade, pkg *packages.Package) {
	f.cachePackage(pkg, nil)
}

// C20/C19 (glob filter, on-demand loads; engine-only): a package loaded later because a globbed controller uses one
// of its types (GetPackage, no file filter) must not add its files to the source files the pipeline walks for
// controllers - neither in this analysis nor in a repeated one.
func vh_C20_glob_filter_on_demand_E_Q() {
	if !symxIsSymbolic() {
		return
	}
	f := VhNewFacade()
	mk := func(name string) *ast.File {
		tf := f.fileSet.AddFile(name, -1, 100)
		return &ast.File{Package: token.Pos(tf.Base()), Name: ast.NewIdent("p")}
	}
	a, b := mk("/p/a.go"), mk("/p/b.go")
	r1, r2 := mk("/r/r1.go"), mk("/r/r2.go")
	p := &packages.Package{PkgPath: "example.com/p", Name: "p", Fset: f.fileSet, Syntax: []*ast.File{a, b}}
	r := &packages.Package{PkgPath: "example.com/r", Name: "r", Fset: f.fileSet, Syntax: []*ast.File{r1, r2}}
	VhLoadResult = []*packages.Package{p}
	relevant := map[string]struct{}{"/p/a.go": {}}
	if symxBool("bothMatched") {
		relevant["/p/b.go"] = struct{}{}
	}
	symxAssume(f.loadPackagesFiltered([]string{"/p"}, relevant) == nil)
	before := len(f.GetAllSourceFiles())
	symxAssert(before == len(relevant), "C20.glob-filter.only-glob-matched-files-are-source-files")
	// a visitor resolves a type of package r
	VhLoadResult = []*packages.Package{r}
	var pkg *packages.Package
	var err error
	if symxBool("viaGetPackages") {
		var pkgs []*packages.Package
		pkgs, err = f.GetPackages([]string{"example.com/r"})
		if len(pkgs) == 1 {
			pkg = pkgs[0]
		}
	} else {
		pkg, err = f.GetPackage("example.com/r")
	}
	symxAssume(err == nil)
	symxCover("C20.glob-filter.on-demand-load")
	symxAssert(pkg == r, "C20.glob-filter.on-demand-package-is-served")
	got, _ := f.GetPackageForFile(r1)
	symxAssert(got == r, "C20.glob-filter.on-demand-files-map-to-their-package")
	symxAssert(len(f.GetAllSourceFiles()) == before, "C20.glob-filter.on-demand-load-adds-no-source-files")
}
