package arbitrators

import (
	"go/ast"
	"go/token"

	"golang.org/x/tools/go/packages"
)

// C13 (file enumeration): the order in which the source files are handed to the visitors decides the order of a
// controller's receivers (controller.visitor.go walks GetAllSourceFiles) and the graph's insertion order, so it
// must not depend on map iteration order.
func vhSourceFiles(n int) {
	symxNoWitnessReplay()
	paths := make([]string, n)
	for i := range paths {
		paths[i] = "/p/" + symxString("file"+string(rune('0'+i)), 1, 1, "abc") + ".go"
		for j := 0; j < i; j++ {
			symxAssume(paths[j] != paths[i])
		}
	}
	rounds := 1
	if !symxIsSymbolic() {
		rounds = 40 // natively the order is the runtime's random choice: repeat
	}
	same := true
	for r := 0; r < rounds; r++ {
		mk := func() *PackagesFacade {
			f := &PackagesFacade{
				fileSet:        token.NewFileSet(),
				files:          make(map[string]*ast.File),
				fileToPackage:  make(map[string]*packages.Package),
				packagesCache:  make(map[string]*packages.Package),
				packageToFiles: map[string][]*ast.File{},
			}
			for _, p := range paths {
				f.files[p] = &ast.File{Name: ast.NewIdent(p)}
			}
			return f
		}
		f1, f2 := mk(), mk()
		symxPermuteMaps(true)
		l1, l2 := f1.GetAllSourceFiles(), f2.GetAllSourceFiles()
		symxPermuteMaps(false)
		if len(l1) != n || len(l2) != n {
			symxAssert(false, "C13.source-files.all-files-listed")
			return
		}
		for k := range l1 {
			if l1[k].Name.Name != l2[k].Name.Name {
				same = false
			}
		}
	}
	symxCover("C13.source-files.compared")
	symxAssert(same, "C13.source-files.two-runs-enumerate-files-in-the-same-order")
}

func vh_C13_source_files_Q() { vhSourceFiles(3) }

// VhNewFacade builds an empty facade (no globbing, no package loading) for harnesses of other packages.
func VhNewFacade() *PackagesFacade {
	return &PackagesFacade{
		fileSet:        token.NewFileSet(),
		files:          make(map[string]*ast.File),
		fileToPackage:  make(map[string]*packages.Package),
		packagesCache:  make(map[string]*packages.Package),
		packageToFiles: map[string][]*ast.File{},
	}
}

// VhLoadResult is what the engine's stand-in for packages.Load hands back (the go command is environment).
var VhLoadResult []*packages.Package

// C20 (glob filter, engine-only: the package loader is a stand-in): loading the package directories touched by the
// globs registers exactly the files the globs matched - whatever else the loader finds in those directories - and a
// failed load registers nothing.
func vh_C20_glob_filter_E_Q() {
	if !symxIsSymbolic() {
		return
	}
	f := VhNewFacade()
	names := []string{"/p/a.go", "/p/b.go", "/q/c.go"}
	var syntax []*ast.File
	for _, n := range names {
		tf := f.fileSet.AddFile(n, -1, 100)
		syntax = append(syntax, &ast.File{Package: token.Pos(tf.Base()), Name: ast.NewIdent("p")})
	}
	VhLoadResult = []*packages.Package{
		{PkgPath: "example.com/p", Name: "p", Fset: f.fileSet, Syntax: syntax[:2]},
		{PkgPath: "example.com/q", Name: "q", Fset: f.fileSet, Syntax: syntax[2:]},
	}
	relevant := map[string]struct{}{}
	nMatched := 0
	matched := make([]bool, len(names))
	for k, n := range names {
		if symxBool("matched" + string(rune('0'+k))) {
			relevant[n] = struct{}{}
			matched[k] = true
			nMatched++
		}
	}
	err := f.loadPackagesFiltered([]string{"/p", "/q"}, relevant)
	got := f.GetAllSourceFiles()
	if err != nil {
		symxCover("C20.glob-filter.load-failed")
		symxAssert(len(got) == 0, "C20.glob-filter.failed-load-registers-nothing")
		return
	}
	symxCover("C20.glob-filter.loaded")
	symxAssert(len(got) == nMatched, "C20.glob-filter.only-glob-matched-files-are-source-files")
	for k := range names {
		found := false
		for _, g := range got {
			if g == syntax[k] {
				found = true
			}
		}
		symxAssert(found == matched[k], "C20.glob-filter.file-is-a-source-file-iff-matched")
	}
}

// VhRegister makes a type-checked package and one of its files known to the facade the way a load would.
func VhRegister(f *PackagesFacade, pkg *packages.Package, absPath string, file *ast.File) {
	f.registerParsedFile(absPath, file, pkg)
	f.packagesCache[pkg.PkgPath] = pkg
}

// VhCachePackage makes an imported (not globbed) package known to the facade: GetPackage finds it, its files are
// not source files.
func VhCachePackage(f *PackagesFacade, pkg *packages.Package) {
	f.packagesCache[pkg.PkgPath] = pkg
}
