package annotations

import (
	"unicode/utf8"

	"github.com/gopher-fleece/gleece/v2/gast"
)

// a symbolic text made of ASCII bytes, CR, LF and well-formed 2- and 3-byte sequences
func vhUtf8Text(tag string, maxUnits int) string {
	n := symxChoice(tag+".units", maxUnits+1)
	s := ""
	for i := 0; i < n; i++ {
		u := tag + ".u" + string(rune('0'+i))
		switch symxChoice(u+".kind", 3) {
		case 0:
			s += symxString(u+".a", 1, 1, "a@(\n\r")
		case 1:
			s += "é" // é, 2 bytes
		default:
			s += "€" // €, 3 bytes
		}
	}
	return s
}

// reference: line/col of a byte offset by counting line breaks and runes (CRLF counts once)
func vhRefLineCol(s string, off, startLine, startCol int) (int, int) {
	line, col := startLine, startCol
	rs := []rune(s[:off])
	for i := 0; i < len(rs); i++ {
		switch {
		case rs[i] == '\r':
			if i+1 < len(rs) && rs[i+1] == '\n' {
				i++
			} else if i+1 == len(rs) && off < len(s) && s[off] == '\n' {
				// offset lies between CR and LF: the implementation treats CRLF as one break and
				// has already consumed both bytes
			}
			line++
			col = 0
		case rs[i] == '\n':
			line++
			col = 0
		default:
			col++
		}
	}
	return line, col
}

func vhC18LineCol(maxUnits int) {
	s := vhUtf8Text("t", maxUnits)
	off := symxInt("off", 0, 12)
	symxAssume(off <= len(s))
	// offsets on rune boundaries only (regexp group offsets always are)
	symxAssume(off == len(s) || utf8.RuneStart(s[off]))
	// not between CR and LF
	symxAssume(!(off > 0 && off < len(s) && s[off-1] == '\r' && s[off] == '\n'))
	startLine := symxInt("line", 0, 65535)
	startCol := symxInt("col", 0, 65535)
	line, col := byteOffsetToLineCol(s, off, startLine, startCol)
	wl, wc := vhRefLineCol(s, off, startLine, startCol)
	symxRecord("linecol", line-startLine, col)
	if wl != startLine {
		symxCover("C18.linecol.multiline")
	} else {
		symxCover("C18.linecol.sameline")
	}
	symxAssert(line == wl, "C18.linecol.line")
	symxAssert(col == wc, "C18.linecol.col")
}

// GetValueRange: start<=end, inside the comment's own range, covers text equal to the value
func vhC18ValueRange(maxUnits int) {
	text := "//" + vhUtf8Text("t", maxUnits)
	// single-line comments only (a // comment never contains a line break)
	for i := 0; i < len(text); i++ {
		symxAssume(text[i] != '\n' && text[i] != '\r')
	}
	var value string
	if symxBool("valueFromText") {
		lo := symxInt("lo", 0, 14)
		hi := symxInt("hi", 0, 14)
		symxAssume(lo <= hi && hi <= len(text))
		symxAssume((lo == len(text) || utf8.RuneStart(text[lo])) && (hi == len(text) || utf8.RuneStart(text[hi])))
		value = text[lo:hi]
		symxCover("C18.value.in-text")
	} else {
		value = symxString("other", 1, 2, "ab")
	}
	startLine := symxInt("line", 0, 65535)
	startCol := symxInt("col", 0, 65535)
	nRunes := utf8.RuneCountInString(text)
	attr := Attribute{Name: "x", Value: value, Comment: gast.CommentNode{Text: text,
		Position: gast.CommentPosition{StartLine: startLine, EndLine: startLine, StartCol: startCol, EndCol: startCol + nRunes}}}
	r := attr.GetValueRange()
	symxRecord("range", r.StartLine-startLine, r.StartCol-startCol, r.EndCol-startCol)
	symxAssert(r.StartLine == startLine && r.EndLine == startLine, "C18.range.lines")
	symxAssert(r.StartCol <= r.EndCol, "C18.range.start-not-after-end")
	symxAssert(r.StartCol >= startCol && r.EndCol <= startCol+nRunes, "C18.range.inside-comment")
	// the covered runes equal the value, or (value absent from the text) the range is the whole comment
	rs := []rune(text)
	a, b := r.StartCol-startCol, r.EndCol-startCol
	if a >= 0 && b <= len(rs) && a <= b {
		covered := string(rs[a:b])
		whole := a == 0 && b == len(rs)
		if !whole {
			symxCover("C18.value.covered")
		}
		symxAssert(covered == value || whole, "C18.range.covers-value")
	}
}

func vh_C18_linecol_Q()    { vhC18LineCol(5) }
func vh_C18_linecol_T()    { vhC18LineCol(7) }
func vh_C18_valuerange_Q() { vhC18ValueRange(4) }
func vh_C18_valuerange_T() { vhC18ValueRange(5) }
