package annotations

import (
	"github.com/gopher-fleece/gleece/v2/gast"
)

type vhLine struct {
	isAttr  bool
	text    string // full comment text
	free    string // free text (non attribute lines), as written after "//" and trimmed of spaces
	name    string
	value   string
	hasJson bool
	json    int // index into vhJsons
	desc    string
}

var vhJsons = []string{`{}`, `{a:1}`, `{s:"})"}`, `{s:"}) x", n:{a:1}}`}

func vhTrimSpaces(s string) string {
	i, j := 0, len(s)
	for i < j && s[i] == ' ' {
		i++
	}
	for j > i && s[j-1] == ' ' {
		j--
	}
	return s[i:j]
}

// one comment line assembled from symbolic parts
type vhBounds struct {
	freeAlphabet  string
	freeMax       int
	nameMax       int
	valueAlphabet string
	valueMax      int
	descAlphabet  string
	descMax       int
	jsons         int
}

func vhMakeLine(tag string, b vhBounds) vhLine {
	var l vhLine
	if symxChoice(tag+".kind", 2) == 0 {
		body := symxString(tag+".free", 0, b.freeMax, b.freeAlphabet)
		l.text = "//" + " " + body
		l.free = vhTrimSpaces(" " + body)
		return l
	}
	l.isAttr = true
	switch symxChoice(tag+".namekind", 2) {
	case 0:
		l.name = symxString(tag+".name", 1, b.nameMax, "aZ_9")
	default:
		l.name = "Description"
	}
	l.text = "// @" + l.name
	if symxBool(tag + ".parens") {
		l.value = symxString(tag+".value", 1, b.valueMax, b.valueAlphabet)
		l.text += "(" + l.value
		if symxBool(tag + ".hasjson") {
			l.hasJson = true
			l.json = symxChoice(tag+".json", b.jsons)
			l.text += ","
			if symxBool(tag + ".spaceAfterComma") {
				l.text += " "
			}
			l.text += vhJsons[l.json]
		}
		l.text += ")"
	}
	if symxBool(tag + ".hasdesc") {
		l.desc = symxString(tag+".desc", 1, b.descMax, b.descAlphabet)
		// the description neither starts nor ends with white space (it would be the separator / trimmed)
		symxAssume(l.desc[0] != ' ' && l.desc[len(l.desc)-1] != ' ')
		l.text += " " + l.desc
	}
	return l
}

func vhContains(s, sub string) bool {
	for i := 0; i+len(sub) <= len(s); i++ {
		if s[i:i+len(sub)] == sub {
			return true
		}
	}
	return false
}

func vhC16(nLines int, b vhBounds) {
	lines := make([]vhLine, nLines)
	block := gast.CommentBlock{FileName: "f.go"}
	for i := range lines {
		lines[i] = vhMakeLine("l"+string(rune('0'+i)), b)
		block.Comments = append(block.Comments, gast.CommentNode{
			Text: lines[i].text, Index: i,
			Position: gast.CommentPosition{StartLine: 10 + i, EndLine: 10 + i, StartCol: 4, EndCol: 4 + len(lines[i].text)},
		})
	}
	// the recorded limitation of the grammar: a greedy JSON group swallows a later "})"
	greedy := false
	for _, l := range lines {
		if l.isAttr && l.hasJson && vhContains(l.desc, "})") {
			greedy = true
		}
	}
	symxKnown("C16-greedy-json-group", greedy)

	holder, err := NewAnnotationHolder(block, CommentSourceRoute)
	symxAssert(err == nil, "C16.wellformed-lines-parse-without-error")
	if err != nil {
		return
	}
	attrs := holder.Attributes()
	frees := holder.NonAttributeComments()
	ai, fi := 0, 0
	for i, l := range lines {
		if !l.isAttr {
			symxCover("C16.free-line")
			symxAssert(fi < len(frees), "C16.free-text-kept")
			if fi < len(frees) {
				symxAssert(frees[fi].Index == i && frees[fi].Value == l.free, "C16.free-text-value")
			}
			fi++
			continue
		}
		symxCover("C16.attribute-line")
		symxAssert(ai < len(attrs), "C16.attribute-recognised")
		if ai >= len(attrs) {
			return
		}
		a := attrs[ai]
		ai++
		symxRecord("attr", a.Name, a.Value, a.Description)
		symxAssert(a.Comment.Index == i, "C16.source-order")
		symxAssert(a.Name == l.name, "C16.name")
		symxAssert(a.Value == l.value, "C16.value")
		symxAssert(a.Description == l.desc, "C16.description")
		if l.hasJson {
			symxCover("C16.with-json")
			switch l.json {
			case 0:
				symxAssert(len(a.Properties) == 0, "C16.props")
			case 1:
				v, ok := a.Properties["a"].(float64)
				symxAssert(len(a.Properties) == 1 && ok && v == 1, "C16.props")
			case 2:
				v, ok := a.Properties["s"].(string)
				symxAssert(len(a.Properties) == 1 && ok && v == "})", "C16.props")
			case 3:
				// a string value with the closing sequence followed by a blank, and a nested object after it
				v, ok := a.Properties["s"].(string)
				n, okN := a.Properties["n"].(map[string]any)
				symxAssert(len(a.Properties) == 2 && ok && v == "}) x" && okN && len(n) == 1, "C16.props")
			}
		} else {
			symxAssert(len(a.Properties) == 0, "C16.no-props")
		}
	}
	symxAssert(ai == len(attrs) && fi == len(frees), "C16.nothing-invented")

	// entity description: @Description text if present, otherwise the leading contiguous free-text lines
	want := ""
	found := false
	for _, l := range lines {
		if l.isAttr && l.name == "Description" {
			want, found = l.desc, true
			symxCover("C16.description-attribute")
			break
		}
	}
	if !found {
		var lead []string
		for _, l := range lines {
			if l.isAttr {
				break
			}
			lead = append(lead, l.free)
		}
		for len(lead) > 0 && lead[len(lead)-1] == "" {
			lead = lead[:len(lead)-1]
		}
		for i, s := range lead {
			if i > 0 {
				want += "\n"
			}
			want += s
		}
	}
	symxAssert(holder.GetDescription() == want, "C16.entity-description")
}

// one attribute line, rich description (the regex must not split the line differently from how it was written)
func vh_C16_line_desc_Q() {
	vhC16(1, vhBounds{freeAlphabet: "a ", freeMax: 2, nameMax: 1, valueAlphabet: "a}", valueMax: 1, descAlphabet: "a )},{", descMax: 4, jsons: 4})
}

// one attribute line, rich value
func vh_C16_line_value_Q() {
	vhC16(1, vhBounds{freeAlphabet: "a ", freeMax: 2, nameMax: 2, valueAlphabet: "a-/{} ", valueMax: 3, descAlphabet: "a)", descMax: 1, jsons: 2})
}

// blocks of lines: order, free text, entity description
func vh_C16_block3_Q() {
	vhC16(3, vhBounds{freeAlphabet: "a ", freeMax: 2, nameMax: 1, valueAlphabet: "a", valueMax: 1, descAlphabet: "a", descMax: 1, jsons: 1})
}

// free-text lines with slashes and blanks: only the comment marker and the surrounding blanks are stripped
func vh_C16_freetext_Q() {
	vhC16(2, vhBounds{freeAlphabet: "a /", freeMax: 4, nameMax: 1, valueAlphabet: "a", valueMax: 1, descAlphabet: "a", descMax: 1, jsons: 1})
}

// C14: annotation parsing and description assembly never panic (assertions off, only crashes count)
func vh_C14_annotations_Q() {
	symxAssertionsOff()
	vhC16(2, vhBounds{freeAlphabet: "a /", freeMax: 2, nameMax: 1, valueAlphabet: "a", valueMax: 1, descAlphabet: "a", descMax: 1, jsons: 1})
}

// thorough tier
func vh_C16_line_desc_T() {
	vhC16(1, vhBounds{freeAlphabet: "a /", freeMax: 3, nameMax: 2, valueAlphabet: "a}", valueMax: 2, descAlphabet: "a )},{", descMax: 4, jsons: 4})
}
func vh_C16_freetext_T() {
	vhC16(3, vhBounds{freeAlphabet: "a /", freeMax: 4, nameMax: 1, valueAlphabet: "a", valueMax: 1, descAlphabet: "a", descMax: 1, jsons: 1})
}

// descriptions and free text with characters of more than one byte
func vh_C16_unicode_Q() {
	units := []string{"a", "é", "€", ")", " ", "})"}
	n := 1 + symxChoice("units", 3)
	desc := ""
	for i := 0; i < n; i++ {
		desc += units[symxChoice("u"+string(rune('0'+i)), len(units))]
	}
	symxAssume(desc[0] != ' ' && desc[len(desc)-1] != ' ')
	withJson := symxBool("json")
	text := "// @Name(v"
	if withJson {
		text += `, {s:"é€"}`
	}
	text += ") " + desc
	free := "// " + desc
	block := gast.CommentBlock{FileName: "f.go", Comments: []gast.CommentNode{
		{Text: free, Index: 0, Position: gast.CommentPosition{StartLine: 1, EndLine: 1, StartCol: 0, EndCol: len(free)}},
		{Text: text, Index: 1, Position: gast.CommentPosition{StartLine: 2, EndLine: 2, StartCol: 0, EndCol: len(text)}},
	}}
	symxKnown("C16-greedy-json-group", withJson && vhContains(desc, "})"))
	holder, err := NewAnnotationHolder(block, CommentSourceRoute)
	symxAssert(err == nil, "C16.wellformed-lines-parse-without-error")
	if err != nil {
		return
	}
	attrs := holder.Attributes()
	symxCover("C16.unicode.parsed")
	symxAssert(len(attrs) == 1 && attrs[0].Name == "Name" && attrs[0].Value == "v", "C16.name")
	if len(attrs) != 1 {
		return
	}
	symxAssert(attrs[0].Description == desc, "C16.description")
	if withJson {
		s, ok := attrs[0].Properties["s"].(string)
		symxAssert(ok && s == "é€", "C16.props")
	}
	frees := holder.NonAttributeComments()
	symxAssert(len(frees) == 1 && frees[0].Value == desc, "C16.free-text-value")
	symxAssert(holder.GetDescription() == desc, "C16.entity-description")
}

// malformed JSON5 is reported as an error, never silently dropped or accepted in part
func vh_C16_malformed_json5_Q() {
	bad := []string{`{a:1} }`, `{a:}`, `{a:1,,}`, `{a:1} {b:2}`, `{"a":1 "b":2}`, `{a:[1,}`, `{a:1}}`, `{s:"x}`, `{a:1} oops {}`}
	good := []string{`{a:1}`, `{ a : [1, 2], }`, `{s:'single'}`}
	isBad := symxBool("malformed")
	var props string
	if isBad {
		props = bad[symxChoice("bad", len(bad))]
	} else {
		props = good[symxChoice("good", len(good))]
	}
	text := "// @Name(v, " + props + ")"
	if symxBool("desc") {
		text += " text"
	}
	block := gast.CommentBlock{FileName: "f.go", Comments: []gast.CommentNode{
		{Text: text, Index: 0, Position: gast.CommentPosition{StartLine: 1, EndLine: 1, StartCol: 0, EndCol: len(text)}}}}
	holder, err := NewAnnotationHolder(block, CommentSourceRoute)
	if isBad {
		symxCover("C16.malformed.bad")
		// either the line is not an annotation at all (kept as free text) or it is reported: never an attribute with
		// part of the properties
		if err == nil {
			symxAssert(len(holder.Attributes()) == 0, "C16.malformed-json5-is-never-accepted-in-part")
		}
	} else {
		symxCover("C16.malformed.good")
		symxAssert(err == nil && len(holder.Attributes()) == 1, "C16.wellformed-lines-parse-without-error")
	}
}
