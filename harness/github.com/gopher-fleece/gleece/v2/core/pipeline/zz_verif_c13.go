package pipeline

import (
	"go/ast"
	"go/token"

	"github.com/gopher-fleece/gleece/v2/common"
	"github.com/gopher-fleece/gleece/v2/core/annotations"
	"github.com/gopher-fleece/gleece/v2/core/arbitrators/caching"
	"github.com/gopher-fleece/gleece/v2/core/metadata"
	"github.com/gopher-fleece/gleece/v2/core/metadata/typeref"
	"github.com/gopher-fleece/gleece/v2/core/visitors/providers"
	"github.com/gopher-fleece/gleece/v2/definitions"
	"github.com/gopher-fleece/gleece/v2/gast"
	"github.com/gopher-fleece/gleece/v2/graphs"
	"github.com/gopher-fleece/gleece/v2/graphs/symboldg"
)

func vhD(i int) string { return string(rune('0' + i)) }

// a body parameter of an imported struct type
func vhImportedParam(holder *annotations.AnnotationHolder, fv *gast.FileVersion, name, typeName, pkg string, pos int) metadata.FuncParam {
	key := graphs.NewSymbolKey(&ast.Ident{Name: typeName, NamePos: token.Pos(pos)}, &gast.FileVersion{Path: pkg + "/t.go", Hash: "h"})
	ref := typeref.NewNamedTypeRef(&key, nil)
	return metadata.FuncParam{
		SymNodeMeta: metadata.SymNodeMeta{Name: name, Annotations: holder, FVersion: fv},
		Type: metadata.TypeUsageMeta{
			SymNodeMeta: metadata.SymNodeMeta{Name: typeName, PkgPath: pkg, SymbolKind: common.SymKindStruct, FVersion: fv},
			Import:      common.ImportTypeAlias,
			Root:        &ref,
		},
	}
}

// builds a pipeline whose graph holds nCtrl controllers; controller i has one route with a body
// parameter of imported type T<i> from package p<i mod nPkgs>
// an enum whose constants sort differently by name and by value, registered in graph and cache
func vhAddEnum(g *symboldg.SymbolGraph, cache *caching.MetadataCache) (graphs.SymbolKey, *gast.FileVersion) {
	efv := &gast.FileVersion{Path: "example.com/e/e.go", Hash: "h"}
	node := &ast.Ident{Name: "Prio", NamePos: token.Pos(500)}
	enum := metadata.EnumMeta{
		SymNodeMeta: metadata.SymNodeMeta{Name: "Prio", PkgPath: "example.com/e", Node: node, FVersion: efv, SymbolKind: common.SymKindEnum},
		ValueKind:   metadata.EnumValueKindInt,
	}
	for i, nv := range []struct {
		name string
		val  int
	}{{"PrioHigh", 3}, {"PrioLow", 1}, {"PrioMid", 2}} {
		enum.Values = append(enum.Values, metadata.EnumValueDefinition{
			SymNodeMeta: metadata.SymNodeMeta{Name: nv.name, Node: &ast.Ident{Name: nv.name, NamePos: token.Pos(510 + i)}, FVersion: efv}, Value: nv.val})
	}
	if _, err := g.AddEnum(symboldg.CreateEnumNode{Data: enum}); err != nil {
		symxAssert(false, "C19.enum-fixture-builds")
	}
	cached := enum
	if err := cache.AddEnum(&cached); err != nil {
		symxAssert(false, "C19.enum-fixture-caches")
	}
	return graphs.NewSymbolKey(node, efv), efv
}

func vhEnumParam(holder *annotations.AnnotationHolder, fv *gast.FileVersion, key graphs.SymbolKey) metadata.FuncParam {
	ref := typeref.NewNamedTypeRef(&key, nil)
	return metadata.FuncParam{
		SymNodeMeta: metadata.SymNodeMeta{Name: "p", Annotations: holder, FVersion: fv},
		Ordinal:     1,
		Type: metadata.TypeUsageMeta{
			SymNodeMeta: metadata.SymNodeMeta{Name: "Prio", PkgPath: "example.com/e", SymbolKind: common.SymKindEnum, FVersion: fv},
			Import:      common.ImportTypeAlias,
			Root:        &ref,
		},
	}
}

func vhBuildPipeline(names []string, nPkgs int) *GleecePipeline {
	return vhBuildPipelineEnum(names, nPkgs, false)
}

func vhBuildPipelineEnum(names []string, nPkgs int, withEnum bool) *GleecePipeline {
	g := symboldg.NewSymbolGraph()
	cfg := &definitions.GleeceConfig{}
	cache := caching.NewMetadataCache()
	p := &GleecePipeline{gleeceConfig: cfg, metadataCache: cache, syncedProvider: providers.NewSyncedProvider(), symGraph: &g}
	var enumKey graphs.SymbolKey
	if withEnum {
		enumKey, _ = vhAddEnum(&g, cache)
	}
	for i, name := range names {
		fv := &gast.FileVersion{Path: "ctl" + vhD(i) + ".go", Hash: "h"}
		routeHolder := annotations.NewAnnotationHolderFromData([]annotations.Attribute{
			{Name: annotations.GleeceAnnotationMethod, Value: "POST"}, {Name: annotations.GleeceAnnotationRoute, Value: "/r" + vhD(i)},
			{Name: annotations.GleeceAnnotationBody, Value: "b"}, {Name: annotations.GleeceAnnotationQuery, Value: "p"}}, nil)
		ctrlHolder := annotations.NewAnnotationHolderFromData([]annotations.Attribute{
			{Name: annotations.GleeceAnnotationTag, Value: "T"}, {Name: annotations.GleeceAnnotationRoute, Value: "/c" + vhD(i)}}, nil)
		recv := metadata.ReceiverMeta{
			SymNodeMeta: metadata.SymNodeMeta{Name: "Op" + vhD(i), Annotations: &routeHolder, FVersion: fv, Node: &ast.Ident{Name: "Op" + vhD(i), NamePos: token.Pos(100 + i)}},
			Params:      []metadata.FuncParam{vhImportedParam(&routeHolder, fv, "b", "T"+vhD(i), "example.com/p"+vhD(i%nPkgs), 10+i)},
		}
		if withEnum {
			recv.Params = append(recv.Params, vhEnumParam(&routeHolder, fv, enumKey))
		}
		ctrl := metadata.ControllerMeta{
			Struct: metadata.StructMeta{SymNodeMeta: metadata.SymNodeMeta{Name: name, PkgPath: "example.com/ctl", Annotations: &ctrlHolder, FVersion: fv,
				Node: &ast.Ident{Name: name, NamePos: token.Pos(1 + i)}}},
			Receivers: []metadata.ReceiverMeta{recv},
		}
		if _, err := g.AddController(symboldg.CreateControllerNode{Data: ctrl, Annotations: &ctrlHolder}); err != nil {
			symxAssert(false, "C13.fixture-builds")
		}
	}
	return p
}

type vhFlat struct {
	names      []string
	serials    []uint64
	enumValues []string // value lists of enum-typed parameters, as the routes see them
}

func vhFlatten(cs []definitions.ControllerMetadata) vhFlat {
	var f vhFlat
	for _, c := range cs {
		f.names = append(f.names, c.Name)
		for _, r := range c.Routes {
			for _, p := range r.FuncParams {
				f.serials = append(f.serials, p.UniqueImportSerial)
				if p.TypeMeta.AliasMetadata != nil {
					f.enumValues = append(f.enumValues, p.TypeMeta.AliasMetadata.Values...)
					f.enumValues = append(f.enumValues, "|")
				}
			}
		}
	}
	return f
}

func vhSameFlat(a, b vhFlat) bool {
	if len(a.names) != len(b.names) || len(a.serials) != len(b.serials) {
		return false
	}
	for i := range a.names {
		if a.names[i] != b.names[i] {
			return false
		}
	}
	for i := range a.serials {
		if a.serials[i] != b.serials[i] {
			return false
		}
	}
	if len(a.enumValues) != len(b.enumValues) {
		return false
	}
	for i := range a.enumValues {
		if a.enumValues[i] != b.enumValues[i] {
			return false
		}
	}
	return true
}

// C13: two runs on identical projects, each under an arbitrary map iteration order, give the same
// controllers in the same order with the same import serials
func vhC13(nCtrl int) {
	symxNoWitnessReplay()
	names := make([]string, nCtrl)
	for i := range names {
		// distinct names with a symbolic sort order, possibly differing only by letter case
		names[i] = "C" + symxString("name"+vhD(i), 1, 1, "abB")
		for j := 0; j < i; j++ {
			symxAssume(names[j] != names[i])
		}
	}
	rounds := 1
	if !symxIsSymbolic() {
		rounds = 40 // natively the order is the runtime's random choice: repeat
	}
	same, sorted := true, true
	for r := 0; r < rounds; r++ {
		p1, p2 := vhBuildPipeline(names, 2), vhBuildPipeline(names, 2)
		symxPermuteMaps(true)
		c1, err1 := p1.getReducedControllers()
		c2, err2 := p2.getReducedControllers()
		symxPermuteMaps(false)
		if err1 != nil || err2 != nil {
			symxAssert(false, "C13.reduce-no-error")
			return
		}
		f1, f2 := vhFlatten(c1), vhFlatten(c2)
		if !vhSameFlat(f1, f2) {
			same = false
		}
		for i := 1; i < len(f1.names); i++ {
			if f1.names[i-1] > f1.names[i] {
				sorted = false
			}
		}
	}
	symxCover("C13.two-runs-compared")
	symxAssert(sorted, "C13.controllers-sorted-by-name")
	symxAssert(same, "C13.two-runs-identical(order-and-import-serials)")
}

// C19: re-running the reduction on the same long-lived pipeline yields the same result and does not grow the graph
func vhC19(nCtrl int) {
	names := make([]string, nCtrl)
	for i := range names {
		names[i] = "C" + vhD(i)
	}
	p := vhBuildPipelineEnum(names, 2, true)
	before := len(p.symGraph.FindByKind(common.SymKindController))
	m1, err1 := p.GenerateIntermediate()
	m2, err2 := p.GenerateIntermediate()
	symxAssert(err1 == nil && err2 == nil, "C19.generate-no-error")
	symxCover("C19.second-run")
	symxAssert(vhSameFlat(vhFlatten(m1.Flat), vhFlatten(m2.Flat)), "C19.second-run-equals-first(controllers-routes-serials)")
	symxAssert(len(m1.Models.Structs) == len(m2.Models.Structs) && len(m1.Models.Enums) == len(m2.Models.Enums), "C19.models-stable")
	symxAssert(len(m1.Models.Enums) == 1 && len(m2.Models.Enums) == 1 && vhSameStringList(m1.Models.Enums[0].Values, m2.Models.Enums[0].Values), "C19.enum-model-stable")
	symxAssert(len(p.symGraph.FindByKind(common.SymKindController)) == before, "C19.graph-does-not-grow")
	// a brand-new session gives the same identifiers
	q := vhBuildPipelineEnum(names, 2, true)
	m3, err3 := q.GenerateIntermediate()
	symxAssert(err3 == nil && vhSameFlat(vhFlatten(m1.Flat), vhFlatten(m3.Flat)), "C19.fresh-session-equals-cached-session")
}

// C19 mechanism level: identifier memoisation and the materialisation protocol under arbitrary call sequences
func vhKeyOf(tag string) graphs.SymbolKey {
	name := symxString(tag, 1, 1, "abc")
	return graphs.NewSymbolKey(&ast.Ident{Name: name, NamePos: 1}, &gast.FileVersion{Path: "f.go", Hash: "h"})
}

func vhC19Provider(nCalls int) {
	sp := providers.NewSyncedProvider()
	var keys []graphs.SymbolKey
	var ids []uint64
	for i := 0; i < nCalls; i++ {
		k := vhKeyOf("k" + vhD(i))
		id := sp.GetIdForKey(k)
		for j := range keys {
			if keys[j].Name == k.Name {
				symxCover("C19.provider.same-key")
				symxAssert(ids[j] == id, "C19.provider.same-key-same-serial")
			} else {
				symxAssert(ids[j] != id, "C19.provider.different-keys-different-serials")
			}
		}
		keys = append(keys, k)
		ids = append(ids, id)
	}
}

func vhC19Cache(nOps int) {
	c := caching.NewMetadataCache()
	// model: per key name, visited / in progress
	visited := map[string]bool{}
	inProgress := map[string]bool{}
	for i := 0; i < nOps; i++ {
		t := "o" + vhD(i)
		k := vhKeyOf(t + ".k")
		switch symxChoice(t+".op", 3) {
		case 0:
			got := c.StartMaterializing(k)
			want := !visited[k.Name] && !inProgress[k.Name]
			symxAssert(got == want, "C19.cache.start-granted-iff-not-visited-and-not-in-progress")
			if got {
				symxCover("C19.cache.start-granted")
				inProgress[k.Name] = true
			} else {
				symxCover("C19.cache.start-refused")
			}
		case 1:
			ok := symxBool(t + ".success")
			c.FinishMaterializing(k, ok)
			delete(inProgress, k.Name)
			if ok {
				visited[k.Name] = true
			}
		case 2:
			st := &metadata.StructMeta{SymNodeMeta: metadata.SymNodeMeta{Name: k.Name, Node: &ast.Ident{Name: k.Name, NamePos: 1}, FVersion: &gast.FileVersion{Path: "f.go", Hash: "h"}}}
			had := c.HasStruct(k)
			err := c.AddStruct(st)
			symxAssert((err != nil) == had, "C19.cache.second-add-is-an-error")
			if err == nil {
				visited[k.Name] = true
				symxAssert(c.GetStruct(k) == st, "C19.cache.get-returns-added")
			}
		}
		symxAssert(c.HasVisited(k) == visited[k.Name], "C19.cache.visited-view")
		symxAssert(c.HasStruct(k) == (c.GetStruct(k) != nil), "C19.cache.has-iff-get")
	}
}

func vh_C19_provider_Q() { vhC19Provider(4) }
func vh_C19_cache_Q()    { vhC19Cache(3) }
func vh_C13_two_runs_Q() { vhC13(2) }
func vh_C13_two_runs_T() { vhC13(3) }
func vh_C19_rerun_Q()    { vhC19(2) }

func vhSameStringList(a, b []string) bool {
	if len(a) != len(b) {
		return false
	}
	for i := range a {
		if a[i] != b[i] {
			return false
		}
	}
	return true
}

// C06 (signature order): the reduced route lists the parameters in the order of the Go signature, whatever the
// grouping of the declaration ("a, b, c string, d int" gives the ordinals 0,1,2,1 - AstArbitrator.GetFuncParametersMeta
// numbers a name by field index + index within the field, so ordinals are not positions)
func vhUniverseParam(holder *annotations.AnnotationHolder, fv *gast.FileVersion, name, typeName string, ordinal int) metadata.FuncParam {
	key := graphs.NewUniverseSymbolKey(typeName)
	ref := typeref.NewNamedTypeRef(&key, nil)
	return metadata.FuncParam{
		SymNodeMeta: metadata.SymNodeMeta{Name: name, Annotations: holder, FVersion: fv},
		Ordinal:     ordinal,
		Type: metadata.TypeUsageMeta{
			SymNodeMeta: metadata.SymNodeMeta{Name: typeName, SymbolKind: common.SymKindBuiltin, FVersion: fv},
			Import:      common.ImportTypeNone,
			Root:        &ref,
		},
	}
}

func vh_C06_signature_order_Q() {
	n := 2 + symxChoice("nparams", 3) // 2..4 parameters
	fv := &gast.FileVersion{Path: "ctl.go", Hash: "h"}
	attrs := []annotations.Attribute{{Name: annotations.GleeceAnnotationMethod, Value: "GET"}, {Name: annotations.GleeceAnnotationRoute, Value: "/r"}}
	locs := []string{annotations.GleeceAnnotationQuery, annotations.GleeceAnnotationHeader}
	for k := 0; k < n; k++ {
		attrs = append(attrs, annotations.Attribute{Name: locs[symxChoice("loc"+vhD(k), 2)], Value: "g" + vhD(k)})
	}
	holder := annotations.NewAnnotationHolderFromData(attrs, nil)
	// the grouping of the declaration: newField[k] says whether name k starts a new field of the parameter list
	var params []metadata.FuncParam
	field, within := -1, 0
	for k := 0; k < n; k++ {
		if k == 0 || symxBool("newField"+vhD(k)) {
			field++
			within = 0
		} else {
			within++
		}
		params = append(params, vhUniverseParam(&holder, fv, "g"+vhD(k), []string{"string", "int"}[symxChoice("type"+vhD(k), 2)], field+within))
	}
	recv := metadata.ReceiverMeta{
		SymNodeMeta: metadata.SymNodeMeta{Name: "Op", Annotations: &holder, FVersion: fv, Node: &ast.Ident{Name: "Op", NamePos: token.Pos(100)}},
		Params:      params,
	}
	sp := providers.NewSyncedProvider()
	ctx := metadata.ReductionContext{GleeceConfig: &definitions.GleeceConfig{}, MetaCache: caching.NewMetadataCache(), SyncedProvider: &sp}
	route, err := recv.Reduce(ctx, nil)
	symxAssert(err == nil, "C06.signature-order.reduces")
	if err != nil {
		return
	}
	symxCover("C06.signature-order.reduced")
	symxAssert(len(route.FuncParams) == n, "C06.signature-order.every-parameter-kept")
	for k := 0; k < n && k < len(route.FuncParams); k++ {
		symxAssert(route.FuncParams[k].Name == "g"+vhD(k), "C06.signature-order.parameters-in-declaration-order")
	}
}
