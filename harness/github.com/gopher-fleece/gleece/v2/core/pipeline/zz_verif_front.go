package pipeline

import (
	"github.com/gopher-fleece/gleece/v2/core/visitors"
	"github.com/gopher-fleece/gleece/v2/definitions"
)

// VhNewPipeline builds the pipeline NewGleecePipeline would build, over a harness-loaded source file instead of
// globbed and loaded packages (visitors.VhLoadSource).
func VhNewPipeline(front *visitors.VhFront, cfg *definitions.GleeceConfig) *GleecePipeline {
	front.Ctx.GleeceConfig = cfg
	return &GleecePipeline{
		gleeceConfig:        cfg,
		metadataCache:       front.Cache,
		arbitrationProvider: *front.Provider,
		syncedProvider:      *front.Synced,
		symGraph:            front.Graph,
		visitorOrchestrator: front.Orch,
	}
}
