package pipeline

// C09, alias kernel: the import aliases of the routes file are built by string concatenation from a parameter's (or a
// result's) name and the serial number of its type. For symbolic names and serials: every alias getImports hands to
// the template is a valid Go identifier, it is listed under its own type's package, and two aliases coincide only when
// kind (parameter/result), serial and name all coincide - so distinct types (distinct serials) never share an alias.

import (
	"github.com/gopher-fleece/gleece/v2/definitions"
)

const vhC09First = "aX_"
const vhC09Rest = "aX_01"

func vhC09Ident(name string) string {
	n := symxInt(name+".len", 1, 2)
	b := []byte{symxByte(name+"[0]", vhC09First)}
	for k := 1; k < n; k++ {
		b = append(b, symxByte(name+"["+string(rune('0'+k))+"]", vhC09Rest))
	}
	return string(b)
}

func vhC09IsIdent(s string) bool {
	if len(s) == 0 {
		return false
	}
	for k := 0; k < len(s); k++ {
		c := s[k]
		letter := c == '_' || (c >= 'a' && c <= 'z') || (c >= 'A' && c <= 'Z')
		digit := c >= '0' && c <= '9'
		if !letter && !(digit && k > 0) {
			return false
		}
	}
	return true
}

func vhC09Aliases(m map[string][]string, pkg string) []string {
	return append([]string(nil), m[pkg]...)
}

func vh_C09_alias_kernel_Q() {
	serials := []uint64{0, 1, 10, 11}
	s1 := serials[symxChoice("serial1", len(serials))]
	s2 := serials[symxChoice("serial2", len(serials))]
	n1, n2 := vhC09Ident("name1"), vhC09Ident("name2")
	asResult := symxBool("second-is-a-result")
	samePkg := symxBool("same-package")
	wrap := symxChoice("wrap", 2) // the second name as X or []X (result type names carry their array prefix)
	pkg1, pkg2 := "example.com/a", "example.com/b"
	if samePkg {
		pkg2 = pkg1
	}
	route := definitions.RouteMetadata{OperationId: "Op"}
	p1 := definitions.FuncParam{UniqueImportSerial: s1}
	p1.Name = n1
	p1.TypeMeta.PkgPath = pkg1
	route.FuncParams = append(route.FuncParams, p1)
	want2 := ""
	if asResult {
		r := definitions.FuncReturnValue{UniqueImportSerial: s2}
		r.Name = []string{"", "[]", "[][]"}[wrap] + n2
		r.PkgPath = pkg2
		route.Responses = append(route.Responses, r)
		want2 = "Response"
	} else {
		p2 := definitions.FuncParam{UniqueImportSerial: s2}
		p2.Name = n2
		p2.TypeMeta.PkgPath = pkg2
		route.FuncParams = append(route.FuncParams, p2)
		want2 = "Param"
	}
	ctl := definitions.ControllerMetadata{Name: "Ctl", PkgPath: "example.com/ctl", Routes: []definitions.RouteMetadata{route}}
	imports := (&GleecePipeline{}).getImports([]definitions.ControllerMetadata{ctl})
	symxAssert(len(imports["example.com/ctl"]) == 1 && imports["example.com/ctl"][0] == "Ctl", "C09.kernel.controller-imported-under-its-name")
	a1, a2 := imports[pkg1], imports[pkg2]
	all := append([]string(nil), a1...)
	if !samePkg {
		all = append(all, a2...)
	}
	for _, a := range all {
		symxAssert(vhC09IsIdent(a), "C09.kernel.alias-is-a-valid-identifier")
	}
	same := !asResult && s1 == s2 && n1 == n2
	if same && samePkg {
		symxAssert(len(all) == 1, "C09.kernel.same-serial-and-name-is-one-alias")
		symxCover("C09.kernel.shared-alias")
		return
	}
	symxAssert(len(all) == 2, "C09.kernel.one-alias-per-parameter-or-result")
	if len(all) != 2 {
		return
	}
	symxAssert((all[0] == all[1]) == same, "C09.kernel.aliases-coincide-only-for-same-kind-serial-and-name")
	symxCover("C09.kernel.two-aliases")
	_ = want2
}
