package validators

import (
	"github.com/gopher-fleece/gleece/v2/common"
	"github.com/gopher-fleece/gleece/v2/core/annotations"
	"github.com/gopher-fleece/gleece/v2/core/metadata"
	"github.com/gopher-fleece/gleece/v2/core/validators/diagnostics"
	"github.com/gopher-fleece/gleece/v2/core/validators/paths"
)

// counts diagnostics of the given severity in a tree
func vhCountSeverity(ds []diagnostics.EntityDiagnostic, sev diagnostics.DiagnosticSeverity) int {
	n := 0
	for _, d := range ds {
		n += vhCountSeverityEntity(&d, sev)
	}
	return n
}

func vhCountSeverityEntity(d *diagnostics.EntityDiagnostic, sev diagnostics.DiagnosticSeverity) int {
	n := 0
	for _, x := range d.Diagnostics {
		if x.Severity == sev {
			n++
		}
	}
	for _, c := range d.Children {
		if c != nil {
			n += vhCountSeverityEntity(c, sev)
		}
	}
	return n
}

func vhHasConflictWarning(ds []diagnostics.EntityDiagnostic, ctrl, recv string) bool {
	for _, d := range ds {
		if d.EntityKind != controllerDiagKind || d.EntityName != ctrl {
			continue
		}
		for _, c := range d.Children {
			if c != nil && c.EntityName == recv {
				for _, x := range c.Diagnostics {
					if x.Code == string(diagnostics.DiagRouteConflict) && x.Severity == diagnostics.DiagnosticWarning {
						return true
					}
				}
			}
		}
	}
	return false
}

// C10 gate / C15 diagnostics clause: merging route-conflict warnings into the collected diagnostics keeps
// every diagnostic already collected (so an error still blocks output) and gives each offending method a warning
func vhC10Gate(nCtrl int) {
	var ctrls []*metadata.ControllerMeta
	var diags []diagnostics.EntityDiagnostic
	var entries []paths.RouteEntry
	errorsBefore := 0
	for c := 0; c < nCtrl; c++ {
		name := "Ctl" + vhD(c)
		ctrl := &metadata.ControllerMeta{Struct: metadata.StructMeta{SymNodeMeta: metadata.SymNodeMeta{Name: name}}}
		ctrls = append(ctrls, ctrl)
		// two receivers per controller; the first ones of all controllers share a path (a conflict)
		for r := 0; r < 2; r++ {
			route := "/same"
			if r == 1 {
				route = "/own" + vhD(c)
			}
			h := annotations.NewAnnotationHolderFromData([]annotations.Attribute{
				{Name: annotations.GleeceAnnotationMethod, Value: "GET"},
				{Name: annotations.GleeceAnnotationRoute, Value: route}}, nil)
			recv := &metadata.ReceiverMeta{SymNodeMeta: metadata.SymNodeMeta{Name: "Op" + vhD(c) + vhD(r), Annotations: &h}}
			entries = append(entries, paths.RouteEntry{Path: route, Method: "GET", Meta: paths.RouteEntryMeta{Controller: ctrl, Receiver: recv}})
		}
		// diagnostics already collected for this controller (symbolic presence and severities)
		if symxBool("c" + vhD(c) + ".hasDiags") {
			d := diagnostics.NewEntityDiagnostic(controllerDiagKind, name)
			if symxBool("c" + vhD(c) + ".ownError") {
				d.AddDiagnostic(diagnostics.NewErrorDiagnostic("f.go", "controller level error "+vhD(c), diagnostics.DiagAnnotationUnknown, ResolvedRangeZero()))
				errorsBefore++
			}
			if symxBool("c" + vhD(c) + ".receiverError") {
				child := diagnostics.NewEntityDiagnostic(receiverDiagKind, "Op"+vhD(c)+"1")
				child.AddDiagnostic(diagnostics.NewErrorDiagnostic("f.go", "receiver level error "+vhD(c), diagnostics.DiagReceiverParamNotPrimitive, ResolvedRangeZero()))
				d.AddChild(&child)
				errorsBefore++
			}
			if !d.Empty() {
				diags = append(diags, d)
			}
		}
	}
	v := &ApiValidator{}
	out, err := v.inPlaceAppendPathConflictDiagnostics(diags, entries)
	symxAssert(err == nil, "C10.gate.no-hard-error")
	if errorsBefore > 0 {
		symxCover("C10.gate.errors-present")
	} else {
		symxCover("C10.gate.no-errors")
	}
	symxAssert(vhCountSeverity(out, diagnostics.DiagnosticError) == errorsBefore, "C10.gate.collected-errors-survive-conflict-merging")
	blocked := len(diagnostics.GetDiagnosticsWithSeverity(out, []diagnostics.DiagnosticSeverity{diagnostics.DiagnosticError})) > 0
	symxAssert(blocked == (errorsBefore > 0), "C10.gate.error-anywhere-blocks-output")
	// every offending method receives a warning under its own controller and receiver
	if nCtrl >= 2 {
		for c := 0; c < nCtrl; c++ {
			symxAssert(vhHasConflictWarning(out, "Ctl"+vhD(c), "Op"+vhD(c)+"0"), "C15.each-offending-method-receives-a-warning")
			symxAssert(!vhHasConflictWarning(out, "Ctl"+vhD(c), "Op"+vhD(c)+"1"), "C15.no-warning-for-unrelated-method")
		}
	}
}

func vh_C10_gate_Q()        { vhC10Gate(2) }
func vh_C15_diagnostics_Q() { vhC10Gate(2) }

func ResolvedRangeZero() common.ResolvedRange { return common.ResolvedRange{} }
