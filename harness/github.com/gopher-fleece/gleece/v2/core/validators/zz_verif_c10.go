package validators

import (
	"github.com/gopher-fleece/gleece/v2/common"
	"github.com/gopher-fleece/gleece/v2/core/annotations"
	"github.com/gopher-fleece/gleece/v2/core/metadata"
	"github.com/gopher-fleece/gleece/v2/core/metadata/typeref"
	"github.com/gopher-fleece/gleece/v2/core/validators/diagnostics"
	"github.com/gopher-fleece/gleece/v2/definitions"
	"github.com/gopher-fleece/gleece/v2/gast"
	"github.com/gopher-fleece/gleece/v2/graphs"
)

func vhD(i int) string { return string(rune('0' + i)) }

var vhParamKinds = []string{annotations.GleeceAnnotationPath, annotations.GleeceAnnotationQuery, annotations.GleeceAnnotationHeader,
	annotations.GleeceAnnotationFormField, annotations.GleeceAnnotationBody}

type vhAnn struct {
	kind     string
	value    string
	hasAlias bool
	alias    string
	badAlias bool // the `name` property is not a string
}

type vhLinkIn struct {
	urlNames []string // {names} of the route template, in order
	params   []string // non-context function parameter names
	isStruct []bool   // per parameter: struct type (otherwise a primitive)
	hasCtx   bool
	anns     []vhAnn
}

func vhContains(xs []string, s string) bool {
	for _, x := range xs {
		if x == s {
			return true
		}
	}
	return false
}

// the property's acceptance predicate for the linking rules
func vhRefLinkAccept(in vhLinkIn) bool {
	for _, a := range in.anns {
		if a.badAlias {
			return false // a property of the wrong type is an error
		}
	}
	// URL names pairwise distinct
	for i := range in.urlNames {
		for j := range in.urlNames {
			if i < j && in.urlNames[i] == in.urlNames[j] {
				return false
			}
		}
	}
	// @Path bindings (alias, else name) and URL names in one-to-one correspondence
	for _, u := range in.urlNames {
		n := 0
		for _, a := range in.anns {
			if a.kind == annotations.GleeceAnnotationPath {
				key := a.value
				if a.hasAlias {
					key = a.alias
				}
				if key == u {
					n++
				}
			}
		}
		if n != 1 {
			return false
		}
	}
	for _, a := range in.anns {
		if a.kind == annotations.GleeceAnnotationPath {
			key := a.value
			if a.hasAlias {
				key = a.alias
			}
			if !vhContains(in.urlNames, key) {
				return false
			}
		}
	}
	// every parameter annotation references a function parameter
	for _, a := range in.anns {
		if !vhContains(in.params, a.value) {
			return false
		}
	}
	// every non-context function parameter is referenced by exactly one parameter annotation
	for _, p := range in.params {
		n := 0
		for _, a := range in.anns {
			if a.value == p {
				n++
			}
		}
		if n != 1 {
			return false
		}
	}
	// at most one body, never a body together with form fields; non-body parameters are primitives
	bodies, forms := 0, 0
	for _, a := range in.anns {
		if a.kind == annotations.GleeceAnnotationBody {
			bodies++
		}
		if a.kind == annotations.GleeceAnnotationFormField {
			forms++
		}
	}
	if bodies > 1 || (bodies > 0 && forms > 0) {
		return false
	}
	for i, p := range in.params {
		for _, a := range in.anns {
			if a.value == p && a.kind != annotations.GleeceAnnotationBody && in.isStruct[i] {
				return false
			}
		}
	}
	return true
}

func vhC10Link(maxUrl, maxParams, maxAnns int, allowBadAlias bool) {
	var in vhLinkIn
	route := "/r"
	nu := symxChoice("url.n", maxUrl+1)
	for i := 0; i < nu; i++ {
		name := symxString("url"+vhD(i), 1, 1, "abx")
		in.urlNames = append(in.urlNames, name)
		route += "/{" + name + "}"
	}
	np := symxChoice("params.n", maxParams+1)
	recv := &metadata.ReceiverMeta{SymNodeMeta: metadata.SymNodeMeta{Name: "Op"}}
	for i := 0; i < np; i++ {
		name := symxString("param"+vhD(i), 1, 1, "ab")
		for _, prev := range in.params {
			symxAssume(prev != name) // Go forbids duplicate parameter names
		}
		in.params = append(in.params, name)
		isStruct := symxBool("param" + vhD(i) + ".struct")
		in.isStruct = append(in.isStruct, isStruct)
		tm := metadata.TypeUsageMeta{SymNodeMeta: metadata.SymNodeMeta{Name: "string", SymbolKind: common.SymKindBuiltin}}
		if isStruct {
			tm = metadata.TypeUsageMeta{SymNodeMeta: metadata.SymNodeMeta{Name: "Payload", PkgPath: "example.com/p", SymbolKind: common.SymKindStruct}}
		}
		recv.Params = append(recv.Params, metadata.FuncParam{SymNodeMeta: metadata.SymNodeMeta{Name: name}, Ordinal: i, Type: tm})
	}
	if symxBool("ctx") {
		in.hasCtx = true
		recv.Params = append(recv.Params, metadata.FuncParam{SymNodeMeta: metadata.SymNodeMeta{Name: "ctx"}, Ordinal: np,
			Type: metadata.TypeUsageMeta{SymNodeMeta: metadata.SymNodeMeta{Name: "Context", PkgPath: "context"}}})
	}
	attrs := []annotations.Attribute{
		{Name: annotations.GleeceAnnotationMethod, Value: "GET"},
		{Name: annotations.GleeceAnnotationRoute, Value: route, Comment: gast.CommentNode{Text: "// @Route(" + route + ")"}},
	}
	na := symxChoice("anns.n", maxAnns+1)
	for i := 0; i < na; i++ {
		t := "ann" + vhD(i)
		a := vhAnn{kind: vhParamKinds[symxChoice(t+".kind", len(vhParamKinds))], value: symxString(t+".value", 1, 1, "abc")}
		props := map[string]any{}
		if a.kind != annotations.GleeceAnnotationBody && symxBool(t+".hasAlias") {
			if allowBadAlias && a.kind == annotations.GleeceAnnotationPath && symxBool(t+".aliasIsNumber") {
				a.badAlias = true
				props["name"] = float64(12)
			} else {
				a.hasAlias = true
				a.alias = symxString(t+".alias", 1, 1, "abx")
				props["name"] = a.alias
			}
		}
		in.anns = append(in.anns, a)
		attrs = append(attrs, annotations.Attribute{Name: a.kind, Value: a.value, Properties: props,
			Comment: gast.CommentNode{Text: "// @" + a.kind + "(" + a.value + ")", Index: i + 2,
				Position: gast.CommentPosition{StartLine: i + 2, EndLine: i + 2, StartCol: 0, EndCol: 12}}})
	}
	holder := annotations.NewAnnotationHolderFromData(attrs, nil)
	recv.Annotations = &holder
	strKey := graphs.NewUniverseSymbolKey("string")
	strRef := typeref.NewNamedTypeRef(&strKey, nil)
	for i := range recv.Params {
		recv.Params[i].Annotations = &holder
		recv.Params[i].FVersion = &gast.FileVersion{Path: "f.go"}
		recv.Params[i].Type.Root = &strRef
	}
	// outside the property's rules: gleece does not support a primitive as the JSON body
	for i, p := range in.params {
		for _, a := range in.anns {
			if a.value == p && a.kind == annotations.GleeceAnnotationBody {
				symxAssume(in.isStruct[i])
			}
		}
	}

	lv, err := NewAnnotationLinkValidator(recv)
	symxAssert(err == nil, "C10.link.constructs")
	if err != nil {
		return
	}
	// the receiver-level decision: common annotation checks, parameter checks and the linker
	// (as ReceiverValidator.Validate does; the return-type package lookup is outside)
	rv := ReceiverValidator{CommonValidator: CommonValidator{holder: recv.Annotations}, receiver: recv}
	diags := rv.CommonValidator.Validate()
	paramDiags, perr := rv.validateParams(recv)
	symxAssert(perr == nil, "C10.params.no-hard-error")
	diags = append(diags, paramDiags...)
	diags = append(diags, lv.Validate()...)
	symxRecord("ndiags", len(diags))
	rejected := false
	for _, d := range diags {
		if d.Severity == diagnostics.DiagnosticError {
			rejected = true
		}
	}
	want := vhRefLinkAccept(in)
	// recorded finding: a @Path binding without a `name` alias is never checked against the route's {names}
	// (the linker sees only the method's own @Route, not the controller prefix, so it cannot decide this)
	pathWithoutUrlName := false
	for _, a := range in.anns {
		if a.kind == annotations.GleeceAnnotationPath && !a.hasAlias && !vhContains(in.urlNames, a.value) {
			pathWithoutUrlName = true
		}
	}
	symxKnown("C10-path-binding-without-url-name", pathWithoutUrlName)
	if want {
		symxCover("C10.link.well-linked")
	} else {
		symxCover("C10.link.ill-linked")
	}
	symxAssert(!want || !rejected, "C10.link.complete(well-linked-never-rejected)")
	symxAssert(want || rejected, "C10.link.sound(ill-linked-rejected)")
	// no diagnostic is reported twice
	noDup := true
	for i := range diags {
		for j := range diags {
			if i < j && diags[i].Equal(diags[j]) {
				noDup = false
			}
		}
	}
	symxAssert(noDup, "C18.no-duplicate-diagnostics")
}

func vh_C10_link_Q() { vhC10Link(1, 2, 2, false) }

// malformed `name` properties: rejected, and reported once
func vh_C10_link_badalias_Q() { vhC10Link(1, 1, 2, true) }

// ---- C04 (v): enforceSecurityOnAllRoutes leaves no open route

func vhSecHolder(tag string, extra []annotations.Attribute) (*annotations.AnnotationHolder, int) {
	n := symxChoice(tag+".nsec", 3)
	attrs := append([]annotations.Attribute{}, extra...)
	for i := 0; i < n; i++ {
		attrs = append(attrs, annotations.Attribute{Name: annotations.GleeceAnnotationSecurity, Value: "s" + vhD(i),
			Properties: map[string]any{"scopes": []any{"r"}}})
	}
	h := annotations.NewAnnotationHolderFromData(attrs, nil)
	return &h, n
}

func vh_C04_enforce_Q() {
	cfg := &definitions.GleeceConfig{}
	cfg.RoutesConfig.AuthorizationConfig.EnforceSecurityOnAllRoutes = symxBool("enforce")
	hasDefault := symxBool("default")
	if hasDefault {
		cfg.OpenAPIGeneratorConfig.DefaultRouteSecurity = &definitions.SecurityAnnotationComponent{SchemaName: "s0", Scopes: []string{"r"}}
	}
	ctrlHolder, nCtrl := vhSecHolder("ctrl", nil)
	routeHolder, nRoute := vhSecHolder("route", []annotations.Attribute{{Name: annotations.GleeceAnnotationMethod, Value: "GET"}, {Name: annotations.GleeceAnnotationRoute, Value: "/r"}})
	ctrl := &metadata.ControllerMeta{Struct: metadata.StructMeta{SymNodeMeta: metadata.SymNodeMeta{Name: "Ctl", Annotations: ctrlHolder}}}
	recv := &metadata.ReceiverMeta{SymNodeMeta: metadata.SymNodeMeta{Name: "Op", Annotations: routeHolder}}
	rv := ReceiverValidator{CommonValidator: CommonValidator{holder: routeHolder}, gleeceConfig: cfg, parentController: ctrl, receiver: recv}
	diag, err := rv.validateSecurity(recv)
	symxAssert(err == nil, "C04.enforce.no-hard-error")
	open := nRoute == 0 && nCtrl == 0 && !hasDefault
	if open {
		symxCover("C04.enforce.open-route")
	} else {
		symxCover("C04.enforce.secured-route")
	}
	rejected := diag != nil && diag.Severity == diagnostics.DiagnosticError
	symxAssert(rejected == (cfg.RoutesConfig.AuthorizationConfig.EnforceSecurityOnAllRoutes && open), "C04.enforce.rejected-iff-open-route")
}

// ---- C10: return signature and verb

func vh_C10_retsig_verb_Q() {
	n := symxChoice("nret", 4)
	recv := &metadata.ReceiverMeta{SymNodeMeta: metadata.SymNodeMeta{Name: "Op"}}
	for i := 0; i < n; i++ {
		recv.RetVals = append(recv.RetVals, metadata.FuncReturnValue{SymNodeMeta: metadata.SymNodeMeta{Name: "r" + vhD(i)}, Ordinal: i})
	}
	verb := []string{"GET", "POST", "PUT", "DELETE", "PATCH", "OPTIONS", "HEAD", "TRACE", "CONNECT", "FETCH", ""}[symxChoice("verb", 11)]
	h := annotations.NewAnnotationHolderFromData([]annotations.Attribute{{Name: annotations.GleeceAnnotationMethod, Value: verb}, {Name: annotations.GleeceAnnotationRoute, Value: "/r"}}, nil)
	recv.Annotations = &h
	_, diag := getDiagForRetSig(recv)
	symxAssert((diag != nil && diag.Severity == diagnostics.DiagnosticError) == (n == 0 || n > 2), "C10.retsig.one-or-two-values")
	cv := CommonValidator{holder: &h}
	verbRejected := false
	for _, d := range cv.Validate() {
		if d.Severity == diagnostics.DiagnosticError {
			verbRejected = true
		}
	}
	supported := verb == "GET" || verb == "POST" || verb == "PUT" || verb == "DELETE" || verb == "PATCH"
	if supported {
		symxCover("C10.verb.supported")
	} else {
		symxCover("C10.verb.unsupported")
	}
	symxAssert(verbRejected == !supported, "C10.verb.supported-iff-accepted")
}

// C18: no diagnostic is reported twice, also when several rules complain about the same annotation
func vh_C18_no_duplicate_diagnostics_Q() { vhC10Link(1, 1, 2, true) }

// C14: the validators never panic on these inputs (assertions off, only crashes count)
func vh_C14_validators_Q() {
	symxAssertionsOff()
	vhC10Link(1, 1, 2, true)
}

// thorough tier
func vh_C10_link_T() { vhC10Link(2, 2, 2, false) }
