package paths

import (
	"github.com/gopher-fleece/gleece/v2/core/metadata"
)

func vhDigit(i int) string { return string(rune('0' + i)) }

// vhSegment: "a" | "b" | "{x}" | "{y}"
func vhSegment(name string) string {
	if symxBool(name + ".param") {
		return "{" + symxString(name+".p", 1, 1, "xy") + "}"
	}
	return symxString(name+".l", 1, 1, "ab")
}

func vhPath(name string, maxSeg int, slashes bool) string {
	p := ""
	if !slashes || symxBool(name+".lead") {
		p = "/"
	}
	n := symxChoice(name+".nseg", maxSeg+1)
	for i := 0; i < n; i++ {
		if i > 0 {
			if slashes && symxBool(name+".dbl"+vhDigit(i)) {
				p += "//"
			} else {
				p += "/"
			}
		}
		p += vhSegment(name + ".s" + vhDigit(i))
	}
	if slashes && symxBool(name+".trail") {
		p += "/"
	}
	return p
}

// reference model: deliberately not a trie
func vhRefSegs(p string) []string {
	var out []string
	start := 0
	for i := 0; i <= len(p); i++ {
		if i == len(p) || p[i] == '/' {
			if i > start {
				out = append(out, p[start:i])
			}
			start = i + 1
		}
	}
	return out
}

func vhRefIsParam(s string) bool { return len(s) >= 2 && s[0] == '{' && s[len(s)-1] == '}' }

func vhRefOverlap(a, b string) bool {
	as, bs := vhRefSegs(a), vhRefSegs(b)
	if len(as) != len(bs) {
		return false
	}
	for i := range as {
		if as[i] != bs[i] && !vhRefIsParam(as[i]) && !vhRefIsParam(bs[i]) {
			return false
		}
	}
	return true
}

func vhC15Entries(n, maxSeg int, slashes bool) ([]RouteEntry, []*metadata.ReceiverMeta) {
	recv := make([]*metadata.ReceiverMeta, n)
	es := make([]RouteEntry, n)
	for i := range es {
		recv[i] = &metadata.ReceiverMeta{}
		m := "GET"
		if symxBool("m" + vhDigit(i)) {
			m = "POST"
		}
		es[i] = RouteEntry{Path: vhPath("e"+vhDigit(i), maxSeg, slashes), Method: m, Meta: RouteEntryMeta{Receiver: recv[i]}}
	}
	return es, recv
}

func vhIdx(recv []*metadata.ReceiverMeta, e RouteEntry) int {
	for i, r := range recv {
		if e.Meta.Receiver == r {
			return i
		}
	}
	return -1
}

// number of other entries with byte-identical path text and the same verb
func vhSameTextOthers(es []RouteEntry, i int) int {
	n := 0
	for j := range es {
		if j != i && es[j].Method == es[i].Method && es[j].Path == es[i].Path {
			n++
		}
	}
	return n
}

func vhC15Named(es []RouteEntry, recv []*metadata.ReceiverMeta, cs []Conflict, check bool) []bool {
	named := make([]bool, len(es))
	for _, c := range cs {
		a, b := vhIdx(recv, c.A), vhIdx(recv, c.B)
		if check {
			symxCover("C15.some-conflict")
			symxAssert(a >= 0 && b >= 0 && a != b, "C15.S.distinct-entries")
			symxAssert(c.A.Method == c.B.Method, "C15.S.same-verb")
			symxAssert(vhRefOverlap(c.A.Path, c.B.Path), "C15.S.overlap")
		}
		if a >= 0 {
			named[a] = true
		}
		if b >= 0 {
			named[b] = true
		}
	}
	return named
}

func vhC15SoundComplete(n, maxSeg int, slashes bool, permuteMaps bool) {
	es, recv := vhC15Entries(n, maxSeg, slashes)
	symxPermuteMaps(permuteMaps)
	orig := make([]RouteEntry, n)
	copy(orig, es)
	cs := FindConflicts(es)
	symxPermuteMaps(false)
	named := vhC15Named(orig, recv, cs, true)
	for i := range orig {
		need := false
		for j := range orig {
			if j != i && orig[j].Method == orig[i].Method && vhRefOverlap(orig[i].Path, orig[j].Path) {
				need = true
			}
		}
		if need {
			symxCover("C15.overlap-exists")
		} else {
			symxCover("C15.no-overlap")
		}
		symxAssert(!need || named[i], "C15.C.every-overlapping-entry-named")
	}
	// output order is sorted by (A.Path, B.Path, Reason)
	for k := 1; k < len(cs); k++ {
		p, q := cs[k-1], cs[k]
		ok := p.A.Path < q.A.Path || (p.A.Path == q.A.Path && (p.B.Path < q.B.Path || (p.B.Path == q.B.Path && p.Reason <= q.Reason)))
		symxAssert(ok, "C15.P.sorted-output")
	}
}

// order independence: the set of entries named is the same for a permuted list
func vhC15Permutation(n, maxSeg int) {
	es, recv := vhC15Entries(n, maxSeg, false)
	orig := make([]RouteEntry, n)
	copy(orig, es)
	named1 := vhC15Named(orig, recv, FindConflicts(es), false)
	// a symbolic permutation of the list
	perm := make([]RouteEntry, 0, n)
	used := make([]bool, n)
	for k := 0; k < n; k++ {
		c := symxChoice("perm"+vhDigit(k), n-k)
		for j := 0; j < n; j++ {
			if used[j] {
				continue
			}
			if c == 0 {
				used[j] = true
				perm = append(perm, orig[j])
				break
			}
			c--
		}
	}
	named2 := vhC15Named(orig, recv, FindConflicts(perm), false)
	for i := range orig {
		if named1[i] {
			symxCover("C15.perm.named")
		}
		symxAssert(named1[i] == named2[i], "C15.P.order-independent")
	}
}

func vh_C15_sound_complete_Q() { vhC15SoundComplete(3, 2, false, false) }
func vh_C15_slashes_Q()        { vhC15SoundComplete(2, 2, true, true) }
func vh_C15_permutation_Q()    { vhC15Permutation(3, 1) }

// C14: conflict detection never panics
func vh_C14_conflicts_Q() {
	symxAssertionsOff()
	vhC15SoundComplete(2, 2, true, true)
}

// thorough tier
func vh_C15_sound_complete_T() { vhC15SoundComplete(4, 2, false, false) }
func vh_C15_slashes_T()        { vhC15SoundComplete(3, 1, true, true) }
func vh_C15_permutation_T()    { vhC15Permutation(3, 2) }
