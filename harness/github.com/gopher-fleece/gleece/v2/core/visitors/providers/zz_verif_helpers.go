package providers

import "github.com/gopher-fleece/gleece/v2/core/arbitrators"

// VhNewArbitrationProvider wraps a harness-built facade (NewArbitrationProvider globs and loads packages).
func VhNewArbitrationProvider(facade *arbitrators.PackagesFacade) *ArbitrationProvider {
	ast := arbitrators.NewAstArbitrator(facade)
	return &ArbitrationProvider{packagesFacade: facade, astArbitrator: &ast}
}
