package visitors

// Front end on a real syntax tree: the source text below is parsed by go/parser and type-checked by go/types
// (both interpreted from source by the engine; the importer serves a hand-built github.com/gopher-fleece/runtime),
// registered with a facade the way a package load registers it, and walked by the real VisitorOrchestrator.
// Symbolic parts are patched into the parsed tree (comment texts), so the parser itself runs on concrete bytes.

import (
	"go/ast"
	"go/importer"
	"go/parser"
	"go/token"
	"go/types"
	"os"
	"path/filepath"
	"strings"

	"github.com/gopher-fleece/gleece/v2/core/arbitrators"
	"github.com/gopher-fleece/gleece/v2/core/metadata"
	"github.com/gopher-fleece/gleece/v2/core/arbitrators/caching"
	"github.com/gopher-fleece/gleece/v2/core/visitors/providers"
	"github.com/gopher-fleece/gleece/v2/definitions"
	"github.com/gopher-fleece/gleece/v2/graphs/symboldg"
	"golang.org/x/tools/go/packages"
)

type vhImporter struct{ runtime *types.Package }

func (im vhImporter) Import(path string) (*types.Package, error) {
	if path == "github.com/gopher-fleece/runtime" {
		return im.runtime, nil
	}
	return importer.Default().Import(path)
}

func vhRuntimePackage() *types.Package {
	pkg := types.NewPackage("github.com/gopher-fleece/runtime", "runtime")
	tn := types.NewTypeName(token.NoPos, pkg, "GleeceController", nil)
	types.NewNamed(tn, types.NewStruct(nil, nil), nil)
	pkg.Scope().Insert(tn)
	pkg.MarkComplete()
	return pkg
}

type VhFront struct {
	Ctx      *VisitContext
	Orch     *VisitorOrchestrator
	File     *ast.File
	Pkg      *packages.Package
	Graph    *symboldg.SymbolGraph
	Provider *providers.ArbitrationProvider
	Synced   *providers.SyncedProvider
	Cache    *caching.MetadataCache
	Path     string
}

// VhLoadSource parses and type-checks src as the single file of package example.com/ctl and wires up a visiting context.
func VhLoadSource(src string, patch func(f *ast.File)) (*VhFront, error) {
	dir := filepath.Join(os.TempDir(), "gosym-vh-front")
	path := filepath.Join(dir, "ctl.go")
	if !symxIsSymbolic() {
		// natively the file has to exist: FileVersion stats and hashes it
		if err := os.MkdirAll(dir, 0o755); err != nil {
			return nil, err
		}
		if err := os.WriteFile(path, []byte(src), 0o644); err != nil {
			return nil, err
		}
	}
	facade := arbitrators.VhNewFacade()
	fset := facade.FSet()
	file, err := parser.ParseFile(fset, path, src, parser.ParseComments)
	if err != nil {
		return nil, err
	}
	if patch != nil {
		patch(file)
	}
	info := &types.Info{
		Types: map[ast.Expr]types.TypeAndValue{}, Defs: map[*ast.Ident]types.Object{}, Uses: map[*ast.Ident]types.Object{},
		Implicits: map[ast.Node]types.Object{}, Selections: map[*ast.SelectorExpr]*types.Selection{}, Scopes: map[ast.Node]*types.Scope{},
		Instances: map[*ast.Ident]types.Instance{},
	}
	rt := vhRuntimePackage()
	conf := types.Config{Importer: vhImporter{rt}}
	tpkg, err := conf.Check("example.com/ctl", fset, []*ast.File{file}, info)
	if err != nil {
		return nil, err
	}
	rtLoaded := &packages.Package{ID: rt.Path(), Name: "runtime", PkgPath: rt.Path(), Types: rt, Fset: fset, TypesInfo: &types.Info{}}
	pkg := &packages.Package{ID: "example.com/ctl", Name: tpkg.Name(), PkgPath: "example.com/ctl", Types: tpkg, TypesInfo: info, Fset: fset,
		Syntax: []*ast.File{file}, GoFiles: []string{path}, CompiledGoFiles: []string{path}, Imports: map[string]*packages.Package{rt.Path(): rtLoaded}}
	arbitrators.VhRegister(facade, pkg, path, file)
	arbitrators.VhRegister(facade, rtLoaded, filepath.Join(dir, "runtime.go"), &ast.File{Name: ast.NewIdent("runtime")})
	g := symboldg.NewSymbolGraph()
	sp := providers.NewSyncedProvider()
	prov := providers.VhNewArbitrationProvider(facade)
	cache := caching.NewMetadataCache()
	ctx := &VisitContext{GleeceConfig: &definitions.GleeceConfig{}, ArbitrationProvider: prov, MetadataCache: cache, Graph: &g, SyncedProvider: &sp}
	orch, err := NewVisitorOrchestrator(ctx)
	if err != nil {
		return nil, err
	}
	return &VhFront{Ctx: ctx, Orch: orch, File: file, Pkg: pkg, Graph: &g, Provider: prov, Synced: &sp, Cache: cache, Path: path}, nil
}

const vhFrontSrc = `package ctl

import "github.com/gopher-fleece/runtime"

// @Tag(T)
// @Route(/c)
type Ctl struct {
	runtime.GleeceController
}

// @Method(GET)
// @Route(/r/{id})
// @Path(id)
// @Query(q)
func (c *Ctl) Get(id string, q *int) (string, error) { return "", nil }

// not an endpoint
func (c *Ctl) helper() {}

type Other struct{}

// @Method(GET)
// @Route(/o)
func (o *Other) NotController() error { return nil }
`

func vhControllers(fr *VhFront) []metadata.ControllerMeta {
	return fr.Orch.controllerVisitor.GetControllers()
}

func vh_C01_front_smoke_Q() {
	verb := []string{"GET", "POST", "DELETE"}[symxChoice("verb", 3)]
	fr, err := VhLoadSource(vhFrontSrc, func(f *ast.File) {
		for _, cg := range f.Comments {
			for _, c := range cg.List {
				if strings.HasPrefix(c.Text, "// @Method(GET)") && cg.Pos() < f.End() {
					c.Text = "// @Method(" + verb + ")"
				}
			}
		}
	})
	symxAssert(err == nil, "C01.front.fixture-loads")
	if err != nil {
		return
	}
	ast.Walk(fr.Orch, fr.File)
	symxAssert(fr.Orch.GetLastError() == nil, "C01.front.visit-succeeds")
	ctrls := vhControllers(fr)
	symxCover("C01.front.visited")
	symxAssert(len(ctrls) == 1 && ctrls[0].Struct.Name == "Ctl", "C01.front.exactly-the-embedding-struct-is-a-controller")
	if len(ctrls) == 1 {
		symxAssert(len(ctrls[0].Receivers) == 1 && ctrls[0].Receivers[0].Name == "Get", "C01.front.exactly-the-annotated-methods-of-the-controller")
	}
}
