package visitors

// Front end on a real syntax tree: the source text below is parsed by go/parser and type-checked by go/types
// (both interpreted from source by the engine; the importer serves a hand-built github.com/gopher-fleece/runtime),
// registered with a facade the way a package load registers it, and walked by the real VisitorOrchestrator.
// Symbolic parts are patched into the parsed tree (comment texts), so the parser itself runs on concrete bytes.

import (
	"go/ast"
	"go/importer"
	"go/parser"
	"go/types"
	"os"
	"path/filepath"
	"strings"

	"github.com/gopher-fleece/gleece/v2/core/arbitrators"
	"github.com/gopher-fleece/gleece/v2/core/arbitrators/caching"
	"github.com/gopher-fleece/gleece/v2/core/metadata"
	"github.com/gopher-fleece/gleece/v2/core/visitors/providers"
	"github.com/gopher-fleece/gleece/v2/definitions"
	"github.com/gopher-fleece/gleece/v2/graphs/symboldg"
	"golang.org/x/tools/go/packages"
)

type vhImporter struct{ pkgs map[string]*types.Package }

func (im vhImporter) Import(path string) (*types.Package, error) {
	if p, ok := im.pkgs[path]; ok {
		return p, nil
	}
	return importer.Default().Import(path)
}

// the packages the fixture sources import: parsed and type-checked like the fixture itself
var vhDepSources = []struct{ path, file, src string }{
	{"context", "context.go", "package context\n\ntype Context interface{ Err() error }\n"},
	{"time", "time.go", "package time\n\ntype Time struct{ wall uint64 }\n"},
	{"example.com/other", "other.go", "package other\n\n// Ext lives in another package\ntype Ext struct {\n\tA string `json:\"a\"`\n\tK Kind\n}\n\ntype Kind string\n\nconst (\n\tKindA Kind = \"a\"\n\tKindB Kind = \"b\"\n)\n"},
	{"github.com/gopher-fleece/runtime", "runtime.go", "package runtime\n\ntype GleeceController struct{}\n\ntype Rfc7807Error struct {\n\tType string\n\tStatus int\n}\n"},
}

type VhFront struct {
	Ctx      *VisitContext
	Orch     *VisitorOrchestrator
	File     *ast.File
	Pkg      *packages.Package
	Graph    *symboldg.SymbolGraph
	Provider *providers.ArbitrationProvider
	Synced   *providers.SyncedProvider
	Cache    *caching.MetadataCache
	Path     string
}

// the directory the fixture files are said to live in. Nothing is written there in the engine; natively the files
// have to exist (FileVersion stats and hashes them) and the replay driver points TMPDIR at its own scratch directory,
// so concurrent checks do not share it and it disappears with the scratch directory.
func vhFrontDir() string {
	return filepath.Join(os.TempDir(), "gosym-vh-front")
}

// VhLoadSource parses and type-checks src as the single file of package example.com/ctl and wires up a visiting context.
func VhLoadSource(src string, patch func(f *ast.File)) (*VhFront, error) {
	return VhLoadSources([]string{"ctl.go"}, []string{src}, patch)
}

// VhLoadSources does the same for a package of several files (patch is applied to each parsed file).
func VhLoadSources(names []string, srcs []string, patch func(f *ast.File)) (*VhFront, error) {
	dir := vhFrontDir()
	facade := arbitrators.VhNewFacade()
	fset := facade.FSet()
	var files []*ast.File
	var paths []string
	for k, name := range names {
		fpath := filepath.Join(dir, name)
		if !symxIsSymbolic() {
			// natively the file has to exist: FileVersion stats and hashes it
			if err := os.MkdirAll(dir, 0o755); err != nil {
				return nil, err
			}
			if err := os.WriteFile(fpath, []byte(srcs[k]), 0o644); err != nil {
				return nil, err
			}
		}
		f, err := parser.ParseFile(fset, fpath, srcs[k], parser.ParseComments)
		if err != nil {
			return nil, err
		}
		if patch != nil {
			patch(f)
		}
		files = append(files, f)
		paths = append(paths, fpath)
	}
	file, path := files[0], paths[0]
	newInfo := func() *types.Info {
		return &types.Info{
			Types: map[ast.Expr]types.TypeAndValue{}, Defs: map[*ast.Ident]types.Object{}, Uses: map[*ast.Ident]types.Object{},
			Implicits: map[ast.Node]types.Object{}, Selections: map[*ast.SelectorExpr]*types.Selection{}, Scopes: map[ast.Node]*types.Scope{},
			Instances: map[*ast.Ident]types.Instance{},
		}
	}
	im := vhImporter{pkgs: map[string]*types.Package{}}
	imports := map[string]*packages.Package{}
	for _, dep := range vhDepSources {
		depPath := filepath.Join(dir, "deps", dep.path, dep.file)
		if !symxIsSymbolic() {
			if err := os.MkdirAll(filepath.Dir(depPath), 0o755); err != nil {
				return nil, err
			}
			if err := os.WriteFile(depPath, []byte(dep.src), 0o644); err != nil {
				return nil, err
			}
		}
		depFile, err := parser.ParseFile(fset, depPath, dep.src, parser.ParseComments)
		if err != nil {
			return nil, err
		}
		depInfo := newInfo()
		depTypes, err := (&types.Config{Importer: im}).Check(dep.path, fset, []*ast.File{depFile}, depInfo)
		if err != nil {
			return nil, err
		}
		im.pkgs[dep.path] = depTypes
		loaded := &packages.Package{ID: dep.path, Name: depTypes.Name(), PkgPath: dep.path, Types: depTypes, TypesInfo: depInfo, Fset: fset,
			Syntax: []*ast.File{depFile}, GoFiles: []string{depPath}, CompiledGoFiles: []string{depPath}}
		imports[dep.path] = loaded
		arbitrators.VhCachePackage(facade, loaded)
	}
	info := newInfo()
	tpkg, err := (&types.Config{Importer: im}).Check("example.com/ctl", fset, files, info)
	if err != nil {
		return nil, err
	}
	pkg := &packages.Package{ID: "example.com/ctl", Name: tpkg.Name(), PkgPath: "example.com/ctl", Types: tpkg, TypesInfo: info, Fset: fset,
		Syntax: files, GoFiles: paths, CompiledGoFiles: paths, Imports: imports}
	for k := range files {
		arbitrators.VhRegister(facade, pkg, paths[k], files[k])
	}
	g := symboldg.NewSymbolGraph()
	sp := providers.NewSyncedProvider()
	prov := providers.VhNewArbitrationProvider(facade)
	cache := caching.NewMetadataCache()
	ctx := &VisitContext{GleeceConfig: &definitions.GleeceConfig{}, ArbitrationProvider: prov, MetadataCache: cache, Graph: &g, SyncedProvider: &sp}
	orch, err := NewVisitorOrchestrator(ctx)
	if err != nil {
		return nil, err
	}
	return &VhFront{Ctx: ctx, Orch: orch, File: file, Pkg: pkg, Graph: &g, Provider: prov, Synced: &sp, Cache: cache, Path: path}, nil
}

const vhFrontSrc = `package ctl

import "github.com/gopher-fleece/runtime"

// @Tag(T)
// @Route(/c)
type Ctl struct {
	runtime.GleeceController
}

// @Method(GET)
// @Route(/r/{id})
// @Path(id)
// @Query(q)
func (c *Ctl) Get(id string, q *int) (string, error) { return "", nil }

// not an endpoint
func (c *Ctl) helper() {}

type Other struct{}

// @Method(GET)
// @Route(/o)
func (o *Other) NotController() error { return nil }
`

func vhControllers(fr *VhFront) []metadata.ControllerMeta {
	return fr.Orch.controllerVisitor.GetControllers()
}

func vh_C01_front_smoke_Q() {
	verb := []string{"GET", "POST", "DELETE"}[symxChoice("verb", 3)]
	fr, err := VhLoadSource(vhFrontSrc, func(f *ast.File) {
		for _, cg := range f.Comments {
			for _, c := range cg.List {
				if strings.HasPrefix(c.Text, "// @Method(GET)") && cg.Pos() < f.End() {
					c.Text = "// @Method(" + verb + ")"
				}
			}
		}
	})
	symxAssert(err == nil, "C01.front.fixture-loads")
	if err != nil {
		return
	}
	ast.Walk(fr.Orch, fr.File)
	symxAssert(fr.Orch.GetLastError() == nil, "C01.front.visit-succeeds")
	ctrls := vhControllers(fr)
	symxCover("C01.front.visited")
	symxAssert(len(ctrls) == 1 && ctrls[0].Struct.Name == "Ctl", "C01.front.exactly-the-embedding-struct-is-a-controller")
	if len(ctrls) == 1 {
		symxAssert(len(ctrls[0].Receivers) == 1 && ctrls[0].Receivers[0].Name == "Get", "C01.front.exactly-the-annotated-methods-of-the-controller")
	}
}

// VhDepSource returns the stand-in source text of a fixture dependency ("" when path is not one of them)
func VhDepSource(path string) string {
	for _, d := range vhDepSources {
		if d.path == path {
			return d.src
		}
	}
	return ""
}
