package visitors

import (
	"go/ast"
	"go/constant"
	"go/token"
	"go/types"

	"github.com/gopher-fleece/gleece/v2/core/arbitrators"
	"github.com/gopher-fleece/gleece/v2/core/visitors/providers"
	"github.com/gopher-fleece/gleece/v2/gast"
	"golang.org/x/tools/go/packages"
)

// C07 (enum values): the values of an enum are exactly the constants declared with the enum's type in its
// package - exported or not - with their declared values; constants of other types are not among them.
func vh_C07_enum_values_Q() {
	pkg := types.NewPackage("example.com/e", "e")
	kind := []types.BasicKind{types.String, types.Int}[symxChoice("kind", 2)]
	basic := types.Typ[kind]
	tn := types.NewTypeName(token.NoPos, pkg, "E", nil)
	enum := types.NewNamed(tn, basic, nil)
	pkg.Scope().Insert(tn)
	otn := types.NewTypeName(token.NoPos, pkg, "F", nil)
	other := types.NewNamed(otn, basic, nil)
	pkg.Scope().Insert(otn)

	names := []string{"Alpha", "beta", "Gamma_1", "_d"}
	var wantNames []string
	var wantVals []int
	decl := &ast.GenDecl{Tok: token.CONST}
	for k, name := range names {
		if !symxBool("present" + string(rune('0'+k))) {
			continue
		}
		var typ types.Type
		switch symxChoice("type"+string(rune('0'+k)), 3) {
		case 0:
			typ = enum
		case 1:
			typ = other
		default:
			typ = basic
		}
		var val constant.Value
		if kind == types.String {
			val = constant.MakeString("v" + string(rune('0'+k)))
		} else {
			val = constant.MakeInt64(int64(10 + k))
		}
		pkg.Scope().Insert(types.NewConst(token.NoPos, pkg, name, typ, val))
		decl.Specs = append(decl.Specs, &ast.ValueSpec{Names: []*ast.Ident{ast.NewIdent(name)}})
		if typ == enum {
			wantNames = append(wantNames, name)
			wantVals = append(wantVals, k)
		}
	}
	v := &EnumVisitor{}
	v.context = &VisitContext{ArbitrationProvider: providers.VhNewArbitrationProvider(arbitrators.VhNewFacade())}
	fv := &gast.FileVersion{Path: "e.go", Hash: "h"}
	loaded := &packages.Package{PkgPath: "example.com/e", Types: pkg, Fset: token.NewFileSet(), Syntax: []*ast.File{{Name: ast.NewIdent("e"), Decls: []ast.Decl{decl}}}}
	out, err := v.getEnumValueDefinitions(fv, loaded, tn, basic)
	symxAssert(err == nil, "C07.enum-values.no-error")
	symxCover("C07.enum-values.collected")
	symxAssert(len(out) == len(wantNames), "C07.enum-values.exactly-the-constants-of-the-enum-type")
	// scope names come back sorted; the expectation is built in the same (already sorted) order: "Alpha" < "Gamma_1" < "_d" < "beta"
	order := []string{"Alpha", "Gamma_1", "_d", "beta"}
	i := 0
	for _, name := range order {
		for j, wn := range wantNames {
			if wn != name {
				continue
			}
			if i < len(out) {
				symxAssert(out[i].Name == name, "C07.enum-values.names")
				if kind == types.String {
					s, ok := out[i].Value.(string)
					symxAssert(ok && s == "v"+string(rune('0'+wantVals[j])), "C07.enum-values.declared-string-value")
				} else {
					n, ok := out[i].Value.(int64)
					symxAssert(ok && n == int64(10+wantVals[j]), "C07.enum-values.declared-int-value")
				}
			}
			i++
		}
	}
}
