package metadata

import (
	"github.com/gopher-fleece/gleece/v2/definitions"
	"github.com/gopher-fleece/gleece/v2/generator/swagen/swagtool"
)

// reference: is "required" one of the comma separated tags of v (byte loop, no strings.Split)
func vhRefHasRequiredTag(v string) bool {
	start := 0
	for i := 0; i <= len(v); i++ {
		if i == len(v) || v[i] == ',' {
			if v[start:i] == "required" {
				return true
			}
			start = i + 1
		}
	}
	return false
}

func vhC06Requiredness(maxLen int) {
	v := symxString("v", 0, maxLen, "requid,=x")
	isPtr := symxBool("isPtr")
	in := []definitions.ParamPassedIn{definitions.PassedInPath, definitions.PassedInQuery, definitions.PassedInHeader, definitions.PassedInBody, definitions.PassedInForm}[symxChoice("in", 5)]
	out := appendParamRequiredValidation(&v, isPtr, in)
	got := swagtool.IsFieldRequired(out)
	want := !isPtr || in == definitions.PassedInPath || vhRefHasRequiredTag(v)
	if want {
		symxCover("C06.required")
	} else {
		symxCover("C06.optional")
	}
	symxRecord("out", out, got)
	symxAssert(got == want, "C06.a.required-iff")
	// the original tags are preserved as a prefix
	symxAssert(len(out) >= len(v) && out[:len(v)] == v, "C06.a.tags-preserved")
}

func vh_C06_requiredness_Q() { vhC06Requiredness(9) }
func vh_C06_requiredness_T() { vhC06Requiredness(12) }
