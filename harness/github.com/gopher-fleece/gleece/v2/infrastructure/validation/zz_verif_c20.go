package validation

// C20, first clause: a configuration that violates a declared constraint is rejected up front with a message naming
// the field. The real go-playground/validator runs inside the engine (its reflection goes through the interpreter's
// model of package reflect) over the real `validate` tags of definitions.GleeceConfig.

import (
	"strings"

	"github.com/gopher-fleece/gleece/v2/definitions"
)

func vhValidConfig() definitions.GleeceConfig {
	cfg := definitions.GleeceConfig{}
	cfg.CommonConfig.ControllerGlobs = []string{"./*.go"}
	cfg.RoutesConfig.Engine = definitions.RoutingEngineGin
	cfg.RoutesConfig.OutputPath = "./routes.go"
	cfg.RoutesConfig.OutputFilePerms = "0644"
	cfg.RoutesConfig.AuthorizationConfig.AuthFileFullPackageName = "example.com/auth"
	cfg.OpenAPIGeneratorConfig.OpenAPI = "3.0.0"
	cfg.OpenAPIGeneratorConfig.Info = definitions.OpenAPIInfo{Title: "t", Version: "1"}
	cfg.OpenAPIGeneratorConfig.BaseURL = "https://api.example.com"
	cfg.OpenAPIGeneratorConfig.SecuritySchemes = []definitions.SecuritySchemeConfig{{SecurityName: "s", Description: "d", Type: "apiKey", In: "header", FieldName: "x"}}
	cfg.OpenAPIGeneratorConfig.DefaultRouteSecurity = &definitions.SecurityAnnotationComponent{SchemaName: "s", Scopes: []string{}}
	cfg.OpenAPIGeneratorConfig.SpecGeneratorConfig.OutputPath = "./spec.json"
	return cfg
}

type vhCorruption struct {
	field string // the name the message has to carry ("" = the configuration stays valid)
	apply func(c *definitions.GleeceConfig)
}

func vhCorruptions() []vhCorruption {
	return []vhCorruption{
		{"", func(c *definitions.GleeceConfig) {}},
		{"", func(c *definitions.GleeceConfig) { c.RoutesConfig.Engine = definitions.RoutingEngineFiber }},
		{"", func(c *definitions.GleeceConfig) { c.OpenAPIGeneratorConfig.OpenAPI = "3.1.0" }},
		{"", func(c *definitions.GleeceConfig) { c.RoutesConfig.OutputFilePerms = "" }},
		{"", func(c *definitions.GleeceConfig) { c.OpenAPIGeneratorConfig.BaseURL = "http://localhost:8080/v1/" }},
		{"", func(c *definitions.GleeceConfig) {
			c.OpenAPIGeneratorConfig.Info.Contact = &definitions.OpenAPIContact{Name: "n", Email: "a@b.io", URL: "https://c.io"}
		}},
		// unknown engine / version
		{"Engine", func(c *definitions.GleeceConfig) { c.RoutesConfig.Engine = "express" }},
		{"Engine", func(c *definitions.GleeceConfig) { c.RoutesConfig.Engine = "" }},
		{"OpenAPI", func(c *definitions.GleeceConfig) { c.OpenAPIGeneratorConfig.OpenAPI = "2.0" }},
		{"OpenAPI", func(c *definitions.GleeceConfig) { c.OpenAPIGeneratorConfig.OpenAPI = "" }},
		// malformed URL
		{"BaseURL", func(c *definitions.GleeceConfig) { c.OpenAPIGeneratorConfig.BaseURL = "not a url" }},
		{"BaseURL", func(c *definitions.GleeceConfig) { c.OpenAPIGeneratorConfig.BaseURL = "/api/v1" }},
		{"BaseURL", func(c *definitions.GleeceConfig) { c.OpenAPIGeneratorConfig.BaseURL = "http://" }},
		{"BaseURL", func(c *definitions.GleeceConfig) { c.OpenAPIGeneratorConfig.BaseURL = "" }},
		// malformed e-mail
		{"Email", func(c *definitions.GleeceConfig) {
			c.OpenAPIGeneratorConfig.Info.Contact = &definitions.OpenAPIContact{Name: "n", Email: "not-an-email"}
		}},
		// malformed permission string
		{"OutputFilePerms", func(c *definitions.GleeceConfig) { c.RoutesConfig.OutputFilePerms = "0888" }},
		{"OutputFilePerms", func(c *definitions.GleeceConfig) { c.RoutesConfig.OutputFilePerms = "rw-r--r--" }},
		// missing required fields
		{"Title", func(c *definitions.GleeceConfig) { c.OpenAPIGeneratorConfig.Info.Title = "" }},
		{"Version", func(c *definitions.GleeceConfig) { c.OpenAPIGeneratorConfig.Info.Version = "" }},
		{"OutputPath", func(c *definitions.GleeceConfig) { c.RoutesConfig.OutputPath = "" }},
		{"OutputPath", func(c *definitions.GleeceConfig) { c.OpenAPIGeneratorConfig.SpecGeneratorConfig.OutputPath = "" }},
		{"AuthFileFullPackageName", func(c *definitions.GleeceConfig) { c.RoutesConfig.AuthorizationConfig.AuthFileFullPackageName = "" }},
		// malformed security scheme
		{"Type", func(c *definitions.GleeceConfig) { c.OpenAPIGeneratorConfig.SecuritySchemes[0].Type = "bogus" }},
		{"In", func(c *definitions.GleeceConfig) { c.OpenAPIGeneratorConfig.SecuritySchemes[0].In = "body" }},
		{"SecurityName", func(c *definitions.GleeceConfig) { c.OpenAPIGeneratorConfig.SecuritySchemes[0].SecurityName = "" }},
		{"SecurityName", func(c *definitions.GleeceConfig) { c.OpenAPIGeneratorConfig.SecuritySchemes[0].SecurityName = "1s" }},
		{"Description", func(c *definitions.GleeceConfig) { c.OpenAPIGeneratorConfig.SecuritySchemes[0].Description = "" }},
		{"SchemaName", func(c *definitions.GleeceConfig) { c.OpenAPIGeneratorConfig.DefaultRouteSecurity.SchemaName = "" }},
	}
}

func vh_C20_config_gate_Q() {
	all := vhCorruptions()
	k := symxChoice("corruption", len(all))
	cfg := vhValidConfig()
	all[k].apply(&cfg)
	err := ValidateStruct(cfg)
	msg := ExtractValidationErrorMessage(err, nil)
	if all[k].field == "" {
		symxCover("C20.config.valid")
		symxAssert(err == nil, "C20.config.valid-configuration-is-accepted")
		return
	}
	symxCover("C20.config.corrupted")
	symxAssert(err != nil, "C20.config.violated-constraint-is-rejected")
	symxAssert(strings.Contains(msg, "'"+all[k].field+"'"), "C20.config.message-names-the-field")
}
