package validation

// C20, first clause: a configuration that violates a declared constraint is rejected up front with a message naming
// the field. The real go-playground/validator runs inside the engine (its reflection goes through the interpreter's
// model of package reflect) over the real `validate` tags of definitions.GleeceConfig.

import (
	"strings"

	"github.com/gopher-fleece/gleece/v2/definitions"
)

func vhValidConfig() definitions.GleeceConfig {
	cfg := definitions.GleeceConfig{}
	cfg.CommonConfig.ControllerGlobs = []string{"./*.go"}
	cfg.RoutesConfig.Engine = definitions.RoutingEngineGin
	cfg.RoutesConfig.OutputPath = "./routes.go"
	cfg.RoutesConfig.OutputFilePerms = "0644"
	cfg.RoutesConfig.AuthorizationConfig.AuthFileFullPackageName = "example.com/auth"
	cfg.OpenAPIGeneratorConfig.OpenAPI = "3.0.0"
	cfg.OpenAPIGeneratorConfig.Info = definitions.OpenAPIInfo{Title: "t", Version: "1"}
	cfg.OpenAPIGeneratorConfig.BaseURL = "https://api.example.com"
	cfg.OpenAPIGeneratorConfig.SecuritySchemes = []definitions.SecuritySchemeConfig{{SecurityName: "s", Description: "d", Type: "apiKey", In: "header", FieldName: "x"}}
	cfg.OpenAPIGeneratorConfig.DefaultRouteSecurity = &definitions.SecurityAnnotationComponent{SchemaName: "s", Scopes: []string{}}
	cfg.OpenAPIGeneratorConfig.SpecGeneratorConfig.OutputPath = "./spec.json"
	return cfg
}

type vhCorruption struct {
	field string // the name the message has to carry ("" = the configuration stays valid)
	apply func(c *definitions.GleeceConfig)
}

func vhCorruptions() []vhCorruption {
	return []vhCorruption{
		{"", func(c *definitions.GleeceConfig) {}},
		{"", func(c *definitions.GleeceConfig) { c.RoutesConfig.Engine = definitions.RoutingEngineFiber }},
		{"", func(c *definitions.GleeceConfig) { c.OpenAPIGeneratorConfig.OpenAPI = "3.1.0" }},
		{"", func(c *definitions.GleeceConfig) { c.RoutesConfig.OutputFilePerms = "" }},
		{"", func(c *definitions.GleeceConfig) { c.OpenAPIGeneratorConfig.BaseURL = "http://localhost:8080/v1/" }},
		{"", func(c *definitions.GleeceConfig) {
			c.OpenAPIGeneratorConfig.Info.Contact = &definitions.OpenAPIContact{Name: "n", Email: "a@b.io", URL: "https://c.io"}
		}},
		// unknown engine / version
		{"Engine", func(c *definitions.GleeceConfig) { c.RoutesConfig.Engine = "express" }},
		{"Engine", func(c *definitions.GleeceConfig) { c.RoutesConfig.Engine = "" }},
		{"OpenAPI", func(c *definitions.GleeceConfig) { c.OpenAPIGeneratorConfig.OpenAPI = "2.0" }},
		{"OpenAPI", func(c *definitions.GleeceConfig) { c.OpenAPIGeneratorConfig.OpenAPI = "" }},
		// malformed URL
		{"BaseURL", func(c *definitions.GleeceConfig) { c.OpenAPIGeneratorConfig.BaseURL = "not a url" }},
		{"BaseURL", func(c *definitions.GleeceConfig) { c.OpenAPIGeneratorConfig.BaseURL = "/api/v1" }},
		{"BaseURL", func(c *definitions.GleeceConfig) { c.OpenAPIGeneratorConfig.BaseURL = "http://" }},
		{"BaseURL", func(c *definitions.GleeceConfig) { c.OpenAPIGeneratorConfig.BaseURL = "" }},
		// malformed e-mail
		{"Email", func(c *definitions.GleeceConfig) {
			c.OpenAPIGeneratorConfig.Info.Contact = &definitions.OpenAPIContact{Name: "n", Email: "not-an-email"}
		}},
		// malformed permission string
		{"OutputFilePerms", func(c *definitions.GleeceConfig) { c.RoutesConfig.OutputFilePerms = "0888" }},
		{"OutputFilePerms", func(c *definitions.GleeceConfig) { c.RoutesConfig.OutputFilePerms = "rw-r--r--" }},
		// missing required fields
		{"Title", func(c *definitions.GleeceConfig) { c.OpenAPIGeneratorConfig.Info.Title = "" }},
		{"Version", func(c *definitions.GleeceConfig) { c.OpenAPIGeneratorConfig.Info.Version = "" }},
		{"OutputPath", func(c *definitions.GleeceConfig) { c.RoutesConfig.OutputPath = "" }},
		{"OutputPath", func(c *definitions.GleeceConfig) { c.OpenAPIGeneratorConfig.SpecGeneratorConfig.OutputPath = "" }},
		{"AuthFileFullPackageName", func(c *definitions.GleeceConfig) { c.RoutesConfig.AuthorizationConfig.AuthFileFullPackageName = "" }},
		// malformed security scheme
		{"Type", func(c *definitions.GleeceConfig) { c.OpenAPIGeneratorConfig.SecuritySchemes[0].Type = "bogus" }},
		{"In", func(c *definitions.GleeceConfig) { c.OpenAPIGeneratorConfig.SecuritySchemes[0].In = "body" }},
		{"SecurityName", func(c *definitions.GleeceConfig) { c.OpenAPIGeneratorConfig.SecuritySchemes[0].SecurityName = "" }},
		{"SecurityName", func(c *definitions.GleeceConfig) { c.OpenAPIGeneratorConfig.SecuritySchemes[0].SecurityName = "1s" }},
		{"Description", func(c *definitions.GleeceConfig) { c.OpenAPIGeneratorConfig.SecuritySchemes[0].Description = "" }},
		{"SchemaName", func(c *definitions.GleeceConfig) { c.OpenAPIGeneratorConfig.DefaultRouteSecurity.SchemaName = "" }},
	}
}

func vh_C20_config_gate_Q() {
	all := vhCorruptions()
	k := symxChoice("corruption", len(all))
	cfg := vhValidConfig()
	all[k].apply(&cfg)
	err := ValidateStruct(cfg)
	msg := ExtractValidationErrorMessage(err, nil)
	if all[k].field == "" {
		symxCover("C20.config.valid")
		symxAssert(err == nil, "C20.config.valid-configuration-is-accepted")
		return
	}
	symxCover("C20.config.corrupted")
	symxAssert(err != nil, "C20.config.violated-constraint-is-rejected")
	symxAssert(strings.Contains(msg, "'"+all[k].field+"'"), "C20.config.message-names-the-field")
}

// the permission string, symbolic: the configuration is accepted iff the string is empty or three octal digits with an
// optional leading zero (the rule is read and applied by the real validator; the reference is a byte loop)
func vh_C20_config_perms_Q() {
	perms := symxString("perms", 0, 4, "0178a")
	cfg := vhValidConfig()
	cfg.RoutesConfig.OutputFilePerms = perms
	err := ValidateStruct(cfg)
	digits := perms
	if len(digits) == 4 && digits[0] == '0' {
		digits = digits[1:]
	}
	ok := len(perms) == 0
	if len(digits) == 3 {
		ok = true
		for i := 0; i < 3; i++ {
			if digits[i] < '0' || digits[i] > '7' {
				ok = false
			}
		}
	}
	if ok {
		symxCover("C20.config.perms.accepted")
		symxAssert(err == nil, "C20.config.valid-configuration-is-accepted")
	} else {
		symxCover("C20.config.perms.rejected")
		symxAssert(err != nil && strings.Contains(ExtractValidationErrorMessage(err, nil), "'OutputFilePerms'"), "C20.config.malformed-permission-string-is-rejected-naming-the-field")
	}
}

// engine and OpenAPI version, symbolic: accepted iff one of the five engines / two versions
func vh_C20_config_oneof_Q() {
	cfg := vhValidConfig()
	engine := symxString("engine", 3, 3, "ginmuxch")
	version := "3." + symxString("minor", 1, 1, "0129") + ".0"
	cfg.RoutesConfig.Engine = definitions.RoutingEngineType(engine)
	cfg.OpenAPIGeneratorConfig.OpenAPI = version
	err := ValidateStruct(cfg)
	msg := ExtractValidationErrorMessage(err, nil)
	engineOK := engine == "gin" || engine == "mux" || engine == "chi"
	versionOK := version == "3.0.0" || version == "3.1.0"
	if engineOK && versionOK {
		symxCover("C20.config.oneof.accepted")
		symxAssert(err == nil, "C20.config.valid-configuration-is-accepted")
		return
	}
	symxCover("C20.config.oneof.rejected")
	symxAssert(err != nil, "C20.config.unknown-engine-or-version-is-rejected")
	if !engineOK {
		symxAssert(strings.Contains(msg, "'Engine'"), "C20.config.message-names-the-field")
	}
	if !versionOK {
		symxAssert(strings.Contains(msg, "'OpenAPI'"), "C20.config.message-names-the-field")
	}
}
