package swagen

import (
	"strings"

	"github.com/getkin/kin-openapi/openapi3"
	"github.com/gopher-fleece/gleece/v2/definitions"
	"github.com/gopher-fleece/gleece/v2/generator/swagen/swagen30"
	"github.com/gopher-fleece/gleece/v2/generator/swagen/swagen31"
	"github.com/pb33f/libopenapi/datamodel/high/base"
)

// C08 gate (engine-only: library and OS outcomes are injected as arbitrary successes/failures):
// a spec file is written at most once, only after every validator of the selected version - and the
// 3.0 validator in every case - succeeded, with exactly the bytes of the last stage; otherwise the
// command returns an error and writes nothing.
func vh_C08_gate_E_Q() {
	if !symxIsSymbolic() {
		return
	}
	version := []string{"3.0.0", "3.1.0", "2.0"}[symxChoice("version", 3)]
	cfg := &definitions.OpenAPIGeneratorConfig{OpenAPI: version, BaseURL: "https://x", Info: definitions.OpenAPIInfo{Title: "t", Version: "1"}}
	cfg.SpecGeneratorConfig.OutputPath = "/out/dir/spec.json"
	defs := []definitions.ControllerMetadata{{Name: "Ctl", Tag: "T", RestMetadata: definitions.RestMetadata{Path: "/c"},
		Routes: []definitions.RouteMetadata{{OperationId: "op", HttpVerb: definitions.HttpGet, RestMetadata: definitions.RestMetadata{Path: "/r"},
			Responses: vhErrorOnly(), ResponseSuccessCode: 204, ResponseDescription: "ok"}}}}
	models := &definitions.Models{}
	err := GenerateAndOutputSpec(cfg, defs, models, false)

	log := symxEnvLog()
	failed := map[string]bool{}
	ran := map[string]bool{}
	writes, mkdirs := 0, 0
	written := ""
	for _, e := range log {
		switch {
		case strings.HasPrefix(e, "stub:") && strings.HasSuffix(e, "=fail"):
			failed[strings.TrimSuffix(strings.TrimPrefix(e, "stub:"), "=fail")] = true
			ran[strings.TrimSuffix(strings.TrimPrefix(e, "stub:"), "=fail")] = true
		case strings.HasPrefix(e, "stub:"):
			ran[strings.TrimSuffix(strings.TrimPrefix(e, "stub:"), "=ok")] = true
		case strings.HasPrefix(e, "os.WriteFile:"):
			writes++
			written = strings.TrimPrefix(e, "os.WriteFile:/out/dir/spec.json:")
		case strings.HasPrefix(e, "os.MkdirAll:"):
			mkdirs++
		}
	}
	symxAssert(writes <= 1, "C08.gate.at-most-one-write")
	symxAssert(ran["openapi3.Validate"], "C08.gate.3.0-validation-always-runs")
	allValid := !failed["openapi3.Validate"]
	if version == "3.1.0" {
		allValid = allValid && !failed["v3.RenderJSON"] && !failed["libopenapi.NewDocument"] && !failed["validator.NewValidator"] && !failed["validator.ValidateDocument"]
		if writes > 0 {
			symxAssert(ran["validator.ValidateDocument"], "C08.gate.3.1-document-validated-before-write")
		}
	}
	if version == "2.0" {
		allValid = false
	}
	if writes > 0 {
		symxCover("C08.gate.written")
		symxAssert(allValid, "C08.gate.write-only-after-every-validator-passed")
		symxAssert(mkdirs == 1 && !failed["os.MkdirAll"], "C08.gate.directory-created-first")
		symxAssert(len(written) > 0 && (version != "3.1.0" || strings.Contains(written, "3.1.0")), "C08.gate.bytes-are-the-selected-version's")
	} else {
		symxCover("C08.gate.not-written")
	}
	if !allValid || failed["os.MkdirAll"] || failed["os.WriteFile"] {
		symxAssert(err != nil, "C08.gate.failure-is-an-error")
		if !allValid {
			symxAssert(writes == 0, "C08.gate.invalid-document-never-written")
		}
	} else {
		symxAssert(err == nil && writes == 1, "C08.gate.valid-document-is-written")
	}
}

// enum value kinds of a schema after a usage-site enum/oneof rule, for both dialects
func vhEnumKinds30(s *openapi3.Schema) []string {
	var out []string
	for _, e := range s.Enum {
		switch e.(type) {
		case string:
			out = append(out, "string")
		case int64, int:
			out = append(out, "integer")
		case float64:
			out = append(out, "number")
		default:
			out = append(out, "other")
		}
	}
	return out
}

func vhEnumKinds31(s *base.Schema) []string {
	var out []string
	for _, n := range s.Enum {
		switch n.Tag {
		case "!!int":
			out = append(out, "integer")
		case "!!float":
			out = append(out, "number")
		default:
			out = append(out, "string")
		}
	}
	return out
}

// C08 closure fact: enum values put on a schema by enum=/oneof= rules belong to the schema's declared type
func vhC08EnumTypes(maxVal int) {
	ft := []string{"string", "int", "float64"}[symxChoice("type", 3)]
	rule := []string{"enum", "oneof"}[symxChoice("rule", 2)]
	v := rule + "=" + symxString("value", 1, maxVal, "1a| .")
	doc30, doc31 := vhNewDoc30(), vhNewDoc31()
	ref30 := swagen30.InterfaceToSchemaRef(doc30, ft)
	ref31 := swagen31.InterfaceToSchemaV3(doc31, ft)
	swagen30.BuildSchemaValidation(ref30, v, ft)
	swagen31.BuildSchemaValidationV31(ref31.Schema(), v, ft)
	want := map[string]string{"string": "string", "int": "integer", "float64": "number"}[ft]
	symxRecord("rule", v, ft)
	for vi, kinds := range [][]string{vhEnumKinds30(ref30.Value), vhEnumKinds31(ref31.Schema())} {
		ver := []string{"30", "31"}[vi]
		for _, k := range kinds {
			symxCover("C08.enum.value")
			ok := k == want || (want == "number" && k == "integer")
			symxAssert(ok, "C08."+ver+".enum-values-belong-to-the-declared-type")
		}
	}
}

func vh_C08_enum_types_Q() { vhC08EnumTypes(3) }

// ---- C08 closure of references
//
// Every $ref of the 3.0 document either resolves to an existing component or is left unresolved (nil Value): the
// latter is what kin-openapi's Validate rejects ("found unresolved ref"), and the gate harness shows that a 3.0
// validation failure blocks every output. The 3.1 document must not reference anything the 3.0 document does not,
// because its references are only guarded by that same 3.0 pass.

func vhWalk30(r *openapi3.SchemaRef, depth int, visit func(r *openapi3.SchemaRef)) {
	if r == nil || depth > 4 {
		return
	}
	visit(r)
	if r.Ref != "" || r.Value == nil {
		return
	}
	s := r.Value
	for _, name := range vhSortedSchemaKeys(s.Properties) {
		vhWalk30(s.Properties[name], depth+1, visit)
	}
	vhWalk30(s.Items, depth+1, visit)
	vhWalk30(s.AdditionalProperties.Schema, depth+1, visit)
	for _, part := range s.AllOf {
		vhWalk30(part, depth+1, visit)
	}
}

func vhSortedSchemaKeys(m openapi3.Schemas) []string {
	var ks []string
	for k := range m {
		ks = append(ks, k)
	}
	return vhSortStrings(ks)
}

func vhWalk31(p *base.SchemaProxy, depth int, visit func(ref string)) {
	if p == nil || depth > 4 {
		return
	}
	if p.IsReference() {
		visit(p.GetReference())
		return
	}
	s := p.Schema()
	if s == nil {
		return
	}
	if s.Properties != nil {
		for _, pp := range s.Properties.FromOldest() {
			vhWalk31(pp, depth+1, visit)
		}
	}
	if s.Items != nil {
		vhWalk31(s.Items.A, depth+1, visit)
	}
	if s.AdditionalProperties != nil {
		vhWalk31(s.AdditionalProperties.A, depth+1, visit)
	}
	for _, part := range s.AllOf {
		vhWalk31(part, depth+1, visit)
	}
}

var vhClosureTypes = []string{"string", "M", "X", "[]M", "[]X", "E", "map[string]X", "[][]X"}

func vh_C08_refs_closed_returns_Q() { vhC08RefsClosed(false, true) }
func vh_C08_refs_closed_params_Q()  { vhC08RefsClosed(true, false) }
func vh_C08_refs_closed_T()         { vhC08RefsClosed(true, true) }

func vhC08RefsClosed(symParam, symReturn bool) {
	// models: M (with one field of an arbitrary type) is declared iff hasM; X never is; E is an enum declared iff hasE
	hasM, hasE := symxBool("hasM"), symxBool("hasE")
	models := &definitions.Models{Structs: []definitions.StructMetadata{{Name: definitions.Rfc7807ErrorName}}}
	if hasM {
		ft := vhClosureTypes[symxChoice("M.field", len(vhClosureTypes))]
		models.Structs = append(models.Structs, definitions.StructMetadata{Name: "M", Fields: []definitions.FieldMetadata{{Name: "F", Type: ft, IsEmbedded: ft == "X" && symxBool("M.embedded")}}})
	}
	if hasE {
		models.Enums = append(models.Enums, definitions.EnumMetadata{Name: "E", Type: "string", Values: []string{"x"}})
	}
	route := definitions.RouteMetadata{OperationId: "op", HttpVerb: definitions.HttpPost, RestMetadata: definitions.RestMetadata{Path: "/r"}, ResponseDescription: "ok", ResponseSuccessCode: 200, HasReturnValue: true}
	pt, pin := "string", definitions.PassedInQuery
	if symParam {
		pt = vhClosureTypes[symxChoice("param.type", len(vhClosureTypes))]
		pin = []definitions.ParamPassedIn{definitions.PassedInBody, definitions.PassedInQuery, definitions.PassedInForm}[symxChoice("param.in", 3)]
	}
	route.FuncParams = []definitions.FuncParam{{ParamMeta: definitions.ParamMeta{Name: "g", TypeMeta: definitions.TypeMetadata{Name: pt}}, PassedIn: pin, NameInSchema: "p"}}
	rt, et := "string", "error"
	if symReturn {
		rt = vhClosureTypes[symxChoice("ret.type", len(vhClosureTypes))]
		et = []string{"error", "X"}[symxChoice("err.type", 2)]
	}
	route.Responses = []definitions.FuncReturnValue{{Ordinal: 0, TypeMetadata: definitions.TypeMetadata{Name: rt}}, {Ordinal: 1, TypeMetadata: definitions.TypeMetadata{Name: et}}}
	route.ErrorResponses = []definitions.ErrorResponse{{HttpStatusCode: 500, Description: "e"}}
	defs := []definitions.ControllerMetadata{{Name: "Ctl", Tag: "T", RestMetadata: definitions.RestMetadata{Path: "/c"}, Routes: []definitions.RouteMetadata{route}}}
	cfg := &definitions.OpenAPIGeneratorConfig{}

	doc30, doc31 := vhNewDoc30(), vhNewDoc31()
	err30 := swagen30.GenerateModelsSpec(doc30, models)
	if err30 == nil {
		err30 = swagen30.GenerateControllersSpec(doc30, cfg, defs)
	}
	if err30 != nil {
		return // a refused generation writes nothing (gate harness); not reached on the pinned tree
	}
	exists := func(ref string) bool {
		const pre = "#/components/schemas/"
		if len(ref) <= len(pre) || ref[:len(pre)] != pre {
			return false
		}
		_, ok := doc30.Components.Schemas[ref[len(pre):]]
		return ok
	}
	blocked := false // some reference is left unresolved: the 3.0 validator refuses the document
	var refs30 []string
	visit := func(r *openapi3.SchemaRef) {
		if r.Ref == "" {
			return
		}
		refs30 = append(refs30, r.Ref)
		if exists(r.Ref) {
			symxCover("C08.refs.resolved")
			return
		}
		symxCover("C08.refs.dangling")
		symxAssert(r.Value == nil, "C08.refs.dangling-ref-is-left-unresolved-for-the-validator")
		blocked = true
	}
	for _, name := range vhSortedSchemaKeys(doc30.Components.Schemas) {
		vhWalk30(doc30.Components.Schemas[name], 0, visit)
	}
	for _, v := range vhOps30(doc30) {
		op := v.op30
		for _, p := range op.Parameters {
			vhWalk30(p.Value.Schema, 0, visit)
		}
		if op.RequestBody != nil && op.RequestBody.Value != nil {
			for _, ct := range []string{"application/json", "application/x-www-form-urlencoded"} {
				if mt := op.RequestBody.Value.Content[ct]; mt != nil {
					vhWalk30(mt.Schema, 0, visit)
				}
			}
		}
		respMap := op.Responses.Map()
		var codes []string
		for code := range respMap {
			codes = append(codes, code)
		}
		for _, code := range vhSortStrings(codes) {
			r := respMap[code]
			if r != nil && r.Value != nil {
				if mt := r.Value.Content["application/json"]; mt != nil {
					vhWalk30(mt.Schema, 0, visit)
				}
			}
		}
	}
	// 3.1: nothing referenced that 3.0 does not reference
	err31 := swagen31.GenerateModelsSpec(doc31, models)
	if err31 == nil {
		err31 = swagen31.GenerateControllersSpec(doc31, cfg, defs)
	}
	if err31 != nil {
		return
	}
	visit31 := func(ref string) {
		symxAssert(vhContainsStr(refs30, ref), "C08.refs.31-references-only-what-30-references")
	}
	if doc31.Components != nil && doc31.Components.Schemas != nil {
		for _, p := range doc31.Components.Schemas.FromOldest() {
			vhWalk31(p, 0, visit31)
		}
	}
	for _, v := range vhOps31(doc31) {
		op := v.op31
		for _, p := range op.Parameters {
			vhWalk31(p.Schema, 0, visit31)
		}
		if op.RequestBody != nil && op.RequestBody.Content != nil {
			for _, mt := range op.RequestBody.Content.FromOldest() {
				if mt != nil {
					vhWalk31(mt.Schema, 0, visit31)
				}
			}
		}
		if op.Responses != nil && op.Responses.Codes != nil {
			for _, r := range op.Responses.Codes.FromOldest() {
				if r != nil && r.Content != nil {
					for _, mt := range r.Content.FromOldest() {
						if mt != nil {
							vhWalk31(mt.Schema, 0, visit31)
						}
					}
				}
			}
		}
	}
	_ = blocked
}
