package swagen

import (
	"encoding/json"
	"strings"

	"github.com/getkin/kin-openapi/openapi3"
	"github.com/gopher-fleece/gleece/v2/definitions"
	"github.com/gopher-fleece/gleece/v2/generator/swagen/swagen30"
	"github.com/gopher-fleece/gleece/v2/generator/swagen/swagen31"
	"github.com/pb33f/libopenapi/datamodel/high/base"
	"go.yaml.in/yaml/v4"
)

// C08 gate (engine-only: library and OS outcomes are injected as arbitrary successes/failures):
// a spec file is written at most once, only after every validator of the selected version - and the
// 3.0 validator in every case - succeeded, with exactly the bytes of the last stage; otherwise the
// command returns an error and writes nothing.
func vh_C08_gate_E_Q() {
	if !symxIsSymbolic() {
		return
	}
	version := []string{"3.0.0", "3.1.0", "2.0"}[symxChoice("version", 3)]
	cfg := &definitions.OpenAPIGeneratorConfig{OpenAPI: version, BaseURL: "https://x", Info: definitions.OpenAPIInfo{Title: "t", Version: "1"}}
	cfg.SpecGeneratorConfig.OutputPath = "/out/dir/spec.json"
	defs := []definitions.ControllerMetadata{{Name: "Ctl", Tag: "T", RestMetadata: definitions.RestMetadata{Path: "/c"},
		Routes: []definitions.RouteMetadata{{OperationId: "op", HttpVerb: definitions.HttpGet, RestMetadata: definitions.RestMetadata{Path: "/r"},
			Responses: vhErrorOnly(), ResponseSuccessCode: 204, ResponseDescription: "ok"}}}}
	models := &definitions.Models{}
	err := GenerateAndOutputSpec(cfg, defs, models, false)

	log := symxEnvLog()
	failed := map[string]bool{}
	ran := map[string]bool{}
	writes, mkdirs := 0, 0
	written := ""
	for _, e := range log {
		switch {
		case strings.HasPrefix(e, "stub:") && strings.HasSuffix(e, "=fail"):
			failed[strings.TrimSuffix(strings.TrimPrefix(e, "stub:"), "=fail")] = true
			ran[strings.TrimSuffix(strings.TrimPrefix(e, "stub:"), "=fail")] = true
		case strings.HasPrefix(e, "stub:"):
			ran[strings.TrimSuffix(strings.TrimPrefix(e, "stub:"), "=ok")] = true
		case strings.HasPrefix(e, "os.WriteFile:"):
			writes++
			written = strings.TrimPrefix(e, "os.WriteFile:/out/dir/spec.json:")
		case strings.HasPrefix(e, "os.MkdirAll:"):
			mkdirs++
		}
	}
	symxAssert(writes <= 1, "C08.gate.at-most-one-write")
	symxAssert(ran["openapi3.Validate"], "C08.gate.3.0-validation-always-runs")
	allValid := !failed["openapi3.Validate"]
	if version == "3.1.0" {
		allValid = allValid && !failed["v3.RenderJSON"] && !failed["libopenapi.NewDocument"] && !failed["validator.NewValidator"] && !failed["validator.ValidateDocument"]
		if writes > 0 {
			symxAssert(ran["validator.ValidateDocument"], "C08.gate.3.1-document-validated-before-write")
		}
	}
	if version == "2.0" {
		allValid = false
	}
	if writes > 0 {
		symxCover("C08.gate.written")
		symxAssert(allValid, "C08.gate.write-only-after-every-validator-passed")
		symxAssert(mkdirs == 1 && !failed["os.MkdirAll"], "C08.gate.directory-created-first")
		symxAssert(len(written) > 0 && (version != "3.1.0" || strings.Contains(written, "3.1.0")), "C08.gate.bytes-are-the-selected-version's")
	} else {
		symxCover("C08.gate.not-written")
	}
	if !allValid || failed["os.MkdirAll"] || failed["os.WriteFile"] {
		symxAssert(err != nil, "C08.gate.failure-is-an-error")
		if !allValid {
			symxAssert(writes == 0, "C08.gate.invalid-document-never-written")
		}
	} else {
		symxAssert(err == nil && writes == 1, "C08.gate.valid-document-is-written")
	}
}

// enum value kinds of a schema after a usage-site enum/oneof rule, for both dialects
func vhEnumKinds30(s *openapi3.Schema) []string {
	var out []string
	for _, e := range s.Enum {
		switch e.(type) {
		case string:
			out = append(out, "string")
		case int64, int:
			out = append(out, "integer")
		case float64:
			out = append(out, "number")
		case bool:
			out = append(out, "boolean")
		default:
			out = append(out, "other")
		}
	}
	return out
}

// the JSON kind a scalar node is rendered with: its tag if it has one, otherwise what the YAML core schema resolves
// the plain text to (the model below is checked against the library itself on every native replay)
func vhYamlKind(n *yaml.Node) string {
	kind := ""
	switch n.Tag {
	case "!!int":
		kind = "integer"
	case "!!float":
		kind = "number"
	case "!!str":
		kind = "string"
	case "!!bool":
		kind = "boolean"
	case "":
		kind = vhResolvePlainScalar(n.Value)
	default:
		kind = "other"
	}
	if !symxIsSymbolic() {
		if real := vhRealYamlKind(n); real != kind {
			panic("harness model of YAML scalar resolution disagrees with the library: " + n.Value + " -> " + real + " vs " + kind)
		}
	}
	return kind
}

func vhRealYamlKind(n *yaml.Node) string {
	b, err := yaml.Marshal(n)
	if err != nil {
		return "error"
	}
	var v any
	if yaml.Unmarshal(b, &v) != nil {
		return "error"
	}
	switch v.(type) {
	case string:
		return "string"
	case int, int64, uint64:
		return "integer"
	case float64:
		return "number"
	case bool:
		return "boolean"
	case nil:
		return "null"
	}
	return "other"
}

func vhIsDigits(s string) bool {
	if s == "" {
		return false
	}
	for i := 0; i < len(s); i++ {
		if s[i] < '0' || s[i] > '9' {
			return false
		}
	}
	return true
}

// plain scalars over the harness alphabets (digits, letters, '.', '-', 'e'): decimal integers, decimal floats,
// true/false, null; everything else is a string
func vhResolvePlainScalar(s string) string {
	switch s {
	case "", "~", "null", "Null", "NULL":
		return "null"
	case "true", "True", "TRUE", "false", "False", "FALSE":
		return "boolean"
	}
	t := s
	if t[0] == '-' || t[0] == '+' {
		t = t[1:]
	}
	if vhIsDigits(t) {
		return "integer"
	}
	// an exponent: mantissa [eE] [-+]? digits
	for i := 0; i < len(t); i++ {
		if t[i] == 'e' || t[i] == 'E' {
			exp := t[i+1:]
			if exp != "" && (exp[0] == '-' || exp[0] == '+') {
				exp = exp[1:]
			}
			m := t[:i]
			if vhIsDigits(exp) && (vhIsDigits(m) || vhIsDecimal(m)) {
				return "number"
			}
			return "string"
		}
	}
	if vhIsDecimal(t) {
		return "number"
	}
	return "string"
}

// [0-9]*\.[0-9]* with at least one digit
func vhIsDecimal(t string) bool {
	dot := -1
	for i := 0; i < len(t); i++ {
		if t[i] == '.' {
			dot = i
			break
		}
	}
	if dot >= 0 {
		a, b := t[:dot], t[dot+1:]
		if (a == "" || vhIsDigits(a)) && (b == "" || vhIsDigits(b)) && (a != "" || b != "") {
			return true
		}
	}
	return false
}

func vhEnumKinds31(s *base.Schema) []string {
	var out []string
	for _, n := range s.Enum {
		out = append(out, vhYamlKind(n))
	}
	return out
}

// C08 closure fact: enum values put on a schema by enum=/oneof= rules belong to the schema's declared type
func vhC08EnumTypes(maxVal int) {
	ft := []string{"string", "int", "float64"}[symxChoice("type", 3)]
	rule := []string{"enum", "oneof"}[symxChoice("rule", 2)]
	v := rule + "=" + symxString("value", 1, maxVal, "1a| .")
	doc30, doc31 := vhNewDoc30(), vhNewDoc31()
	ref30 := swagen30.InterfaceToSchemaRef(doc30, ft)
	ref31 := swagen31.InterfaceToSchemaV3(doc31, ft)
	swagen30.BuildSchemaValidation(ref30, v, ft)
	swagen31.BuildSchemaValidationV31(ref31.Schema(), v, ft)
	want := map[string]string{"string": "string", "int": "integer", "float64": "number"}[ft]
	symxRecord("rule", v, ft)
	for vi, kinds := range [][]string{vhEnumKinds30(ref30.Value), vhEnumKinds31(ref31.Schema())} {
		ver := []string{"30", "31"}[vi]
		for _, k := range kinds {
			symxCover("C08.enum.value")
			ok := k == want || (want == "number" && k == "integer")
			symxAssert(ok, "C08."+ver+".enum-values-belong-to-the-declared-type")
		}
	}
}

func vh_C08_enum_types_Q() { vhC08EnumTypes(3) }

// the same for the components of enum types (Models.Enums): values of every basic kind
func vh_C08_model_enum_types_Q() {
	goType := []string{"string", "int", "float64", "bool", "uint8"}[symxChoice("type", 5)]
	want := map[string]string{"string": "string", "int": "integer", "float64": "number", "bool": "boolean", "uint8": "integer"}[goType]
	var values []string
	switch goType {
	case "string":
		// strings that look like numbers, booleans or null are still strings
		values = []string{symxString("v0", 1, 2, "1a.-"), []string{"true", "null", "x", "1e3"}[symxChoice("v1", 4)]}
	case "int", "uint8":
		values = []string{symxString("v0", 1, 2, "12"), "7"}
	case "float64":
		values = []string{symxString("v0", 1, 1, "12") + "." + symxString("v0f", 1, 1, "05"), "3"}
	default:
		values = []string{"true", "false"}
	}
	models := &definitions.Models{Enums: []definitions.EnumMetadata{{Name: "E", Type: goType, Values: values}}}
	doc30, doc31 := vhNewDoc30(), vhNewDoc31()
	symxAssert(swagen30.GenerateModelsSpec(doc30, models) == nil && swagen31.GenerateModelsSpec(doc31, models) == nil, "C08.model-enum.no-error")
	e30 := doc30.Components.Schemas["E"]
	e31, ok := doc31.Components.Schemas.Get("E")
	symxAssert(e30 != nil && e30.Value != nil && ok && e31 != nil && e31.Schema() != nil, "C08.model-enum.component-present")
	if e30 == nil || e30.Value == nil || !ok || e31 == nil || e31.Schema() == nil {
		return
	}
	symxAssert(vhTyp30(e30.Value) == want && vhTyp31(e31.Schema()) == want, "C08.model-enum.declared-type")
	// recorded finding: the components of enum types carry their values as text in 3.0 and as untagged scalars in 3.1
	// (the repository's unit test and e2e golden files pin both), so non-string enums in 3.0 and string enums with
	// number-, boolean- or null-looking values in 3.1 hold values that are not of the declared type
	symxKnownFor("C08-model-enum-values-untyped", "C08.30.enum-values-belong-to-the-declared-type", want != "string")
	looksTyped := false
	for _, v := range values {
		if vhResolvePlainScalar(v) != "string" {
			looksTyped = true
		}
	}
	symxKnownFor("C08-model-enum-values-untyped", "C08.31.enum-values-belong-to-the-declared-type", want == "string" && looksTyped)
	// 3.1 first: a path inside the 3.0 part of the recorded finding ends at its first value
	for vi, kinds := range [][]string{vhEnumKinds31(e31.Schema()), vhEnumKinds30(e30.Value)} {
		ver := []string{"31", "30"}[vi]
		symxAssert(len(kinds) == len(values), "C08."+ver+".model-enum-lists-every-value")
		for _, k := range kinds {
			symxCover("C08.model-enum.value")
			ok := k == want || (want == "number" && k == "integer")
			symxAssert(ok, "C08."+ver+".enum-values-belong-to-the-declared-type")
		}
	}
}

// ---- C08 closure of references
//
// Every $ref of the 3.0 document either resolves to an existing component or is left unresolved (nil Value): the
// latter is what kin-openapi's Validate rejects ("found unresolved ref"), and the gate harness shows that a 3.0
// validation failure blocks every output. The 3.1 document must not reference anything the 3.0 document does not,
// because its references are only guarded by that same 3.0 pass.

func vhWalk30(r *openapi3.SchemaRef, depth int, visit func(r *openapi3.SchemaRef)) {
	if r == nil || depth > 4 {
		return
	}
	visit(r)
	if r.Ref != "" || r.Value == nil {
		return
	}
	s := r.Value
	for _, name := range vhSortedSchemaKeys(s.Properties) {
		vhWalk30(s.Properties[name], depth+1, visit)
	}
	vhWalk30(s.Items, depth+1, visit)
	vhWalk30(s.AdditionalProperties.Schema, depth+1, visit)
	for _, part := range s.AllOf {
		vhWalk30(part, depth+1, visit)
	}
}

func vhSortedSchemaKeys(m openapi3.Schemas) []string {
	var ks []string
	for k := range m {
		ks = append(ks, k)
	}
	return vhSortStrings(ks)
}

func vhWalk31(p *base.SchemaProxy, depth int, visit func(ref string)) {
	if p == nil || depth > 4 {
		return
	}
	if p.IsReference() {
		visit(p.GetReference())
		return
	}
	s := p.Schema()
	if s == nil {
		return
	}
	if s.Properties != nil {
		for _, pp := range s.Properties.FromOldest() {
			vhWalk31(pp, depth+1, visit)
		}
	}
	if s.Items != nil {
		vhWalk31(s.Items.A, depth+1, visit)
	}
	if s.AdditionalProperties != nil {
		vhWalk31(s.AdditionalProperties.A, depth+1, visit)
	}
	for _, part := range s.AllOf {
		vhWalk31(part, depth+1, visit)
	}
}

var vhClosureTypes = []string{"string", "M", "X", "[]M", "[]X", "E", "map[string]X", "[][]X"}

func vh_C08_refs_closed_returns_Q() { vhC08RefsClosed(false, true) }
func vh_C08_refs_closed_params_Q()  { vhC08RefsClosed(true, false) }
func vh_C08_refs_closed_T()         { vhC08RefsClosed(true, true) }

func vhC08RefsClosed(symParam, symReturn bool) {
	// models: M (with one field of an arbitrary type) is declared iff hasM; X never is; E is an enum declared iff hasE
	hasM, hasE := symxBool("hasM"), symxBool("hasE")
	models := &definitions.Models{Structs: []definitions.StructMetadata{{Name: definitions.Rfc7807ErrorName}}}
	if hasM {
		ft := vhClosureTypes[symxChoice("M.field", len(vhClosureTypes))]
		models.Structs = append(models.Structs, definitions.StructMetadata{Name: "M", Fields: []definitions.FieldMetadata{{Name: "F", Type: ft, IsEmbedded: ft == "X" && symxBool("M.embedded")}}})
	}
	if hasE {
		models.Enums = append(models.Enums, definitions.EnumMetadata{Name: "E", Type: "string", Values: []string{"x"}})
	}
	route := definitions.RouteMetadata{OperationId: "op", HttpVerb: definitions.HttpPost, RestMetadata: definitions.RestMetadata{Path: "/r"}, ResponseDescription: "ok", ResponseSuccessCode: 200, HasReturnValue: true}
	pt, pin := "string", definitions.PassedInQuery
	if symParam {
		pt = vhClosureTypes[symxChoice("param.type", len(vhClosureTypes))]
		pin = []definitions.ParamPassedIn{definitions.PassedInBody, definitions.PassedInQuery, definitions.PassedInForm}[symxChoice("param.in", 3)]
	}
	route.FuncParams = []definitions.FuncParam{{ParamMeta: definitions.ParamMeta{Name: "g", TypeMeta: definitions.TypeMetadata{Name: pt}}, PassedIn: pin, NameInSchema: "p"}}
	rt, et := "string", "error"
	if symReturn {
		rt = vhClosureTypes[symxChoice("ret.type", len(vhClosureTypes))]
		et = []string{"error", "X"}[symxChoice("err.type", 2)]
	}
	route.Responses = []definitions.FuncReturnValue{{Ordinal: 0, TypeMetadata: definitions.TypeMetadata{Name: rt}}, {Ordinal: 1, TypeMetadata: definitions.TypeMetadata{Name: et}}}
	route.ErrorResponses = []definitions.ErrorResponse{{HttpStatusCode: 500, Description: "e"}}
	defs := []definitions.ControllerMetadata{{Name: "Ctl", Tag: "T", RestMetadata: definitions.RestMetadata{Path: "/c"}, Routes: []definitions.RouteMetadata{route}}}
	cfg := &definitions.OpenAPIGeneratorConfig{}

	doc30, doc31 := vhNewDoc30(), vhNewDoc31()
	err30 := swagen30.GenerateModelsSpec(doc30, models)
	if err30 == nil {
		err30 = swagen30.GenerateControllersSpec(doc30, cfg, defs)
	}
	if err30 != nil {
		return // a refused generation writes nothing (gate harness); not reached on the pinned tree
	}
	exists := func(ref string) bool {
		const pre = "#/components/schemas/"
		if len(ref) <= len(pre) || ref[:len(pre)] != pre {
			return false
		}
		_, ok := doc30.Components.Schemas[ref[len(pre):]]
		return ok
	}
	blocked := false // some reference is left unresolved: the 3.0 validator refuses the document
	var refs30 []string
	visit := func(r *openapi3.SchemaRef) {
		if r.Ref == "" {
			return
		}
		refs30 = append(refs30, r.Ref)
		if exists(r.Ref) {
			symxCover("C08.refs.resolved")
			return
		}
		symxCover("C08.refs.dangling")
		symxAssert(r.Value == nil, "C08.refs.dangling-ref-is-left-unresolved-for-the-validator")
		blocked = true
	}
	for _, name := range vhSortedSchemaKeys(doc30.Components.Schemas) {
		vhWalk30(doc30.Components.Schemas[name], 0, visit)
	}
	for _, v := range vhOps30(doc30) {
		op := v.op30
		for _, p := range op.Parameters {
			vhWalk30(p.Value.Schema, 0, visit)
		}
		if op.RequestBody != nil && op.RequestBody.Value != nil {
			for _, ct := range []string{"application/json", "application/x-www-form-urlencoded"} {
				if mt := op.RequestBody.Value.Content[ct]; mt != nil {
					vhWalk30(mt.Schema, 0, visit)
				}
			}
		}
		respMap := op.Responses.Map()
		var codes []string
		for code := range respMap {
			codes = append(codes, code)
		}
		for _, code := range vhSortStrings(codes) {
			r := respMap[code]
			if r != nil && r.Value != nil {
				if mt := r.Value.Content["application/json"]; mt != nil {
					vhWalk30(mt.Schema, 0, visit)
				}
			}
		}
	}
	// 3.1: nothing referenced that 3.0 does not reference
	err31 := swagen31.GenerateModelsSpec(doc31, models)
	if err31 == nil {
		err31 = swagen31.GenerateControllersSpec(doc31, cfg, defs)
	}
	if err31 != nil {
		return
	}
	visit31 := func(ref string) {
		symxAssert(vhContainsStr(refs30, ref), "C08.refs.31-references-only-what-30-references")
	}
	if doc31.Components != nil && doc31.Components.Schemas != nil {
		for _, p := range doc31.Components.Schemas.FromOldest() {
			vhWalk31(p, 0, visit31)
		}
	}
	for _, v := range vhOps31(doc31) {
		op := v.op31
		for _, p := range op.Parameters {
			vhWalk31(p.Schema, 0, visit31)
		}
		if op.RequestBody != nil && op.RequestBody.Content != nil {
			for _, mt := range op.RequestBody.Content.FromOldest() {
				if mt != nil {
					vhWalk31(mt.Schema, 0, visit31)
				}
			}
		}
		if op.Responses != nil && op.Responses.Codes != nil {
			for _, r := range op.Responses.Codes.FromOldest() {
				if r != nil && r.Content != nil {
					for _, mt := range r.Content.FromOldest() {
						if mt != nil {
							vhWalk31(mt.Schema, 0, visit31)
						}
					}
				}
			}
		}
	}
	_ = blocked
}

// ---- C08 with the real 3.0 validator in the loop (kin-openapi's Validate interpreted from source, not the stand-in):
// whatever swagen30.GenerateSpec returns without an error is a document in which every path template name has
// exactly one matching required path parameter and vice versa, parameter names are unique per location and every
// response has a description.
func vh_C08_written_30_is_closed_Q() {
	symxRealLibrary("openapi3.Validate")
	// two routes whose templates may differ only in the name of a parameter, or coincide, or be unrelated
	names := []string{"id", "key"}
	n0, n1 := names[symxChoice("name0", 2)], names[symxChoice("name1", 2)]
	lit1 := []string{"by", "of"}[symxChoice("lit1", 2)]
	verb1 := []definitions.HttpVerb{definitions.HttpGet, definitions.HttpPost}[symxChoice("verb1", 2)]
	// accepted projects only: two routes of one verb whose templates overlap are a route conflict (C15)
	symxAssume(!(lit1 == "by" && verb1 == definitions.HttpGet))
	mk := func(op string, verb definitions.HttpVerb, lit, name string) definitions.RouteMetadata {
		return definitions.RouteMetadata{OperationId: op, HttpVerb: verb, RestMetadata: definitions.RestMetadata{Path: "/" + lit + "/{" + name + "}"},
			FuncParams: []definitions.FuncParam{{ParamMeta: definitions.ParamMeta{Name: "p", TypeMeta: definitions.TypeMetadata{Name: "string"}}, PassedIn: definitions.PassedInPath, NameInSchema: name, Validator: "required"}},
			Responses:  vhErrorOnly(), ResponseSuccessCode: 204, ResponseDescription: "ok"}
	}
	defs := []definitions.ControllerMetadata{{Name: "Ctl", Tag: "T", RestMetadata: definitions.RestMetadata{Path: "/items"},
		Routes: []definitions.RouteMetadata{mk("A", definitions.HttpGet, "by", n0), mk("B", verb1, lit1, n1)}}}
	cfg := &definitions.OpenAPIGeneratorConfig{OpenAPI: "3.0.0", BaseURL: "https://x", Info: definitions.OpenAPIInfo{Title: "t", Version: "1"}}
	models := &definitions.Models{Structs: []definitions.StructMetadata{{Name: definitions.Rfc7807ErrorName}}}
	out, err := swagen30.GenerateSpec(cfg, defs, models)
	if err != nil {
		symxCover("C08.written.refused")
		return // the command fails and writes nothing (gate harness)
	}
	symxCover("C08.written.accepted")
	var doc struct {
		Paths map[string]map[string]struct {
			Parameters []struct {
				Name     string `json:"name"`
				In       string `json:"in"`
				Required bool   `json:"required"`
			} `json:"parameters"`
			Responses map[string]struct {
				Description *string `json:"description"`
			} `json:"responses"`
		} `json:"paths"`
	}
	symxAssert(json.Unmarshal(out, &doc) == nil, "C08.written.document-parses")
	nOps := 0
	for _, p := range vhSortedAnyKeys(doc.Paths) {
		// names in the template
		var tnames []string
		for i := 0; i < len(p); i++ {
			if p[i] == '{' {
				j := i
				for j < len(p) && p[j] != '}' {
					j++
				}
				tnames = append(tnames, p[i+1:j])
			}
		}
		item := doc.Paths[p]
		for _, verb := range []string{"get", "post"} {
			op, ok := item[verb]
			if !ok {
				continue
			}
			nOps++
			var pnames []string
			for _, prm := range op.Parameters {
				if prm.In == "path" {
					symxAssert(prm.Required, "C08.written.path-parameters-are-required")
					symxAssert(!vhContainsStr(pnames, prm.Name), "C08.written.parameter-names-unique-per-location")
					pnames = append(pnames, prm.Name)
				}
			}
			symxAssert(vhSameStrings(vhSortStrings(pnames), vhSortStrings(tnames)), "C08.written.template-names-and-path-parameters-correspond")
			for _, r := range op.Responses {
				symxAssert(r.Description != nil, "C08.written.every-response-has-a-description")
			}
		}
	}
	symxAssert(nOps == 2, "C08.written.both-operations-are-in-the-document")
}

func vhSortedAnyKeys[V any](m map[string]V) []string {
	var ks []string
	for k := range m {
		ks = append(ks, k)
	}
	return vhSortStrings(ks)
}

func vhCollectRefs(v any, out *[]string) {
	switch x := v.(type) {
	case map[string]any:
		for _, k := range vhSortedAnyKeys(x) {
			if k == "$ref" {
				if s, ok := x[k].(string); ok {
					*out = append(*out, s)
				}
				continue
			}
			vhCollectRefs(x[k], out)
		}
	case []any:
		for _, e := range x {
			vhCollectRefs(e, out)
		}
	}
}

// the same with references: a 3.0 document that GenerateSpec returns (real validator) has no dangling $ref, whatever
// types the route and the models name
func vh_C08_written_30_refs_Q() {
	symxRealLibrary("openapi3.Validate")
	hasM := symxBool("hasM")
	models := &definitions.Models{Structs: []definitions.StructMetadata{{Name: definitions.Rfc7807ErrorName}}}
	if hasM {
		ft := vhClosureTypes[symxChoice("M.field", len(vhClosureTypes))]
		models.Structs = append(models.Structs, definitions.StructMetadata{Name: "M", Fields: []definitions.FieldMetadata{{Name: "F", Type: ft}}})
	}
	if symxBool("hasE") {
		models.Enums = append(models.Enums, definitions.EnumMetadata{Name: "E", Type: "string", Values: []string{"x"}})
	}
	rt := vhClosureTypes[symxChoice("ret.type", len(vhClosureTypes))]
	pt := vhClosureTypes[symxChoice("param.type", 4)]
	route := definitions.RouteMetadata{OperationId: "op", HttpVerb: definitions.HttpPost, RestMetadata: definitions.RestMetadata{Path: "/r"}, ResponseDescription: "ok", ResponseSuccessCode: 200, HasReturnValue: true,
		FuncParams: []definitions.FuncParam{{ParamMeta: definitions.ParamMeta{Name: "g", TypeMeta: definitions.TypeMetadata{Name: pt}}, PassedIn: definitions.PassedInBody, NameInSchema: "p"}},
		Responses:  []definitions.FuncReturnValue{{Ordinal: 0, TypeMetadata: definitions.TypeMetadata{Name: rt}}, {Ordinal: 1, TypeMetadata: definitions.TypeMetadata{Name: "error"}}}}
	defs := []definitions.ControllerMetadata{{Name: "Ctl", Tag: "T", RestMetadata: definitions.RestMetadata{Path: "/c"}, Routes: []definitions.RouteMetadata{route}}}
	cfg := &definitions.OpenAPIGeneratorConfig{OpenAPI: "3.0.0", BaseURL: "https://x", Info: definitions.OpenAPIInfo{Title: "t", Version: "1"}}
	out, err := swagen30.GenerateSpec(cfg, defs, models)
	if err != nil {
		symxCover("C08.written.refs.refused")
		return
	}
	symxCover("C08.written.refs.accepted")
	var doc map[string]any
	symxAssert(json.Unmarshal(out, &doc) == nil, "C08.written.document-parses")
	var refs []string
	vhCollectRefs(doc, &refs)
	comps, _ := doc["components"].(map[string]any)
	schemas, _ := comps["schemas"].(map[string]any)
	const pre = "#/components/schemas/"
	for _, r := range refs {
		ok := len(r) > len(pre) && r[:len(pre)] == pre
		if ok {
			_, ok = schemas[r[len(pre):]]
		}
		symxAssert(ok, "C08.written.every-ref-resolves-to-an-existing-component")
	}
}
