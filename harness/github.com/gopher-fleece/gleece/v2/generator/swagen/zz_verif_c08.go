package swagen

import (
	"strings"

	"github.com/getkin/kin-openapi/openapi3"
	"github.com/gopher-fleece/gleece/v2/definitions"
	"github.com/gopher-fleece/gleece/v2/generator/swagen/swagen30"
	"github.com/gopher-fleece/gleece/v2/generator/swagen/swagen31"
	"github.com/pb33f/libopenapi/datamodel/high/base"
)

// C08 gate (engine-only: library and OS outcomes are injected as arbitrary successes/failures):
// a spec file is written at most once, only after every validator of the selected version - and the
// 3.0 validator in every case - succeeded, with exactly the bytes of the last stage; otherwise the
// command returns an error and writes nothing.
func vh_C08_gate_E_Q() {
	if !symxIsSymbolic() {
		return
	}
	version := []string{"3.0.0", "3.1.0", "2.0"}[symxChoice("version", 3)]
	cfg := &definitions.OpenAPIGeneratorConfig{OpenAPI: version, BaseURL: "https://x", Info: definitions.OpenAPIInfo{Title: "t", Version: "1"}}
	cfg.SpecGeneratorConfig.OutputPath = "/out/dir/spec.json"
	defs := []definitions.ControllerMetadata{{Name: "Ctl", Tag: "T", RestMetadata: definitions.RestMetadata{Path: "/c"},
		Routes: []definitions.RouteMetadata{{OperationId: "op", HttpVerb: definitions.HttpGet, RestMetadata: definitions.RestMetadata{Path: "/r"},
			Responses: vhErrorOnly(), ResponseSuccessCode: 204, ResponseDescription: "ok"}}}}
	models := &definitions.Models{}
	err := GenerateAndOutputSpec(cfg, defs, models, false)

	log := symxEnvLog()
	failed := map[string]bool{}
	ran := map[string]bool{}
	writes, mkdirs := 0, 0
	written := ""
	for _, e := range log {
		switch {
		case strings.HasPrefix(e, "stub:") && strings.HasSuffix(e, "=fail"):
			failed[strings.TrimSuffix(strings.TrimPrefix(e, "stub:"), "=fail")] = true
			ran[strings.TrimSuffix(strings.TrimPrefix(e, "stub:"), "=fail")] = true
		case strings.HasPrefix(e, "stub:"):
			ran[strings.TrimSuffix(strings.TrimPrefix(e, "stub:"), "=ok")] = true
		case strings.HasPrefix(e, "os.WriteFile:"):
			writes++
			written = strings.TrimPrefix(e, "os.WriteFile:/out/dir/spec.json:")
		case strings.HasPrefix(e, "os.MkdirAll:"):
			mkdirs++
		}
	}
	symxAssert(writes <= 1, "C08.gate.at-most-one-write")
	symxAssert(ran["openapi3.Validate"], "C08.gate.3.0-validation-always-runs")
	allValid := !failed["openapi3.Validate"]
	if version == "3.1.0" {
		allValid = allValid && !failed["v3.RenderJSON"] && !failed["libopenapi.NewDocument"] && !failed["validator.NewValidator"] && !failed["validator.ValidateDocument"]
		if writes > 0 {
			symxAssert(ran["validator.ValidateDocument"], "C08.gate.3.1-document-validated-before-write")
		}
	}
	if version == "2.0" {
		allValid = false
	}
	if writes > 0 {
		symxCover("C08.gate.written")
		symxAssert(allValid, "C08.gate.write-only-after-every-validator-passed")
		symxAssert(mkdirs == 1 && !failed["os.MkdirAll"], "C08.gate.directory-created-first")
		symxAssert(len(written) > 0 && (version != "3.1.0" || strings.Contains(written, "3.1.0")), "C08.gate.bytes-are-the-selected-version's")
	} else {
		symxCover("C08.gate.not-written")
	}
	if !allValid || failed["os.MkdirAll"] || failed["os.WriteFile"] {
		symxAssert(err != nil, "C08.gate.failure-is-an-error")
		if !allValid {
			symxAssert(writes == 0, "C08.gate.invalid-document-never-written")
		}
	} else {
		symxAssert(err == nil && writes == 1, "C08.gate.valid-document-is-written")
	}
}

// enum value kinds of a schema after a usage-site enum/oneof rule, for both dialects
func vhEnumKinds30(s *openapi3.Schema) []string {
	var out []string
	for _, e := range s.Enum {
		switch e.(type) {
		case string:
			out = append(out, "string")
		case int64, int:
			out = append(out, "integer")
		case float64:
			out = append(out, "number")
		default:
			out = append(out, "other")
		}
	}
	return out
}

func vhEnumKinds31(s *base.Schema) []string {
	var out []string
	for _, n := range s.Enum {
		switch n.Tag {
		case "!!int":
			out = append(out, "integer")
		case "!!float":
			out = append(out, "number")
		default:
			out = append(out, "string")
		}
	}
	return out
}

// C08 closure fact: enum values put on a schema by enum=/oneof= rules belong to the schema's declared type
func vhC08EnumTypes(maxVal int) {
	ft := []string{"string", "int", "float64"}[symxChoice("type", 3)]
	rule := []string{"enum", "oneof"}[symxChoice("rule", 2)]
	v := rule + "=" + symxString("value", 1, maxVal, "1a| .")
	doc30, doc31 := vhNewDoc30(), vhNewDoc31()
	ref30 := swagen30.InterfaceToSchemaRef(doc30, ft)
	ref31 := swagen31.InterfaceToSchemaV3(doc31, ft)
	swagen30.BuildSchemaValidation(ref30, v, ft)
	swagen31.BuildSchemaValidationV31(ref31.Schema(), v, ft)
	want := map[string]string{"string": "string", "int": "integer", "float64": "number"}[ft]
	symxRecord("rule", v, ft)
	for vi, kinds := range [][]string{vhEnumKinds30(ref30.Value), vhEnumKinds31(ref31.Schema())} {
		ver := []string{"30", "31"}[vi]
		for _, k := range kinds {
			symxCover("C08.enum.value")
			ok := k == want || (want == "number" && k == "integer")
			symxAssert(ok, "C08."+ver+".enum-values-belong-to-the-declared-type")
		}
	}
}

func vh_C08_enum_types_Q() { vhC08EnumTypes(3) }
