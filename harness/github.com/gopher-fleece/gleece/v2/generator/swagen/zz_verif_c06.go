package swagen

import (
	"github.com/gopher-fleece/gleece/v2/definitions"
	"github.com/gopher-fleece/gleece/v2/generator/swagen/swagen30"
	"github.com/gopher-fleece/gleece/v2/generator/swagen/swagen31"
	"github.com/gopher-fleece/runtime"
)

type vhParamView struct {
	name     string
	in       string
	required bool
	ref      string
	typ      string
}

type vhRespView struct {
	code       string
	hasDesc    bool
	contentRef string
	contentTyp string
	hasContent bool
}

type vhOpDetail struct {
	params       []vhParamView
	hasBody      bool
	bodyRequired bool
	bodyJSONRef  string
	bodyJSONTyp  string
	hasJSON      bool
	hasForm      bool
	formProps    []string
	formRequired []string
	responses    []vhRespView
	// kin-openapi's NewResponses() seeds every 3.0 operation with a "default" response
	hasDefaultResponse bool
}

func vhDetail30(v *vhOpView) vhOpDetail {
	var d vhOpDetail
	op := v.op30
	for _, p := range op.Parameters {
		pv := vhParamView{name: p.Value.Name, in: p.Value.In, required: p.Value.Required}
		pv.ref, pv.typ = vhLeaf30(p.Value.Schema)
		d.params = append(d.params, pv)
	}
	if op.RequestBody != nil && op.RequestBody.Value != nil {
		d.hasBody = true
		d.bodyRequired = op.RequestBody.Value.Required
		if mt := op.RequestBody.Value.Content["application/json"]; mt != nil {
			d.hasJSON = true
			d.bodyJSONRef, d.bodyJSONTyp = vhLeaf30(mt.Schema)
		}
		if mt := op.RequestBody.Value.Content["application/x-www-form-urlencoded"]; mt != nil && mt.Schema != nil && mt.Schema.Value != nil {
			d.hasForm = true
			var names []string
			for n := range mt.Schema.Value.Properties {
				names = append(names, n)
			}
			d.formProps = vhSortStrings(names)
			d.formRequired = mt.Schema.Value.Required
		}
	}
	var codes []string
	for code := range op.Responses.Map() {
		codes = append(codes, code)
	}
	for _, code := range vhSortStrings(codes) {
		r := op.Responses.Value(code)
		if code == "default" {
			d.hasDefaultResponse = true
			continue
		}
		rv := vhRespView{code: code}
		if r != nil && r.Value != nil {
			rv.hasDesc = r.Value.Description != nil
			if mt := r.Value.Content["application/json"]; mt != nil {
				rv.hasContent = true
				rv.contentRef, rv.contentTyp = vhLeaf30(mt.Schema)
			}
		}
		d.responses = append(d.responses, rv)
	}
	return d
}

func vhDetail31(v *vhOpView) vhOpDetail {
	var d vhOpDetail
	op := v.op31
	for _, p := range op.Parameters {
		pv := vhParamView{name: p.Name, in: p.In}
		if p.Required != nil {
			pv.required = *p.Required
		}
		pv.ref, pv.typ = vhLeaf31(p.Schema)
		d.params = append(d.params, pv)
	}
	if op.RequestBody != nil {
		d.hasBody = true
		if op.RequestBody.Required != nil {
			d.bodyRequired = *op.RequestBody.Required
		}
		if op.RequestBody.Content != nil {
			if mt, ok := op.RequestBody.Content.Get("application/json"); ok && mt != nil {
				d.hasJSON = true
				d.bodyJSONRef, d.bodyJSONTyp = vhLeaf31(mt.Schema)
			}
			if mt, ok := op.RequestBody.Content.Get("application/x-www-form-urlencoded"); ok && mt != nil && mt.Schema != nil && mt.Schema.Schema() != nil {
				d.hasForm = true
				fs := mt.Schema.Schema()
				var names []string
				if fs.Properties != nil {
					for n := range fs.Properties.KeysFromOldest() {
						names = append(names, n)
					}
				}
				d.formProps = vhSortStrings(names)
				d.formRequired = fs.Required
			}
		}
	}
	var codes []string
	if op.Responses != nil && op.Responses.Codes != nil {
		for code := range op.Responses.Codes.KeysFromOldest() {
			codes = append(codes, code)
		}
	}
	for _, code := range vhSortStrings(codes) {
		r, _ := op.Responses.Codes.Get(code)
		rv := vhRespView{code: code}
		if r != nil {
			rv.hasDesc = r.Description != ""
			if r.Content != nil {
				if mt, ok := r.Content.Get("application/json"); ok && mt != nil {
					rv.hasContent = true
					rv.contentRef, rv.contentTyp = vhLeaf31(mt.Schema)
				}
			}
		}
		d.responses = append(d.responses, rv)
	}
	return d
}

var vhParamTypes = []string{"string", "int", "bool", "[]string", "E"}
var vhLocations = []definitions.ParamPassedIn{definitions.PassedInPath, definitions.PassedInQuery, definitions.PassedInHeader, definitions.PassedInForm, definitions.PassedInBody}

type vhParamIn struct {
	isContext bool
	in        definitions.ParamPassedIn
	name      string
	typ       string
	validator string
}

func vhRespFind(rs []vhRespView, code string) *vhRespView {
	for i := range rs {
		if rs[i].code == code {
			return &rs[i]
		}
	}
	return nil
}

func vhCodeStr(c int) string {
	return string(rune('0'+c/100)) + string(rune('0'+(c/10)%10)) + string(rune('0'+c%10))
}

func vhC06Route(maxParams int, nValidators int, symbolicResponses bool, allowClash bool) {
	np := symxChoice("params.n", maxParams+1)
	var ins []vhParamIn
	route := definitions.RouteMetadata{OperationId: "op", HttpVerb: definitions.HttpGet, RestMetadata: definitions.RestMetadata{Path: "/r"}, ResponseDescription: "ok"}
	for i := 0; i < np; i++ {
		t := "p" + vhD(i)
		in := vhParamIn{isContext: symxBool(t + ".ctx")}
		if !in.isContext {
			in.in = vhLocations[symxChoice(t+".in", len(vhLocations))]
			in.name = symxString(t+".name", 1, 1, "ab")
			for _, prev := range ins {
				if !prev.isContext && prev.in == in.in {
					symxAssume(prev.name != in.name) // wire names are unique per location
				}
			}
			in.typ = vhParamTypes[symxChoice(t+".type", len(vhParamTypes))]
			if in.in == definitions.PassedInBody {
				in.typ = "S1"
			}
			in.validator = []string{"", "required", "required,min=1", "oneof=x y"}[symxChoice(t+".validator", nValidators)]
		}
		ins = append(ins, in)
		route.FuncParams = append(route.FuncParams, definitions.FuncParam{
			ParamMeta: definitions.ParamMeta{Ordinal: i, Name: "g" + vhD(i), IsContext: in.isContext, TypeMeta: definitions.TypeMetadata{Name: in.typ}},
			PassedIn:  in.in, NameInSchema: in.name, Validator: in.validator})
	}
	// accepted projects only (C10): at most one body, never a body together with form fields
	nb, nf := 0, 0
	for _, in := range ins {
		if !in.isContext && in.in == definitions.PassedInBody {
			nb++
		}
		if !in.isContext && in.in == definitions.PassedInForm {
			nf++
		}
	}
	symxAssume(nb <= 1 && !(nb > 0 && nf > 0))
	// return shape and responses
	errName := "error"
	if symbolicResponses {
		errName = []string{"error", "MyErr"}[symxChoice("errtype", 2)]
	}
	valueType := ""
	if symbolicResponses && symxBool("hasValue") {
		valueType = []string{"string", "S1"}[symxChoice("valuetype", 2)]
		route.Responses = []definitions.FuncReturnValue{{Ordinal: 0, TypeMetadata: definitions.TypeMetadata{Name: valueType}}, {Ordinal: 1, TypeMetadata: definitions.TypeMetadata{Name: errName}}}
		route.HasReturnValue = true
	} else {
		route.Responses = []definitions.FuncReturnValue{{Ordinal: 0, TypeMetadata: definitions.TypeMetadata{Name: errName}}}
	}
	success, ne := 204, 0
	if symbolicResponses {
		success = []int{200, 204, 201}[symxChoice("success", 3)]
		ne = symxChoice("errs.n", 3)
	}
	route.ResponseSuccessCode = runtime.HttpStatusCode(success)
	var errCodes []int
	for i := 0; i < ne; i++ {
		nCodes := 2
		if allowClash {
			nCodes = 4 // an @ErrorResponse may reuse the success code: validation accepts it
		}
		c := []int{400, 404, 200, 204}[symxChoice("err"+vhD(i), nCodes)]
		errCodes = append(errCodes, c)
		route.ErrorResponses = append(route.ErrorResponses, definitions.ErrorResponse{HttpStatusCode: runtime.HttpStatusCode(c), Description: "e"})
	}
	defs := []definitions.ControllerMetadata{{Name: "Ctl", Tag: "T", RestMetadata: definitions.RestMetadata{Path: "/c"}, Routes: []definitions.RouteMetadata{route}}}
	models := &definitions.Models{
		Structs: []definitions.StructMetadata{{Name: "S1", Fields: []definitions.FieldMetadata{{Name: "X", Type: "string"}}}, {Name: "MyErr"}, {Name: definitions.Rfc7807ErrorName}},
		Enums:   []definitions.EnumMetadata{{Name: "E", Type: "string", Values: []string{"x", "y"}}}}
	cfg := &definitions.OpenAPIGeneratorConfig{}

	doc30, doc31 := vhNewDoc30(), vhNewDoc31()
	symxAssert(swagen30.GenerateModelsSpec(doc30, models) == nil && swagen31.GenerateModelsSpec(doc31, models) == nil, "C06.models-no-error")
	symxAssert(swagen30.GenerateControllersSpec(doc30, cfg, defs) == nil, "C06.30.no-error")
	symxAssert(swagen31.GenerateControllersSpec(doc31, cfg, defs) == nil, "C06.31.no-error")
	ops30, ops31 := vhOps30(doc30), vhOps31(doc31)
	symxAssert(len(ops30) == 1 && len(ops31) == 1, "C06.one-operation")
	if len(ops30) != 1 || len(ops31) != 1 {
		return
	}
	details := []vhOpDetail{vhDetail30(&ops30[0]), vhDetail31(&ops31[0])}
	for vi, d := range details {
		ver := []string{"30", "31"}[vi]
		// parameters = the non-context path/query/header parameters in signature order
		k := 0
		nBody, nForm := 0, 0
		var lastBody *vhParamIn
		var formNames, formReq []string
		for i := range ins {
			in := &ins[i]
			if in.isContext {
				symxCover("C06.context-param")
				continue
			}
			switch in.in {
			case definitions.PassedInBody:
				nBody++
				lastBody = in
			case definitions.PassedInForm:
				nForm++
				formNames = append(formNames, in.name)
				if vhRefHasRequired(in.validator) {
					formReq = append(formReq, in.name)
				}
			default:
				symxAssert(k < len(d.params), "C06."+ver+".parameter-documented")
				if k < len(d.params) {
					p := d.params[k]
					wantIn := map[definitions.ParamPassedIn]string{definitions.PassedInPath: "path", definitions.PassedInQuery: "query", definitions.PassedInHeader: "header"}[in.in]
					wr, wt := vhExpectedLeaf(in.typ)
					symxAssert(p.name == in.name && p.in == wantIn, "C06."+ver+".parameter-name-and-location")
					symxAssert(p.required == vhRefHasRequired(in.validator), "C06."+ver+".parameter-required")
					symxAssert(p.ref == wr && p.typ == wt, "C06."+ver+".parameter-schema")
				}
				k++
			}
		}
		symxAssert(k == len(d.params), "C06."+ver+".no-extra-parameters")
		// accepted routes have at most one body and never a body together with form fields (C10)
		if nBody <= 1 && !(nBody > 0 && nForm > 0) {
			if nBody == 1 {
				symxCover("C06.body")
				symxAssert(d.hasBody && d.hasJSON && d.bodyJSONRef == "#/components/schemas/S1", "C06."+ver+".json-request-body")
				symxAssert(d.bodyRequired == vhRefHasRequired(lastBody.validator), "C06."+ver+".body-required")
			} else if nForm > 0 {
				symxCover("C06.form")
				symxAssert(d.hasBody && d.hasForm && !d.hasJSON, "C06."+ver+".form-request-body")
				symxAssert(vhSameStrings(d.formProps, vhSortStrings(formNames)), "C06."+ver+".form-properties")
				symxAssert(vhSameStrings(vhSortStrings(d.formRequired), vhSortStrings(formReq)), "C06."+ver+".form-required")
			} else {
				symxAssert(!d.hasBody, "C06."+ver+".no-request-body")
			}
		}
		// responses
		wantErrName := errName
		if errName == "error" {
			wantErrName = definitions.Rfc7807ErrorName
		}
		sr := vhRespFind(d.responses, vhCodeStr(success))
		symxAssert(sr != nil, "C06."+ver+".success-response-listed")
		clash := false
		for _, c := range errCodes {
			if c == success {
				clash = true
			}
		}
		if sr != nil && !clash {
			if valueType == "" {
				symxAssert(!sr.hasContent, "C06."+ver+".no-content-without-value")
			} else {
				wr, wt := vhExpectedLeaf(valueType)
				symxAssert(sr.hasContent && sr.contentRef == wr && sr.contentTyp == wt, "C06."+ver+".success-schema")
			}
		}
		for _, c := range errCodes {
			if c == success {
				symxCover("C11.error-code-equals-success-code")
				continue // which of the two wins is not fixed by the contract; the two documents must agree (below)
			}
			er := vhRespFind(d.responses, vhCodeStr(c))
			symxCover("C06.error-response")
			symxAssert(er != nil && er.hasContent && er.contentRef == "#/components/schemas/"+wantErrName, "C06."+ver+".error-response-schema")
		}
		nDistinct := 1
		for i, c := range errCodes {
			dup := c == success
			for j := 0; j < i; j++ {
				if errCodes[j] == c {
					dup = true
				}
			}
			if !dup {
				nDistinct++
			}
		}
		symxAssert(len(d.responses) == nDistinct, "C06."+ver+".no-extra-responses")
		for _, r := range d.responses {
			symxAssert(r.hasDesc, "C08."+ver+".response-has-description")
		}
	}
	// C11: both documents describe the same parameters, bodies and responses
	a, b := details[0], details[1]
	same := len(a.params) == len(b.params) && a.hasBody == b.hasBody && a.bodyRequired == b.bodyRequired && a.hasJSON == b.hasJSON && a.hasForm == b.hasForm &&
		a.bodyJSONRef == b.bodyJSONRef && a.bodyJSONTyp == b.bodyJSONTyp && vhSameStrings(a.formProps, b.formProps) && vhSameStrings(a.formRequired, b.formRequired) && len(a.responses) == len(b.responses)
	if same {
		for i := range a.params {
			same = same && a.params[i] == b.params[i]
		}
		for i := range a.responses {
			same = same && a.responses[i] == b.responses[i]
		}
	}
	symxAssert(same, "C11.operation-details-agree")
	symxKnownFor("C11-default-response-only-in-3.0", "C11.response-code-sets-agree", a.hasDefaultResponse && !b.hasDefaultResponse)
	symxAssert(a.hasDefaultResponse == b.hasDefaultResponse, "C11.response-code-sets-agree")
}

func vh_C06_params_Q()    { vhC06Route(2, 4, false, false) }
func vh_C06_responses_Q() { vhC06Route(0, 4, true, false) }

// C11: the two documents agree on parameters, bodies and responses, also where an error response reuses the success code
func vh_C11_operation_responses_Q() { vhC06Route(0, 4, true, true) }
func vh_C11_operation_params_Q()    { vhC06Route(2, 2, false, false) }

// C14: both emitters never panic on accepted routes and models
func vh_C14_emitters_Q() {
	symxAssertionsOff()
	vhC06Route(2, 4, false, false)
}
