package swagen

import (
	"github.com/getkin/kin-openapi/openapi3"
	"github.com/gopher-fleece/gleece/v2/definitions"
	"github.com/gopher-fleece/gleece/v2/generator/swagen/swagen30"
	"github.com/gopher-fleece/gleece/v2/generator/swagen/swagen31"
	"github.com/pb33f/libopenapi/datamodel/high/base"
)

// dialect-neutral view of a schema (one level of properties, one level of items/additionalProperties)
type vhSchemaView struct {
	ref        string // "#/components/schemas/X" or ""
	typ        string
	format     string
	props      []string // property names in sorted order
	propRefs   []string
	propTyps   []string
	required   []string
	allOf      []string // refs of embedded parts (after the first, inline part)
	inlineOK   bool     // allOf[0] is the inline object holding the own properties
	enum       []string
	itemsRef   string
	itemsTyp   string
	addlRef    string
	addlTyp    string
	isAllOf    bool
	deprecated bool
}

func vhSortStrings(xs []string) []string {
	out := append([]string(nil), xs...)
	for i := 1; i < len(out); i++ {
		for j := i; j > 0 && out[j] < out[j-1]; j-- {
			out[j], out[j-1] = out[j-1], out[j]
		}
	}
	return out
}

func vhTyp30(s *openapi3.Schema) string {
	if s == nil || s.Type == nil || len(*s.Type) == 0 {
		return ""
	}
	return (*s.Type)[0]
}

func vhLeaf30(r *openapi3.SchemaRef) (string, string) {
	if r == nil {
		return "", ""
	}
	if r.Ref != "" {
		return r.Ref, ""
	}
	return "", vhTyp30(r.Value)
}

func vhView30(r *openapi3.SchemaRef) vhSchemaView {
	var v vhSchemaView
	if r == nil {
		return v
	}
	v.ref = r.Ref
	s := r.Value
	if s == nil {
		return v
	}
	own := s
	if len(s.AllOf) > 0 {
		v.isAllOf = true
		if s.AllOf[0].Ref == "" && s.AllOf[0].Value != nil {
			v.inlineOK = true
			own = s.AllOf[0].Value
		}
		for _, part := range s.AllOf[1:] {
			v.allOf = append(v.allOf, part.Ref)
		}
	}
	v.typ, v.format = vhTyp30(own), own.Format
	v.deprecated = s.Deprecated || own.Deprecated
	var names []string
	for name := range own.Properties {
		names = append(names, name)
	}
	v.props = vhSortStrings(names)
	for _, name := range v.props {
		ref, typ := vhLeaf30(own.Properties[name])
		v.propRefs = append(v.propRefs, ref)
		v.propTyps = append(v.propTyps, typ)
	}
	v.required = own.Required
	for _, e := range own.Enum {
		if str, ok := e.(string); ok {
			v.enum = append(v.enum, str)
		} else {
			v.enum = append(v.enum, "?")
		}
	}
	v.itemsRef, v.itemsTyp = vhLeaf30(own.Items)
	v.addlRef, v.addlTyp = vhLeaf30(own.AdditionalProperties.Schema)
	return v
}

func vhTyp31(s *base.Schema) string {
	if s == nil || len(s.Type) == 0 {
		return ""
	}
	return s.Type[0]
}

func vhLeaf31(p *base.SchemaProxy) (string, string) {
	if p == nil {
		return "", ""
	}
	if p.IsReference() {
		return p.GetReference(), ""
	}
	return "", vhTyp31(p.Schema())
}

func vhView31(p *base.SchemaProxy) vhSchemaView {
	var v vhSchemaView
	if p == nil {
		return v
	}
	if p.IsReference() {
		v.ref = p.GetReference()
		return v
	}
	s := p.Schema()
	if s == nil {
		return v
	}
	own := s
	if len(s.AllOf) > 0 {
		v.isAllOf = true
		if !s.AllOf[0].IsReference() && s.AllOf[0].Schema() != nil {
			v.inlineOK = true
			own = s.AllOf[0].Schema()
		}
		for _, part := range s.AllOf[1:] {
			v.allOf = append(v.allOf, part.GetReference())
		}
	}
	v.typ, v.format = vhTyp31(own), own.Format
	v.deprecated = (s.Deprecated != nil && *s.Deprecated) || (own.Deprecated != nil && *own.Deprecated)
	if own.Properties != nil {
		var names []string
		for name := range own.Properties.KeysFromOldest() {
			names = append(names, name)
		}
		v.props = vhSortStrings(names)
		for _, name := range v.props {
			pp, _ := own.Properties.Get(name)
			ref, typ := vhLeaf31(pp)
			v.propRefs = append(v.propRefs, ref)
			v.propTyps = append(v.propTyps, typ)
		}
	}
	v.required = own.Required
	for _, n := range own.Enum {
		v.enum = append(v.enum, n.Value)
	}
	if own.Items != nil {
		v.itemsRef, v.itemsTyp = vhLeaf31(own.Items.A)
	}
	if own.AdditionalProperties != nil {
		v.addlRef, v.addlTyp = vhLeaf31(own.AdditionalProperties.A)
	}
	return v
}

func vhSameView(a, b vhSchemaView) bool {
	return a.ref == b.ref && a.typ == b.typ && a.format == b.format && vhSameStrings(a.props, b.props) && vhSameStrings(a.propRefs, b.propRefs) &&
		vhSameStrings(a.propTyps, b.propTyps) && vhSameStrings(a.required, b.required) && vhSameStrings(a.allOf, b.allOf) && vhSameStrings(a.enum, b.enum) &&
		a.itemsRef == b.itemsRef && a.itemsTyp == b.itemsTyp && a.addlRef == b.addlRef && a.addlTyp == b.addlTyp && a.isAllOf == b.isAllOf && a.inlineOK == b.inlineOK && a.deprecated == b.deprecated
}

// ---- symbolic models

var vhFieldTypeNames = []string{"string", "[]string", "E", "S1", "A", "map[string]int", "int", "bool", "time.Time", "[]byte", "[]E"}

// expected (ref, type) of a property of the given Go type name
func vhExpectedLeaf(t string) (string, string) {
	switch t {
	case "string":
		return "", "string"
	case "int":
		return "", "integer"
	case "bool":
		return "", "boolean"
	case "[]string", "[]E":
		return "", "array"
	case "map[string]int":
		return "", "object"
	case "time.Time", "[]byte":
		return "", "string"
	}
	return "#/components/schemas/" + t, ""
}

type vhFieldIn struct {
	name     string
	typ      string
	embedded bool
	jsonName string // "" = no json tag
	validate string
}

func vhMakeStruct(tag, name string, maxFields int, nTypes int, maxRules int) (definitions.StructMetadata, []vhFieldIn) {
	n := symxChoice(tag+".nfields", maxFields+1)
	st := definitions.StructMetadata{Name: name}
	var ins []vhFieldIn
	for i := 0; i < n; i++ {
		t := tag + ".f" + vhD(i)
		in := vhFieldIn{name: "F" + vhD(i), typ: vhFieldTypeNames[symxChoice(t+".type", nTypes)]}
		if in.typ == "S1" && symxBool(t+".embedded") {
			in.embedded = true
			in.name = "S1"
		}
		goTag := ""
		if !in.embedded {
			if symxBool(t + ".hasJson") {
				in.jsonName = symxString(t+".json", 1, 1, "ab")
				goTag = `json:"` + in.jsonName
				if symxBool(t + ".omitempty") {
					goTag += ",omitempty"
				}
				goTag += `"`
			}
			if maxRules <= 0 {
				in.validate = []string{"", "required", "oneof=x y", "max=x,required"}[symxChoice(t+".v", 4)]
			} else {
				in.validate = vhValidationString(t+".v", maxRules, 1, "1a", 14)
			}
			if in.validate != "" {
				if goTag != "" {
					goTag += " "
				}
				goTag += `validate:"` + in.validate + `"`
			}
		}
		fm := definitions.FieldMetadata{Name: in.name, Type: in.typ, Tag: goTag, IsEmbedded: in.embedded}
		if symxBool(t + ".deprecated") {
			fm.Deprecation = &definitions.DeprecationOptions{Deprecated: true}
		}
		st.Fields = append(st.Fields, fm)
		ins = append(ins, in)
	}
	return st, ins
}

func vhRefHasRequired(v string) bool {
	start := 0
	for i := 0; i <= len(v); i++ {
		if i == len(v) || v[i] == ',' {
			if v[start:i] == "required" {
				return true
			}
			start = i + 1
		}
	}
	return false
}

func vhCheckStruct(v vhSchemaView, ins []vhFieldIn, ver string) {
	hasEmbedded := false
	var wantProps, wantRequired, wantAllOf []string
	for _, f := range ins {
		if f.embedded {
			hasEmbedded = true
			wantAllOf = append(wantAllOf, "#/components/schemas/"+f.typ)
			continue
		}
		name := f.name
		if f.jsonName != "" {
			name = f.jsonName
		}
		if !vhContainsStr(wantProps, name) {
			wantProps = append(wantProps, name)
		}
		if vhRefHasRequired(f.validate) && !vhContainsStr(wantRequired, name) {
			wantRequired = append(wantRequired, name)
		}
	}
	if hasEmbedded {
		symxCover("C07.embedded")
		symxAssert(v.isAllOf && v.inlineOK, "C07."+ver+".embedded-via-allOf")
		symxAssert(vhSameStrings(v.allOf, wantAllOf), "C07."+ver+".allOf-parts")
	} else {
		symxAssert(!v.isAllOf, "C07."+ver+".no-allOf-without-embedding")
	}
	symxAssert(v.typ == "object", "C07."+ver+".struct-is-object")
	symxAssert(vhSameStrings(v.props, vhSortStrings(wantProps)), "C07."+ver+".properties-are-json-visible-fields")
	// required = fields validated as required (as a set, in declaration order when names are distinct)
	symxAssert(vhSameStrings(vhSortStrings(vhDedup(v.required)), vhSortStrings(wantRequired)), "C07."+ver+".required-list")
	// property types (for distinct JSON names)
	for i, name := range v.props {
		var last *vhFieldIn
		count := 0
		for k := range ins {
			f := &ins[k]
			n := f.name
			if f.jsonName != "" {
				n = f.jsonName
			}
			if !f.embedded && n == name {
				last = f
				count++
			}
		}
		if count == 1 && last != nil {
			wr, wt := vhExpectedLeaf(last.typ)
			symxAssert(v.propRefs[i] == wr && v.propTyps[i] == wt, "C07."+ver+".property-type")
		}
	}
}

func vhDedup(xs []string) []string {
	var out []string
	for _, x := range xs {
		if !vhContainsStr(out, x) {
			out = append(out, x)
		}
	}
	return out
}

func vhContainsStr(xs []string, s string) bool {
	for _, x := range xs {
		if x == s {
			return true
		}
	}
	return false
}

func vhC07(maxFields, nTypes, maxRules int) {
	s0, in0 := vhMakeStruct("s0", "S0", maxFields, nTypes, maxRules)
	s1 := definitions.StructMetadata{Name: "S1", Fields: []definitions.FieldMetadata{{Name: "X", Type: "string"}}}
	nEnum := 1 + symxChoice("enum.n", 2)
	enum := definitions.EnumMetadata{Name: "E", Type: "string"}
	for i := 0; i < nEnum; i++ {
		enum.Values = append(enum.Values, symxString("enum.v"+vhD(i), 1, 1, "xy"))
	}
	alias := definitions.NakedAliasMetadata{Name: "A", Type: []string{"string", "int"}[symxChoice("alias.type", 2)]}
	models := &definitions.Models{Structs: []definitions.StructMetadata{s0, s1}, Enums: []definitions.EnumMetadata{enum}, Aliases: []definitions.NakedAliasMetadata{alias}}

	// M' = M with S0's usage-site validate tags removed: the *other* components must not notice
	s0plain := definitions.StructMetadata{Name: "S0"}
	for _, f := range s0.Fields {
		g := f
		g.Tag = ""
		g.Deprecation = nil
		s0plain.Fields = append(s0plain.Fields, g)
	}
	modelsPlain := &definitions.Models{Structs: []definitions.StructMetadata{s0plain, s1}, Enums: models.Enums, Aliases: models.Aliases}

	doc30, doc30p := vhNewDoc30(), vhNewDoc30()
	symxAssert(swagen30.GenerateModelsSpec(doc30, models) == nil && swagen30.GenerateModelsSpec(doc30p, modelsPlain) == nil, "C07.30.no-error")
	doc31, doc31p := vhNewDoc31(), vhNewDoc31()
	symxAssert(swagen31.GenerateModelsSpec(doc31, models) == nil && swagen31.GenerateModelsSpec(doc31p, modelsPlain) == nil, "C07.31.no-error")

	names := []string{"A", "E", "S0", "S1"}
	// (i) one component per listed model and none else
	var got30 []string
	for name := range doc30.Components.Schemas {
		got30 = append(got30, name)
	}
	symxAssert(vhSameStrings(vhSortStrings(got30), names), "C07.30.components-are-the-models")
	var got31 []string
	for name := range doc31.Components.Schemas.KeysFromOldest() {
		got31 = append(got31, name)
	}
	symxAssert(vhSameStrings(vhSortStrings(got31), names), "C07.31.components-are-the-models")

	views30, views31 := map[string]vhSchemaView{}, map[string]vhSchemaView{}
	for _, name := range names {
		views30[name] = vhView30(doc30.Components.Schemas[name])
		p31, _ := doc31.Components.Schemas.Get(name)
		views31[name] = vhView31(p31)
	}
	// (ii) mirrors of the declarations
	vhCheckStruct(views30["S0"], in0, "30")
	vhCheckStruct(views31["S0"], in0, "31")
	for vi, views := range []map[string]vhSchemaView{views30, views31} {
		ver := []string{"30", "31"}[vi]
		symxAssert(views["E"].typ == "string" && vhSameStrings(views["E"].enum, enum.Values), "C07."+ver+".enum-lists-its-constants")
		wantAlias := "string"
		if alias.Type == "int" {
			wantAlias = "integer"
		}
		symxAssert(views["A"].typ == wantAlias && len(views["A"].enum) == 0, "C07."+ver+".alias-maps-to-primitive")
		symxAssert(vhSameStrings(views["S1"].props, []string{"X"}), "C07."+ver+".other-struct-untouched")
		symxAssert(!views["E"].deprecated && !views["A"].deprecated && !views["S1"].deprecated && !views["S0"].deprecated, "C07."+ver+".deprecation-is-the-declaration's")
	}
	// (iii) non-interference: E, A, S1 are the same whether or not S0 carries usage-site validators
	for _, name := range []string{"A", "E", "S1"} {
		p31, _ := doc31p.Components.Schemas.Get(name)
		symxAssert(vhSameView(views30[name], vhView30(doc30p.Components.Schemas[name])), "C07.30.component-independent-of-usage-site")
		symxAssert(vhSameView(views31[name], vhView31(p31)), "C07.31.component-independent-of-usage-site")
	}
	// (iv) every $ref emitted names an existing component; C11: both dialects agree on every component
	for _, name := range names {
		v := views30[name]
		for _, r := range append(append([]string{}, v.propRefs...), v.allOf...) {
			if r != "" {
				symxCover("C07.ref-emitted")
				symxAssert(vhContainsStr([]string{"#/components/schemas/A", "#/components/schemas/E", "#/components/schemas/S0", "#/components/schemas/S1"}, r), "C07.ref-resolves")
			}
		}
		symxAssert(vhSameView(views30[name], views31[name]), "C11.components-agree")
	}
}

func vh_C07_models_Q() { vhC07(2, 6, 0) }
func vh_C07_models_T() { vhC07(2, 9, 0) }

// C14: a struct tag is free text (`go vet` is the only thing that complains about a malformed one): whatever it
// holds - a missing closing quote, an empty value, stray quotes - both model emitters end without a crash
func vh_C14_field_tag_Q() {
	pre := []string{"", `json:"`, `validate:"`, `json:"a" validate:"`, `x:"`, `json:`}[symxChoice("pre", 6)]
	suf := []string{"", `"`, `" `, `" validate:"required`, `" json:"`}[symxChoice("suf", 5)]
	tag := pre + symxString("body", 0, 3, `a",=`) + suf
	models := &definitions.Models{Structs: []definitions.StructMetadata{
		{Name: "M", Fields: []definitions.FieldMetadata{{Name: "F", Type: []string{"string", "int", "[]string"}[symxChoice("type", 3)], Tag: tag}}}}}
	doc30, doc31 := vhNewDoc30(), vhNewDoc31()
	err30 := swagen30.GenerateModelsSpec(doc30, models)
	err31 := swagen31.GenerateModelsSpec(doc31, models)
	symxCover("C14.field-tag.ended")
	symxAssert((err30 == nil) == (err31 == nil), "C14.field-tag.both-emitters-agree-on-acceptance")
}

// C07: `required` lists exactly the fields validated as required - a conditional rule (required_if, required_without,
// ..) or the word inside another rule's value does not make a field required
func vh_C07_required_list_Q() {
	rules := []string{"", "required", "omitempty,required", "required_without=F1", "required_if=F0 x", "oneof=required optional", "min=1,required,max=9", "excluded_unless=F0 required"}
	want := []bool{false, true, true, false, false, false, true, false}
	r0, r1 := symxChoice("rule0", len(rules)), symxChoice("rule1", len(rules))
	tag := func(r string) string {
		if r == "" {
			return `json:"x"`
		}
		return `validate:"` + r + `"`
	}
	models := &definitions.Models{Structs: []definitions.StructMetadata{{Name: "M", Fields: []definitions.FieldMetadata{
		{Name: "F0", Type: "string", Tag: tag(rules[r0])}, {Name: "F1", Type: "int", Tag: tag(rules[r1])}}}}}
	doc30, doc31 := vhNewDoc30(), vhNewDoc31()
	symxAssert(swagen30.GenerateModelsSpec(doc30, models) == nil && swagen31.GenerateModelsSpec(doc31, models) == nil, "C07.required-list.no-error")
	var wantReq []string
	if want[r0] {
		if rules[r0] == "" {
			wantReq = append(wantReq, "x")
		} else {
			wantReq = append(wantReq, "F0")
		}
	}
	if want[r1] {
		wantReq = append(wantReq, "F1")
	}
	p31, _ := doc31.Components.Schemas.Get("M")
	for vi, v := range []vhSchemaView{vhView30(doc30.Components.Schemas["M"]), vhView31(p31)} {
		ver := []string{"30", "31"}[vi]
		symxCover("C07.required-list.compared")
		symxAssert(vhSameStrings(vhSortStrings(v.required), vhSortStrings(wantReq)), "C07."+ver+".required-lists-exactly-the-fields-validated-as-required")
	}
}
