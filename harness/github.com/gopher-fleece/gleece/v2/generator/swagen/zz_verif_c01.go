package swagen

import (
	"github.com/gopher-fleece/gleece/v2/definitions"
	"github.com/gopher-fleece/gleece/v2/generator/swagen/swagen30"
	"github.com/gopher-fleece/gleece/v2/generator/swagen/swagen31"
)

type vhRouteIn struct {
	ctrl       int
	path       string
	verb       definitions.HttpVerb
	hidden     bool
	deprecated bool
	opId       string
}

// builds C controllers x R routes with symbolic prefix/path/verb/hidden/deprecated
func vhC01Inputs(nCtrl, nRoutes, maxPrefix, maxPath int, nVerbs int) ([]definitions.ControllerMetadata, []vhRouteIn, []string) {
	var defs []definitions.ControllerMetadata
	var ins []vhRouteIn
	var prefixes []string
	for c := 0; c < nCtrl; c++ {
		prefix := vhRouteText("c"+vhD(c)+".prefix", maxPrefix)
		prefixes = append(prefixes, prefix)
		def := definitions.ControllerMetadata{Name: "Ctl" + vhD(c), Tag: "T" + vhD(c), RestMetadata: definitions.RestMetadata{Path: prefix}}
		for r := 0; r < nRoutes; r++ {
			tag := "c" + vhD(c) + "r" + vhD(r)
			in := vhRouteIn{
				ctrl:       c,
				path:       vhRouteText(tag+".path", maxPath),
				verb:       vhVerbs[symxChoice(tag+".verb", nVerbs)],
				hidden:     symxBool(tag + ".hidden"),
				deprecated: symxBool(tag + ".deprecated"),
				opId:       "op" + vhD(c) + vhD(r),
			}
			ins = append(ins, in)
			hide := definitions.HideMethodNever
			if in.hidden {
				hide = definitions.HideMethodAlways
			}
			def.Routes = append(def.Routes, definitions.RouteMetadata{
				OperationId:         in.opId,
				HttpVerb:            in.verb,
				Hiding:              definitions.MethodHideOptions{Type: hide},
				Deprecation:         definitions.DeprecationOptions{Deprecated: in.deprecated},
				RestMetadata:        definitions.RestMetadata{Path: in.path},
				Responses:           vhErrorOnly(),
				ResponseSuccessCode: 204,
				ResponseDescription: "ok",
			})
		}
		defs = append(defs, def)
	}
	return defs, ins, prefixes
}

func vhC01Check(ops []vhOpView, ins []vhRouteIn, prefixes []string, ver string) {
	// every annotated, non hidden route is documented at its normalised path and verb
	for i, in := range ins {
		full := vhRefNorm(prefixes[in.ctrl] + in.path)
		if in.hidden {
			symxCover("C01.hidden-route")
			continue
		}
		symxCover("C01.visible-route")
		op := vhFindOp(ops, full, string(in.verb))
		symxAssert(op != nil, "C01."+ver+".annotated-route-documented")
		if op == nil {
			continue
		}
		// when this is the only route mapping here, the operation carries its identity
		unique := true
		for j, other := range ins {
			if j != i && !other.hidden && other.verb == in.verb && vhRefNorm(prefixes[other.ctrl]+other.path) == full {
				unique = false
			}
		}
		if unique {
			symxAssert(op.opId == in.opId, "C01."+ver+".operationId")
			symxAssert(len(op.tags) == 1 && op.tags[0] == "T"+vhD(in.ctrl), "C01."+ver+".tag-is-own-controller")
			symxAssert(op.deprecated == in.deprecated, "C01."+ver+".deprecated-flag")
		} else {
			symxCover("C01.two-routes-same-operation")
		}
	}
	// nothing is invented: every documented (path, verb) stems from a visible route
	for _, op := range ops {
		found := false
		for _, in := range ins {
			if !in.hidden && string(in.verb) == op.verb && vhRefNorm(prefixes[in.ctrl]+in.path) == op.path {
				found = true
			}
		}
		symxAssert(found, "C01."+ver+".no-invented-operation")
	}
}

func vhC01(nCtrl, nRoutes, maxPrefix, maxPath int, nVerbs int) {
	defs, ins, prefixes := vhC01Inputs(nCtrl, nRoutes, maxPrefix, maxPath, nVerbs)
	// Gate assumption: two visible routes whose templates differ only in parameter names make the
	// (always executed) kin-openapi validation fail with "conflicting paths", so no document is
	// emitted for such a project; they are outside "every project gleece accepts".
	for i, a := range ins {
		for j, b := range ins {
			if i < j && !a.hidden && !b.hidden {
				pa, pb := vhRefNorm(prefixes[a.ctrl]+a.path), vhRefNorm(prefixes[b.ctrl]+b.path)
				symxAssume(pa == pb || vhEraseParamNames(pa) != vhEraseParamNames(pb))
			}
		}
	}
	cfg := &definitions.OpenAPIGeneratorConfig{}
	doc30 := vhNewDoc30()
	err := swagen30.GenerateControllersSpec(doc30, cfg, defs)
	symxAssert(err == nil, "C01.30.no-error")
	if err == nil {
		vhC01Check(vhOps30(doc30), ins, prefixes, "30")
	}
	doc31 := vhNewDoc31()
	err = swagen31.GenerateControllersSpec(doc31, cfg, defs)
	symxAssert(err == nil, "C01.31.no-error")
	if err == nil {
		vhC01Check(vhOps31(doc31), ins, prefixes, "31")
	}
}

// one route, rich slash structure in prefix and path: normalisation
func vh_C01_norm_Q() { vhC01(1, 1, 1, 2, 5) }

// two controllers x one route and one controller x two routes, plain shapes: interference between routes
func vh_C01_two_ctrl_Q()   { vhC01(2, 1, -1, -1, 2) }
func vh_C01_two_routes_Q() { vhC01(1, 2, -1, -1, 2) }

// one controller with a slash-rich prefix x two plain routes: path items shared between verbs
func vh_C01_two_routes_slashes_Q() { vhC01(1, 2, 1, -1, 2) }

// thorough tier
func vh_C01_norm_T()               { vhC01(1, 1, 2, 2, 5) }
func vh_C01_two_ctrl_T()           { vhC01(2, 1, -1, 1, 3) }
func vh_C01_two_routes_slashes_T() { vhC01(1, 2, 1, 1, 2) }

// C11: the two documents show the same paths for the same routes, whatever the slash structure of prefix and route
// (the C01 reference is applied to both documents; one verb is enough here)
func vh_C11_paths_Q() { vhC01(1, 1, 1, 2, 1) }
