package swagen

import (
	"github.com/gopher-fleece/gleece/v2/core/annotations"
	"github.com/gopher-fleece/gleece/v2/core/metadata"
	"github.com/gopher-fleece/gleece/v2/definitions"
	"github.com/gopher-fleece/gleece/v2/generator/swagen/swagen30"
	"github.com/gopher-fleece/gleece/v2/generator/swagen/swagen31"
)

var vhSchemeNames = []string{"s0", "s1", "s2", "zz", "S0"} // "zz" and the case variant "S0" are never declared

type vhSec struct {
	scheme string
	scopes []string
}

// n symbolic @Security attributes
func vhSecAttrs(tag string, max int) ([]annotations.Attribute, []vhSec) {
	n := symxChoice(tag+".n", max+1)
	var attrs []annotations.Attribute
	var secs []vhSec
	for i := 0; i < n; i++ {
		t := tag + ".a" + vhD(i)
		s := vhSec{scheme: vhSchemeNames[symxChoice(t+".scheme", len(vhSchemeNames))]}
		props := map[string]any{}
		if symxBool(t + ".hasScopes") {
			ns := symxChoice(t+".nscopes", 3)
			var raw []any
			for k := 0; k < ns; k++ {
				sc := symxString(t+".scope"+vhD(k), 1, 1, "rw")
				raw = append(raw, sc)
				s.scopes = append(s.scopes, sc)
			}
			props["scopes"] = raw
		}
		attrs = append(attrs, annotations.Attribute{Name: annotations.GleeceAnnotationSecurity, Value: s.scheme, Properties: props})
		secs = append(secs, s)
	}
	return attrs, secs
}

func vhSameStrings(a, b []string) bool {
	if len(a) != len(b) {
		return false
	}
	for i := range a {
		if a[i] != b[i] {
			return false
		}
	}
	return true
}

func vhC04(maxCtrlSec, maxRouteSec int) {
	// configuration: a symbolic subset of the universe is declared; optional default security
	cfg := &definitions.GleeceConfig{}
	declared := []bool{symxBool("decl.s0"), symxBool("decl.s1"), true, false, false}
	for i, name := range vhSchemeNames[:3] {
		if declared[i] {
			cfg.OpenAPIGeneratorConfig.SecuritySchemes = append(cfg.OpenAPIGeneratorConfig.SecuritySchemes, definitions.SecuritySchemeConfig{
				SecurityName: name, Description: "d", Type: "apiKey", In: "header", FieldName: "X-" + name})
		}
	}
	var def []vhSec
	if symxBool("default.present") {
		d := vhSec{scheme: vhSchemeNames[symxChoice("default.scheme", len(vhSchemeNames))], scopes: []string{"r"}}
		cfg.OpenAPIGeneratorConfig.DefaultRouteSecurity = &definitions.SecurityAnnotationComponent{SchemaName: d.scheme, Scopes: d.scopes}
		def = []vhSec{d}
	}

	ctrlAttrs, ctrlSecs := vhSecAttrs("ctrl", maxCtrlSec)
	routeAttrs, routeSecs := vhSecAttrs("route", maxRouteSec)
	ctrlAttrs = append([]annotations.Attribute{{Name: annotations.GleeceAnnotationTag, Value: "T"}, {Name: annotations.GleeceAnnotationRoute, Value: "/c"}}, ctrlAttrs...)
	routeAttrs = append([]annotations.Attribute{{Name: annotations.GleeceAnnotationMethod, Value: "GET"}, {Name: annotations.GleeceAnnotationRoute, Value: "/r"}}, routeAttrs...)
	ctrlHolder := annotations.NewAnnotationHolderFromData(ctrlAttrs, nil)
	routeHolder := annotations.NewAnnotationHolderFromData(routeAttrs, nil)

	ctrl := metadata.ControllerMeta{
		Struct:    metadata.StructMeta{SymNodeMeta: metadata.SymNodeMeta{Name: "Ctl", Annotations: &ctrlHolder}},
		Receivers: []metadata.ReceiverMeta{{SymNodeMeta: metadata.SymNodeMeta{Name: "Op", Annotations: &routeHolder}}},
	}
	reduced, err := ctrl.Reduce(metadata.ReductionContext{GleeceConfig: cfg})
	symxAssert(err == nil, "C04.reduce-no-error")
	if err != nil {
		return
	}

	// (i) effective alternatives: the method's own list, else the controller's, else the default, else none
	want := routeSecs
	if len(want) == 0 {
		want = ctrlSecs
		symxCover("C04.inherits-controller")
	} else {
		symxCover("C04.own-security")
	}
	if len(want) == 0 {
		want = def
		if len(def) > 0 {
			symxCover("C04.inherits-default")
		} else {
			symxCover("C04.no-security")
		}
	}
	symxAssert(len(reduced.Routes) == 1, "C04.one-route")
	eff := reduced.Routes[0].Security
	symxAssert(len(eff) == len(want), "C04.effective.count")
	for i := range eff {
		if i < len(want) {
			c := eff[i].SecurityAnnotation
			symxAssert(len(c) == 1 && c[0].SchemaName == want[i].scheme && vhSameStrings(c[0].Scopes, want[i].scopes), "C04.effective.alternative")
		}
	}

	// does any effective alternative name an undeclared scheme?
	undeclared := false
	for _, w := range want {
		ok := false
		for i, name := range vhSchemeNames {
			if name == w.scheme && declared[i] {
				ok = true
			}
		}
		if !ok {
			undeclared = true
		}
	}

	defs := []definitions.ControllerMetadata{reduced}
	ocfg := &cfg.OpenAPIGeneratorConfig

	doc30 := vhNewDoc30()
	symxAssert(swagen30.GenerateSecuritySpec(doc30, &ocfg.SecuritySchemes) == nil, "C04.30.schemes-no-error")
	err30 := swagen30.GenerateControllersSpec(doc30, ocfg, defs)
	doc31 := vhNewDoc31()
	symxAssert(swagen31.GenerateSecuritySpec(doc31, &ocfg.SecuritySchemes) == nil, "C04.31.schemes-no-error")
	err31 := swagen31.GenerateControllersSpec(doc31, ocfg, defs)

	if undeclared {
		symxCover("C04.undeclared-scheme")
		symxAssert(err30 != nil, "C04.30.undeclared-scheme-is-an-error")
		symxAssert(err31 != nil, "C04.31.undeclared-scheme-is-an-error")
		symxAssert(len(vhOps30(doc30)) == 0 && len(vhOps31(doc31)) == 0, "C04.undeclared-scheme-no-operation")
		return
	}
	symxAssert(err30 == nil && err31 == nil, "C04.declared-schemes-no-error")
	if err30 != nil || err31 != nil {
		return
	}
	for vi, ops := range [][]vhOpView{vhOps30(doc30), vhOps31(doc31)} {
		ver := []string{"30", "31"}[vi]
		symxAssert(len(ops) == 1, "C04."+ver+".one-operation")
		if len(ops) != 1 {
			continue
		}
		op := ops[0]
		// (ii) documented security = effective alternatives, same order, same scopes
		symxAssert(len(op.security) == len(want), "C04."+ver+".documented.count")
		for i, req := range op.security {
			if i < len(want) {
				symxAssert(len(req.names) == 1 && req.names[0] == want[i].scheme && vhSameStrings(req.scopes[0], want[i].scopes), "C04."+ver+".documented.alternative")
			}
		}
	}
	// (iii) every scheme named is declared under components.securitySchemes as configured
	for _, w := range want {
		s30 := doc30.Components.SecuritySchemes[w.scheme]
		symxAssert(s30 != nil && s30.Value != nil && s30.Value.Type == "apiKey" && s30.Value.In == "header" && s30.Value.Name == "X-"+w.scheme, "C04.30.scheme-declared-as-configured")
		s31, ok := doc31.Components.SecuritySchemes.Get(w.scheme)
		symxAssert(ok && s31 != nil && s31.Type == "apiKey" && s31.In == "header" && s31.Name == "X-"+w.scheme, "C04.31.scheme-declared-as-configured")
	}
	for i, name := range vhSchemeNames {
		_, in31 := doc31.Components.SecuritySchemes.Get(name)
		symxAssert((doc30.Components.SecuritySchemes[name] != nil) == declared[i] && in31 == declared[i], "C04.schemes-are-exactly-the-configured")
	}
}

func vh_C04_inheritance_Q() { vhC04(1, 2) }
func vh_C04_inheritance_T() { vhC04(2, 1) }

// C14: malformed @Security properties are reported as errors, never as a crash
func vh_C14_security_props_Q() {
	var scopes any
	switch symxChoice("scopes.shape", 6) {
	case 0:
		scopes = []any{"r"}
	case 1:
		scopes = []any{nil}
	case 2:
		scopes = []any{float64(1)}
	case 3:
		scopes = "r"
	case 4:
		scopes = nil
	default:
		scopes = []any{"r", nil}
	}
	attrs := []annotations.Attribute{
		{Name: annotations.GleeceAnnotationMethod, Value: "GET"}, {Name: annotations.GleeceAnnotationRoute, Value: "/r"},
		{Name: annotations.GleeceAnnotationSecurity, Value: "s0", Properties: map[string]any{"scopes": scopes}}}
	h := annotations.NewAnnotationHolderFromData(attrs, nil)
	ctrlH := annotations.NewAnnotationHolderFromData([]annotations.Attribute{{Name: annotations.GleeceAnnotationTag, Value: "T"}}, nil)
	ctrl := metadata.ControllerMeta{
		Struct:    metadata.StructMeta{SymNodeMeta: metadata.SymNodeMeta{Name: "Ctl", Annotations: &ctrlH}},
		Receivers: []metadata.ReceiverMeta{{SymNodeMeta: metadata.SymNodeMeta{Name: "Op", Annotations: &h}}},
	}
	_, err := ctrl.Reduce(metadata.ReductionContext{GleeceConfig: &definitions.GleeceConfig{}})
	if err != nil {
		symxCover("C14.security-props.error-returned")
	} else {
		symxCover("C14.security-props.accepted")
	}
}

// C01 (annotation -> flat IR -> document): the reduced route carries exactly what the annotations say, and
// both documents show it (or hide it) accordingly
func vh_C01_reduce_Q() {
	verb := vhVerbs[symxChoice("verb", len(vhVerbs))]
	route := vhRouteText("route", -1)
	prefix := vhRouteText("prefix", -1)
	hidden := symxBool("hidden")
	deprecated := symxBool("deprecated")
	tag := "T" + symxString("tag", 0, 1, "ab")
	rattrs := []annotations.Attribute{{Name: annotations.GleeceAnnotationMethod, Value: string(verb)}, {Name: annotations.GleeceAnnotationRoute, Value: route}}
	if hidden {
		// @Hidden hides the route whether or not the annotation carries a value
		rattrs = append(rattrs, annotations.Attribute{Name: annotations.GleeceAnnotationHidden, Value: []string{"", "internal"}[symxChoice("hidden.value", 2)]})
	}
	if deprecated {
		rattrs = append(rattrs, annotations.Attribute{Name: annotations.GleeceAnnotationDeprecated, Description: "old"})
	}
	cattrs := []annotations.Attribute{{Name: annotations.GleeceAnnotationTag, Value: tag}, {Name: annotations.GleeceAnnotationRoute, Value: prefix}}
	rh := annotations.NewAnnotationHolderFromData(rattrs, nil)
	ch := annotations.NewAnnotationHolderFromData(cattrs, nil)
	ctrl := metadata.ControllerMeta{
		Struct:    metadata.StructMeta{SymNodeMeta: metadata.SymNodeMeta{Name: "Ctl", Annotations: &ch}},
		Receivers: []metadata.ReceiverMeta{{SymNodeMeta: metadata.SymNodeMeta{Name: "DoIt", Annotations: &rh}}},
	}
	reduced, err := ctrl.Reduce(metadata.ReductionContext{GleeceConfig: &definitions.GleeceConfig{}})
	symxAssert(err == nil && len(reduced.Routes) == 1, "C01.reduce.no-error")
	if err != nil || len(reduced.Routes) != 1 {
		return
	}
	r := reduced.Routes[0]
	symxAssert(r.OperationId == "DoIt", "C01.reduce.operationId-is-the-method-name")
	symxAssert(r.HttpVerb == verb, "C01.reduce.verb-is-@Method")
	symxAssert(r.RestMetadata.Path == route && reduced.RestMetadata.Path == prefix, "C01.reduce.paths-are-@Route")
	symxAssert((r.Hiding.Type == definitions.HideMethodAlways) == hidden, "C01.reduce.hidden-iff-@Hidden")
	symxAssert(r.Deprecation.Deprecated == deprecated, "C01.reduce.deprecated-iff-@Deprecated")
	symxAssert(reduced.Tag == tag, "C01.reduce.tag-is-@Tag")
	// and the documents
	r.Responses = vhErrorOnly()
	r.ResponseSuccessCode = 204
	reduced.Routes[0] = r
	doc30, doc31 := vhNewDoc30(), vhNewDoc31()
	cfg := &definitions.OpenAPIGeneratorConfig{}
	symxAssert(swagen30.GenerateControllersSpec(doc30, cfg, []definitions.ControllerMetadata{reduced}) == nil, "C01.reduce.30-no-error")
	symxAssert(swagen31.GenerateControllersSpec(doc31, cfg, []definitions.ControllerMetadata{reduced}) == nil, "C01.reduce.31-no-error")
	full := vhRefNorm(prefix + route)
	for vi, ops := range [][]vhOpView{vhOps30(doc30), vhOps31(doc31)} {
		ver := []string{"30", "31"}[vi]
		op := vhFindOp(ops, full, string(verb))
		if hidden {
			symxCover("C01.reduce.hidden")
			symxAssert(len(ops) == 0, "C01.reduce."+ver+".hidden-method-is-not-documented")
		} else {
			symxCover("C01.reduce.visible")
			symxAssert(len(ops) == 1 && op != nil, "C01.reduce."+ver+".annotated-method-is-documented")
			if op != nil {
				symxAssert(op.opId == "DoIt" && len(op.tags) == 1 && op.tags[0] == tag && op.deprecated == deprecated, "C01.reduce."+ver+".operation-carries-name-tag-deprecation")
			}
		}
	}
}
