package swagen

import (
	"github.com/getkin/kin-openapi/openapi3"
	"github.com/gopher-fleece/gleece/v2/generator/swagen/swagen30"
	"github.com/gopher-fleece/gleece/v2/generator/swagen/swagen31"
	"github.com/pb33f/libopenapi/datamodel/high/base"
)

var vhRuleNames = []string{"gt", "gte", "lt", "lte", "min", "max", "len", "minItems", "maxItems", "uniqueItems", "enum", "oneof", "email", "pattern", "required"}
var vhFieldTypes = []string{"string", "int", "float64", "[]string", "bool", "Obj"}

// a validation string of up to maxRules rules; names from the converter's vocabulary (or a junk name),
// values symbolic
func vhValidationString(tag string, maxRules, maxVal int, valAlphabet string, nNames int) string {
	n := symxChoice(tag+".n", maxRules+1)
	s := ""
	for i := 0; i < n; i++ {
		t := tag + ".r" + vhD(i)
		if i > 0 {
			s += ","
		}
		k := symxChoice(t+".name", nNames+1)
		if k == nNames {
			s += symxString(t+".junk", 0, 2, "x=")
		} else {
			s += vhRuleNames[k]
		}
		if symxBool(t + ".hasValue") {
			s += "=" + symxString(t+".value", 0, maxVal, valAlphabet)
		}
	}
	return s
}

// dialect-neutral summary of the constraints a converter put on a schema
type vhConstraints struct {
	format       string
	pattern      string
	hasMin       bool
	min          float64
	exclMin      bool
	hasMax       bool
	max          float64
	exclMax      bool
	minLen       int64
	hasMaxLen    bool
	maxLen       int64
	minItems     int64
	hasMaxItems  bool
	maxItems     int64
	uniqueItems  bool
	enum         []string
	enumIsString []bool
}

func vhConstraints30(s *openapi3.Schema) vhConstraints {
	c := vhConstraints{format: s.Format, pattern: s.Pattern, minLen: int64(s.MinLength), minItems: int64(s.MinItems), uniqueItems: s.UniqueItems}
	if s.Min != nil {
		c.hasMin, c.min, c.exclMin = true, *s.Min, s.ExclusiveMin
	}
	if s.Max != nil {
		c.hasMax, c.max, c.exclMax = true, *s.Max, s.ExclusiveMax
	}
	if s.MaxLength != nil {
		c.hasMaxLen, c.maxLen = true, int64(*s.MaxLength)
	}
	if s.MaxItems != nil {
		c.hasMaxItems, c.maxItems = true, int64(*s.MaxItems)
	}
	for _, e := range s.Enum {
		switch v := e.(type) {
		case string:
			c.enum = append(c.enum, v)
			c.enumIsString = append(c.enumIsString, true)
		default:
			c.enum = append(c.enum, "?")
			c.enumIsString = append(c.enumIsString, false)
		}
	}
	return c
}

func vhConstraints31(s *base.Schema) vhConstraints {
	c := vhConstraints{format: s.Format, pattern: s.Pattern}
	// 3.1 keeps `minimum` and `exclusiveMinimum` separately; the effective bound is the exclusive one when present
	if s.Minimum != nil {
		c.hasMin, c.min = true, *s.Minimum
	}
	if s.ExclusiveMinimum != nil {
		c.hasMin, c.min, c.exclMin = true, s.ExclusiveMinimum.B, true
	}
	if s.Maximum != nil {
		c.hasMax, c.max = true, *s.Maximum
	}
	if s.ExclusiveMaximum != nil {
		c.hasMax, c.max, c.exclMax = true, s.ExclusiveMaximum.B, true
	}
	if s.MinLength != nil {
		c.minLen = *s.MinLength
	}
	if s.MaxLength != nil {
		c.hasMaxLen, c.maxLen = true, *s.MaxLength
	}
	if s.MinItems != nil {
		c.minItems = *s.MinItems
	}
	if s.MaxItems != nil {
		c.hasMaxItems, c.maxItems = true, *s.MaxItems
	}
	if s.UniqueItems != nil {
		c.uniqueItems = *s.UniqueItems
	}
	for _, n := range s.Enum {
		c.enum = append(c.enum, n.Value)
		c.enumIsString = append(c.enumIsString, n.Tag == "" || n.Tag == "!!str")
	}
	return c
}

func vhC11Kernel(maxRules, maxVal int, valAlphabet string, nNames int, panicsOnly bool) {
	v := vhValidationString("v", maxRules, maxVal, valAlphabet, nNames)
	ft := vhFieldTypes[symxChoice("type", len(vhFieldTypes))]
	symxRecord("input", v, ft)
	doc30, doc31 := vhNewDoc30(), vhNewDoc31()
	ref30 := swagen30.InterfaceToSchemaRef(doc30, ft)
	ref31 := swagen31.InterfaceToSchemaV3(doc31, ft)
	// as createContentWithSchemaRef / createRouteParam do
	swagen30.BuildSchemaValidation(ref30, v, ft)
	if ref31.Schema() != nil {
		swagen31.BuildSchemaValidationV31(ref31.Schema(), v, ft)
	}
	symxCover("C14.converter.returned")
	if panicsOnly {
		return
	}
	if ref30.Value == nil || ref31.Schema() == nil {
		symxCover("C11.kernel.ref-type")
		return
	}
	symxCover("C11.kernel.compared")
	a, b := vhConstraints30(ref30.Value), vhConstraints31(ref31.Schema())
	symxAssert(a.format == b.format, "C11.kernel.format")
	symxAssert(a.pattern == b.pattern, "C11.kernel.pattern")
	symxAssert(a.hasMin == b.hasMin && (!a.hasMin || (a.min == b.min && a.exclMin == b.exclMin)), "C11.kernel.minimum")
	symxAssert(a.hasMax == b.hasMax && (!a.hasMax || (a.max == b.max && a.exclMax == b.exclMax)), "C11.kernel.maximum")
	symxAssert(a.minLen == b.minLen && a.hasMaxLen == b.hasMaxLen && (!a.hasMaxLen || a.maxLen == b.maxLen), "C11.kernel.length-bounds")
	symxAssert(a.minItems == b.minItems && a.hasMaxItems == b.hasMaxItems && (!a.hasMaxItems || a.maxItems == b.maxItems), "C11.kernel.items-bounds")
	symxAssert(a.uniqueItems == b.uniqueItems, "C11.kernel.uniqueItems")
	symxAssert(len(a.enum) == len(b.enum), "C11.kernel.enum-count")
	if len(a.enum) == len(b.enum) {
		for i := range a.enum {
			symxAssert(a.enumIsString[i] == b.enumIsString[i], "C11.kernel.enum-value-type")
			if a.enumIsString[i] && b.enumIsString[i] {
				symxAssert(a.enum[i] == b.enum[i], "C11.kernel.enum-value")
			}
		}
	}
}

// crash freedom of both converters on arbitrary rule values (C14)
func vh_C14_converters_Q() { vhC11Kernel(1, 2, "01-a", 12, true) }

// dialect agreement of both converters (C11 kernel)
func vh_C11_kernel_Q() { vhC11Kernel(2, 2, "01-a", 12, false) }

// rule values with the separators the converters split on ('=', '|', blank)
func vh_C11_kernel_separators_Q() { vhC11Kernel(1, 3, "a=| ", 14, false) }

// thorough tier
func vh_C11_kernel_T()     { vhC11Kernel(2, 3, "01-a", 14, false) }
func vh_C14_converters_T() { vhC11Kernel(1, 3, "01-a.", 14, true) }
