package swagtool

import "encoding/json"

// C13 (last-line canonicaliser): the spec bytes do not depend on the order in which enum values reached the
// document, wherever in components.schemas the enum sits, nor on map iteration order while sorting.

func vhPermute3(a []interface{}, p int) []interface{} {
	idx := [][]int{{0, 1, 2}, {0, 2, 1}, {1, 0, 2}, {1, 2, 0}, {2, 0, 1}, {2, 1, 0}}[p]
	out := make([]interface{}, len(a))
	for k := range a {
		out[k] = a[idx[k]]
	}
	return out
}

func vhSchemaDoc(place int, vals []interface{}) map[string]interface{} {
	leaf := map[string]interface{}{"type": "string", "enum": vals}
	var schema map[string]interface{}
	switch place {
	case 0:
		schema = leaf
	case 1:
		schema = map[string]interface{}{"type": "object", "properties": map[string]interface{}{"f": leaf, "g": map[string]interface{}{"type": "integer"}}}
	case 2:
		schema = map[string]interface{}{"type": "array", "items": leaf}
	case 3:
		schema = map[string]interface{}{"allOf": []interface{}{map[string]interface{}{"type": "object"}, leaf}}
	case 4:
		schema = map[string]interface{}{"type": "object", "additionalProperties": leaf}
	case 5:
		schema = map[string]interface{}{"type": "object", "properties": map[string]interface{}{"f": map[string]interface{}{"type": "array", "items": map[string]interface{}{"oneOf": []interface{}{leaf}}}}}
	default:
		schema = map[string]interface{}{"anyOf": []interface{}{leaf}}
	}
	return map[string]interface{}{
		"openapi":    "3.0.0",
		"components": map[string]interface{}{"schemas": map[string]interface{}{"A": map[string]interface{}{"type": "object"}, "E": schema}},
	}
}

func vhEnumOrder(strs bool, place int, maxLen int) {
	var vals []interface{}
	for k := 0; k < 3; k++ {
		if strs {
			vals = append(vals, symxString("v"+string(rune('0'+k)), 1, maxLen, "aB1"))
		} else {
			vals = append(vals, []float64{-1, 2, 9, 10, 2.5}[symxChoice("n"+string(rune('0'+k)), 5)])
		}
	}
	perm := symxChoice("perm", 6)
	docA := vhSchemaDoc(place, vals)
	docB := vhSchemaDoc(place, vhPermute3(vals, perm))
	symxPermuteMaps(true)
	sortEnumValues(docA)
	sortEnumValues(docB)
	symxPermuteMaps(false)
	ja, errA := json.MarshalIndent(docA, "", "  ")
	jb, errB := json.MarshalIndent(docB, "", "  ")
	symxAssert(errA == nil && errB == nil, "C13.enum-order.marshals")
	symxCover("C13.enum-order.compared")
	symxAssert(string(ja) == string(jb), "C13.enum-order.bytes-do-not-depend-on-arrival-order")
}

// symbolic values directly in a component; the other placements with values of one byte
func vh_C13_enum_order_strings_Q() { vhEnumOrder(true, 0, 2) }
func vh_C13_enum_order_places_Q()  { vhEnumOrder(true, 1+symxChoice("place", 6), 1) }
func vh_C13_enum_order_numbers_Q() { vhEnumOrder(false, 0, 0) }

// ForceOrderedJSON itself on concrete documents whose enum order differs
func vh_C13_force_ordered_Q() {
	perm := symxChoice("perm", 6)
	names := []interface{}{"b", "a", "C"}
	place := symxChoice("place", 7)
	mk := func(vals []interface{}) []byte {
		b, _ := json.Marshal(vhSchemaDoc(place, vals))
		return b
	}
	a, errA := ForceOrderedJSON(mk(names))
	b, errB := ForceOrderedJSON(mk(vhPermute3(names, perm)))
	symxAssert(errA == nil && errB == nil, "C13.force-ordered.no-error")
	symxCover("C13.force-ordered.compared")
	symxAssert(string(a) == string(b), "C13.force-ordered.same-bytes")
}
