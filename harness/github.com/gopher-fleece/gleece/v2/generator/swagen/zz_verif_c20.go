package swagen

import (
	"encoding/json"

	"github.com/getkin/kin-openapi/openapi3"
	"github.com/gopher-fleece/gleece/v2/definitions"
	"github.com/gopher-fleece/gleece/v2/generator/swagen/swagen30"
	"github.com/gopher-fleece/gleece/v2/generator/swagen/swagen31"
	v3 "github.com/pb33f/libopenapi/datamodel/high/v3"
)

type vhFlowIn struct {
	present bool
	authURL string
	token   string
	scopes  []string
}

func vhMakeFlow(tag string) (vhFlowIn, *definitions.OAuthFlow) {
	var f vhFlowIn
	if !symxBool(tag + ".present") {
		return f, nil
	}
	f.present = true
	f.authURL = "https://a/" + symxString(tag+".auth", 0, 1, "xy")
	f.token = "https://t/" + symxString(tag+".token", 0, 1, "xy")
	n := symxChoice(tag+".nscopes", 3)
	scopes := map[string]string{}
	for i := 0; i < n; i++ {
		name := symxString(tag+".scope"+vhD(i), 1, 1, "rwx")
		if _, dup := scopes[name]; !dup {
			f.scopes = append(f.scopes, name)
		}
		scopes[name] = "d-" + name
	}
	return f, &definitions.OAuthFlow{AuthorizationURL: f.authURL, TokenURL: f.token, Scopes: scopes}
}

func vhFlow30(f *openapi3.OAuthFlow) (bool, string, string, []string) {
	if f == nil {
		return false, "", "", nil
	}
	var names []string
	for n := range f.Scopes {
		names = append(names, n)
	}
	return true, f.AuthorizationURL, f.TokenURL, vhSortStrings(names)
}

func vhFlow31(f *v3.OAuthFlow) (bool, string, string, []string) {
	if f == nil {
		return false, "", "", nil
	}
	var names []string
	if f.Scopes != nil {
		for n := range f.Scopes.KeysFromOldest() {
			names = append(names, n)
		}
	}
	return true, f.AuthorizationUrl, f.TokenUrl, vhSortStrings(names)
}

// C20: securitySchemes are copied into both documents as configured, flow by flow
func vhC20Schemes() {
	var cfgs []definitions.SecuritySchemeConfig
	desc := "d" + symxString("desc", 0, 1, "xy")
	field := "X-" + symxString("field", 1, 1, "ab")
	apiKey := definitions.SecuritySchemeConfig{SecurityName: "k", Description: desc, Type: "apiKey", In: "header", FieldName: field}
	implicitIn, implicit := vhMakeFlow("implicit")
	codeIn, code := vhMakeFlow("code")
	oauth := definitions.SecuritySchemeConfig{SecurityName: "o", Description: "oauth", Type: "oauth2"}
	if implicit != nil || code != nil {
		oauth.Flows = &definitions.OAuthFlows{Implicit: implicit, AuthorizationCode: code}
	}
	cfgs = append(cfgs, apiKey, oauth)

	doc30, doc31 := vhNewDoc30(), vhNewDoc31()
	symxAssert(swagen30.GenerateSecuritySpec(doc30, &cfgs) == nil && swagen31.GenerateSecuritySpec(doc31, &cfgs) == nil, "C20.schemes.no-error")
	symxCover("C20.schemes.generated")

	k30 := doc30.Components.SecuritySchemes["k"]
	symxAssert(k30 != nil && k30.Value.Type == "apiKey" && k30.Value.In == "header" && k30.Value.Name == field && k30.Value.Description == desc, "C20.30.apikey-scheme-copied")
	k31, ok := doc31.Components.SecuritySchemes.Get("k")
	symxAssert(ok && k31.Type == "apiKey" && k31.In == "header" && k31.Name == field && k31.Description == desc, "C20.31.apikey-scheme-copied")

	o30 := doc30.Components.SecuritySchemes["o"]
	o31, ok31 := doc31.Components.SecuritySchemes.Get("o")
	symxAssert(o30 != nil && ok31 && o30.Value.Type == "oauth2" && o31.Type == "oauth2", "C20.oauth-scheme-present")
	if o30 == nil || !ok31 {
		return
	}
	for fi, in := range []vhFlowIn{implicitIn, codeIn} {
		var p30, p31 bool
		var a30, t30, a31, t31 string
		var s30, s31 []string
		if o30.Value.Flows != nil {
			if fi == 0 {
				p30, a30, t30, s30 = vhFlow30(o30.Value.Flows.Implicit)
			} else {
				p30, a30, t30, s30 = vhFlow30(o30.Value.Flows.AuthorizationCode)
			}
		}
		if o31.Flows != nil {
			if fi == 0 {
				p31, a31, t31, s31 = vhFlow31(o31.Flows.Implicit)
			} else {
				p31, a31, t31, s31 = vhFlow31(o31.Flows.AuthorizationCode)
			}
		}
		symxAssert(p30 == in.present && p31 == in.present, "C20.flow-present-iff-configured")
		if in.present {
			symxCover("C20.schemes.flow")
			symxAssert(a30 == in.authURL && a31 == in.authURL, "C20.flow-authorization-url")
			symxAssert(vhSameStrings(s30, vhSortStrings(in.scopes)), "C20.30.flow-scopes-are-this-flow's")
			symxAssert(vhSameStrings(s31, vhSortStrings(in.scopes)), "C20.31.flow-scopes-are-this-flow's")
			_ = t30
			_ = t31
		}
	}
}

func vh_C20_schemes_Q() { vhC20Schemes() }

// C20: info and servers of the configuration are copied literally into the document of either version
// (read back from the bytes GenerateSpec returns; generations refused by a library are not of interest here)
type vhInfoDoc struct {
	Openapi string `json:"openapi"`
	Info    struct {
		Title          string `json:"title"`
		Description    string `json:"description"`
		Version        string `json:"version"`
		TermsOfService string `json:"termsOfService"`
		License        *struct {
			Name string `json:"name"`
			URL  string `json:"url"`
		} `json:"license"`
		Contact *struct {
			Name  string `json:"name"`
			Email string `json:"email"`
			URL   string `json:"url"`
		} `json:"contact"`
	} `json:"info"`
	Servers []struct {
		URL string `json:"url"`
	} `json:"servers"`
}

func vhC20Info(version string) {
	info := definitions.OpenAPIInfo{
		Title:          "T" + symxString("title", 0, 2, "ab "),
		Description:    symxString("description", 0, 1, "d."),
		Version:        "1." + symxString("version", 1, 1, "0123"),
		TermsOfService: "https://t/" + symxString("tos", 0, 1, "xy"),
	}
	hasLicense, hasContact := symxBool("license"), symxBool("contact")
	if hasLicense {
		info.License = &definitions.OpenAPILicense{Name: "L" + symxString("license.name", 0, 1, "mp"), URL: "https://l/" + symxString("license.url", 0, 1, "xy")}
	}
	if hasContact {
		info.Contact = &definitions.OpenAPIContact{Name: "N" + symxString("contact.name", 0, 1, "mp"), Email: symxString("contact.email", 1, 1, "uv") + "@e.io", URL: "https://c/" + symxString("contact.url", 0, 1, "xy")}
	}
	base := "https://h" + symxString("base", 0, 2, "/v1")
	cfg := &definitions.OpenAPIGeneratorConfig{OpenAPI: version, BaseURL: base, Info: info}
	defs := []definitions.ControllerMetadata{{Name: "Ctl", Tag: "T", RestMetadata: definitions.RestMetadata{Path: "/c"},
		Routes: []definitions.RouteMetadata{{OperationId: "op", HttpVerb: definitions.HttpGet, RestMetadata: definitions.RestMetadata{Path: "/r"},
			Responses: vhErrorOnly(), ResponseSuccessCode: 204, ResponseDescription: "ok"}}}}
	models := &definitions.Models{Structs: []definitions.StructMetadata{{Name: definitions.Rfc7807ErrorName}}}
	var out []byte
	var err error
	if version == "3.0.0" {
		out, err = swagen30.GenerateSpec(cfg, defs, models)
	} else {
		out, err = swagen31.GenerateSpec(cfg, defs, models)
	}
	symxAssume(err == nil)
	var got vhInfoDoc
	symxAssert(json.Unmarshal(out, &got) == nil, "C20.info.document-parses")
	symxCover("C20.info.read-back")
	symxAssert(got.Openapi == version, "C20.info.declared-version")
	symxAssert(got.Info.Title == info.Title && got.Info.Description == info.Description && got.Info.Version == info.Version && got.Info.TermsOfService == info.TermsOfService, "C20.info.title-description-version-terms")
	symxAssert((got.Info.License != nil) == hasLicense && (got.Info.Contact != nil) == hasContact, "C20.info.license-and-contact-present-iff-configured")
	if hasLicense && got.Info.License != nil {
		symxAssert(got.Info.License.Name == info.License.Name && got.Info.License.URL == info.License.URL, "C20.info.license")
	}
	if hasContact && got.Info.Contact != nil {
		symxAssert(got.Info.Contact.Name == info.Contact.Name && got.Info.Contact.Email == info.Contact.Email && got.Info.Contact.URL == info.Contact.URL, "C20.info.contact")
	}
	symxAssert(len(got.Servers) == 1 && got.Servers[0].URL == base, "C20.info.single-server-is-the-base-url")
}

func vh_C20_info30_Q() { vhC20Info("3.0.0") }
func vh_C20_info31_Q() { vhC20Info("3.1.0") }
