package swagen

import (
	"github.com/getkin/kin-openapi/openapi3"
	"github.com/gopher-fleece/gleece/v2/definitions"
	"github.com/gopher-fleece/gleece/v2/generator/swagen/swagen30"
	"github.com/gopher-fleece/gleece/v2/generator/swagen/swagen31"
	v3 "github.com/pb33f/libopenapi/datamodel/high/v3"
)

type vhFlowIn struct {
	present bool
	authURL string
	token   string
	scopes  []string
}

func vhMakeFlow(tag string) (vhFlowIn, *definitions.OAuthFlow) {
	var f vhFlowIn
	if !symxBool(tag + ".present") {
		return f, nil
	}
	f.present = true
	f.authURL = "https://a/" + symxString(tag+".auth", 0, 1, "xy")
	f.token = "https://t/" + symxString(tag+".token", 0, 1, "xy")
	n := symxChoice(tag+".nscopes", 3)
	scopes := map[string]string{}
	for i := 0; i < n; i++ {
		name := symxString(tag+".scope"+vhD(i), 1, 1, "rwx")
		if _, dup := scopes[name]; !dup {
			f.scopes = append(f.scopes, name)
		}
		scopes[name] = "d-" + name
	}
	return f, &definitions.OAuthFlow{AuthorizationURL: f.authURL, TokenURL: f.token, Scopes: scopes}
}

func vhFlow30(f *openapi3.OAuthFlow) (bool, string, string, []string) {
	if f == nil {
		return false, "", "", nil
	}
	var names []string
	for n := range f.Scopes {
		names = append(names, n)
	}
	return true, f.AuthorizationURL, f.TokenURL, vhSortStrings(names)
}

func vhFlow31(f *v3.OAuthFlow) (bool, string, string, []string) {
	if f == nil {
		return false, "", "", nil
	}
	var names []string
	if f.Scopes != nil {
		for n := range f.Scopes.KeysFromOldest() {
			names = append(names, n)
		}
	}
	return true, f.AuthorizationUrl, f.TokenUrl, vhSortStrings(names)
}

// C20: securitySchemes are copied into both documents as configured, flow by flow
func vhC20Schemes() {
	var cfgs []definitions.SecuritySchemeConfig
	desc := "d" + symxString("desc", 0, 1, "xy")
	field := "X-" + symxString("field", 1, 1, "ab")
	apiKey := definitions.SecuritySchemeConfig{SecurityName: "k", Description: desc, Type: "apiKey", In: "header", FieldName: field}
	implicitIn, implicit := vhMakeFlow("implicit")
	codeIn, code := vhMakeFlow("code")
	oauth := definitions.SecuritySchemeConfig{SecurityName: "o", Description: "oauth", Type: "oauth2"}
	if implicit != nil || code != nil {
		oauth.Flows = &definitions.OAuthFlows{Implicit: implicit, AuthorizationCode: code}
	}
	cfgs = append(cfgs, apiKey, oauth)

	doc30, doc31 := vhNewDoc30(), vhNewDoc31()
	symxAssert(swagen30.GenerateSecuritySpec(doc30, &cfgs) == nil && swagen31.GenerateSecuritySpec(doc31, &cfgs) == nil, "C20.schemes.no-error")
	symxCover("C20.schemes.generated")

	k30 := doc30.Components.SecuritySchemes["k"]
	symxAssert(k30 != nil && k30.Value.Type == "apiKey" && k30.Value.In == "header" && k30.Value.Name == field && k30.Value.Description == desc, "C20.30.apikey-scheme-copied")
	k31, ok := doc31.Components.SecuritySchemes.Get("k")
	symxAssert(ok && k31.Type == "apiKey" && k31.In == "header" && k31.Name == field && k31.Description == desc, "C20.31.apikey-scheme-copied")

	o30 := doc30.Components.SecuritySchemes["o"]
	o31, ok31 := doc31.Components.SecuritySchemes.Get("o")
	symxAssert(o30 != nil && ok31 && o30.Value.Type == "oauth2" && o31.Type == "oauth2", "C20.oauth-scheme-present")
	if o30 == nil || !ok31 {
		return
	}
	for fi, in := range []vhFlowIn{implicitIn, codeIn} {
		var p30, p31 bool
		var a30, t30, a31, t31 string
		var s30, s31 []string
		if o30.Value.Flows != nil {
			if fi == 0 {
				p30, a30, t30, s30 = vhFlow30(o30.Value.Flows.Implicit)
			} else {
				p30, a30, t30, s30 = vhFlow30(o30.Value.Flows.AuthorizationCode)
			}
		}
		if o31.Flows != nil {
			if fi == 0 {
				p31, a31, t31, s31 = vhFlow31(o31.Flows.Implicit)
			} else {
				p31, a31, t31, s31 = vhFlow31(o31.Flows.AuthorizationCode)
			}
		}
		symxAssert(p30 == in.present && p31 == in.present, "C20.flow-present-iff-configured")
		if in.present {
			symxCover("C20.schemes.flow")
			symxAssert(a30 == in.authURL && a31 == in.authURL, "C20.flow-authorization-url")
			symxAssert(vhSameStrings(s30, vhSortStrings(in.scopes)), "C20.30.flow-scopes-are-this-flow's")
			symxAssert(vhSameStrings(s31, vhSortStrings(in.scopes)), "C20.31.flow-scopes-are-this-flow's")
			_ = t30
			_ = t31
		}
	}
}

func vh_C20_schemes_Q() { vhC20Schemes() }
