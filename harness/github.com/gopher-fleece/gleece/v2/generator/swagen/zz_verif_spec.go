package swagen

// Shared helpers of the stage-S harnesses (C01, C04, C06, C07, C08, C11): symbolic flat IR
// builders, reference functions and "views" that flatten the two in-memory documents
// (kin-openapi 3.0 and libopenapi 3.1) into plain slices.

import (
	"github.com/getkin/kin-openapi/openapi3"
	"github.com/gopher-fleece/gleece/v2/definitions"
	"github.com/pb33f/libopenapi/datamodel/high/base"
	v3 "github.com/pb33f/libopenapi/datamodel/high/v3"
	"github.com/pb33f/libopenapi/orderedmap"
)

var vhVerbs = []definitions.HttpVerb{definitions.HttpGet, definitions.HttpPost, definitions.HttpPut, definitions.HttpDelete, definitions.HttpPatch}
var vhAllVerbs = []string{"GET", "POST", "PUT", "DELETE", "PATCH", "OPTIONS", "HEAD", "TRACE", "CONNECT"}

func vhD(i int) string { return string(rune('0' + i)) }

// reference normaliser: collapse every run of '/' (byte loop)
func vhRefNorm(s string) string {
	out := ""
	prevSlash := false
	for i := 0; i < len(s); i++ {
		if s[i] == '/' {
			if !prevSlash {
				out += "/"
			}
			prevSlash = true
			continue
		}
		prevSlash = false
		out += string(s[i])
	}
	return out
}

// template with parameter names erased: "/a/{x}" -> "/a/{}"
func vhEraseParamNames(s string) string {
	out := ""
	in := false
	for i := 0; i < len(s); i++ {
		switch {
		case s[i] == '{':
			in = true
			out += "{"
		case s[i] == '}':
			in = false
			out += "}"
		case !in:
			out += string(s[i])
		}
	}
	return out
}

// a well-formed route text: up to maxSeg segments, each a literal (r|s) or a parameter ({x}|{y}),
// separated by one or two slashes, with optional leading and trailing slashes.
// maxSeg < 0: the plain shape "/" + one segment.
func vhRouteText(tag string, maxSeg int) string {
	if maxSeg < 0 {
		if symxBool(tag + ".param0") {
			return "/{" + symxString(tag+".p0", 1, 1, "xy") + "}"
		}
		return "/" + symxString(tag+".l0", 1, 1, "rs")
	}
	p := ""
	if symxBool(tag + ".lead") {
		p = "/"
		if symxBool(tag + ".lead2") {
			p = "//"
		}
	}
	n := symxChoice(tag+".nseg", maxSeg+1)
	for i := 0; i < n; i++ {
		if i > 0 {
			p += "/"
			if symxBool(tag + ".dbl" + vhD(i)) {
				p += "/"
			}
		}
		if symxBool(tag + ".param" + vhD(i)) {
			p += "{" + symxString(tag+".p"+vhD(i), 1, 1, "xy") + "}"
		} else {
			p += symxString(tag+".l"+vhD(i), 1, 1, "rs")
		}
	}
	if symxBool(tag + ".trail") {
		p += "/"
	}
	return p
}

func vhNewDoc30() *openapi3.T {
	return &openapi3.T{
		OpenAPI:    "3.0.0",
		Info:       &openapi3.Info{Title: "t", Version: "1"},
		Paths:      openapi3.NewPaths(),
		Components: &openapi3.Components{Schemas: openapi3.Schemas{}},
	}
}

func vhNewDoc31() *v3.Document {
	return &v3.Document{
		Version: "3.1.0",
		Info:    &base.Info{Title: "t", Version: "1"},
		Paths:   &v3.Paths{PathItems: orderedmap.New[string, *v3.PathItem]()},
		Components: &v3.Components{
			Schemas:         orderedmap.New[string, *base.SchemaProxy](),
			SecuritySchemes: orderedmap.New[string, *v3.SecurityScheme](),
		},
	}
}

func vhErrorOnly() []definitions.FuncReturnValue {
	return []definitions.FuncReturnValue{{Ordinal: 0, TypeMetadata: definitions.TypeMetadata{Name: "error", IsUniverseType: true}}}
}

// ---- flattened views of the documents' operations

type vhSecReq struct {
	names  []string
	scopes [][]string
}

type vhOpView struct {
	path       string
	verb       string
	opId       string
	tags       []string
	deprecated bool
	security   []vhSecReq // nil slice = no security key
	hasSec     bool
	op30       *openapi3.Operation
	op31       *v3.Operation
}

func vhOps30(doc *openapi3.T) []vhOpView {
	var out []vhOpView
	for _, p := range doc.Paths.InMatchingOrder() {
		item := doc.Paths.Value(p)
		for _, verb := range vhAllVerbs {
			op := item.GetOperation(verb)
			if op == nil {
				continue
			}
			v := vhOpView{path: p, verb: verb, opId: op.OperationID, tags: op.Tags, deprecated: op.Deprecated, op30: op}
			if op.Security != nil {
				v.hasSec = true
				for _, req := range *op.Security {
					var r vhSecReq
					// a requirement is a Go map: collect its keys in sorted order
					for _, name := range vhSortedKeys(req) {
						r.names = append(r.names, name)
						r.scopes = append(r.scopes, req[name])
					}
					v.security = append(v.security, r)
				}
			}
			out = append(out, v)
		}
	}
	return out
}

func vhSortedKeys(m map[string][]string) []string {
	var ks []string
	for k := range m {
		ks = append(ks, k)
	}
	for i := 1; i < len(ks); i++ {
		for j := i; j > 0 && ks[j] < ks[j-1]; j-- {
			ks[j], ks[j-1] = ks[j-1], ks[j]
		}
	}
	return ks
}

func vhOps31(doc *v3.Document) []vhOpView {
	var out []vhOpView
	if doc.Paths == nil || doc.Paths.PathItems == nil {
		return out
	}
	var paths []string
	for p := range doc.Paths.PathItems.KeysFromOldest() {
		paths = append(paths, p)
	}
	// same order as the 3.0 view: longest-first matching order is not needed, sort plainly
	for i := 1; i < len(paths); i++ {
		for j := i; j > 0 && paths[j] < paths[j-1]; j-- {
			paths[j], paths[j-1] = paths[j-1], paths[j]
		}
	}
	for _, p := range paths {
		item, _ := doc.Paths.PathItems.Get(p)
		if item == nil {
			continue
		}
		ops := []*v3.Operation{item.Get, item.Post, item.Put, item.Delete, item.Patch, item.Options, item.Head, item.Trace, nil}
		for k, verb := range vhAllVerbs {
			op := ops[k]
			if op == nil {
				continue
			}
			v := vhOpView{path: p, verb: verb, opId: op.OperationId, tags: op.Tags, op31: op}
			if op.Deprecated != nil {
				v.deprecated = *op.Deprecated
			}
			if op.Security != nil {
				v.hasSec = true
				for _, req := range op.Security {
					var r vhSecReq
					if req != nil && req.Requirements != nil {
						for name, scopes := range req.Requirements.FromOldest() {
							r.names = append(r.names, name)
							r.scopes = append(r.scopes, scopes)
						}
					}
					v.security = append(v.security, r)
				}
			}
			out = append(out, v)
		}
	}
	return out
}

func vhFindOp(ops []vhOpView, path, verb string) *vhOpView {
	for i := range ops {
		if ops[i].path == path && ops[i].verb == verb {
			return &ops[i]
		}
	}
	return nil
}
