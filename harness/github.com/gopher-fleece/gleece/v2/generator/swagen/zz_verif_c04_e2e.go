package swagen

// C04 end to end, for varying projects: the security both specifications document for an operation is the security
// the rendered router asks its authorization callback for - the same alternatives, schemes and scopes, in the same
// order - for every combination of method-level, controller-level and default security, on all five engines.
// (spec side: the real emitters on the pipeline's metadata; router side: the real generator's output, read off its
// syntax tree - generator/routes harness helpers.)

import (
	"strings"

	"github.com/gopher-fleece/gleece/v2/core/pipeline"
	"github.com/gopher-fleece/gleece/v2/core/visitors"
	"github.com/gopher-fleece/gleece/v2/definitions"
	"github.com/gopher-fleece/gleece/v2/generator/routes"
	"github.com/gopher-fleece/gleece/v2/generator/swagen/swagen30"
	"github.com/gopher-fleece/gleece/v2/generator/swagen/swagen31"
)

func vhC04Documented(v vhOpView) string {
	var alts []string
	for _, req := range v.security {
		var checks []string
		for k, n := range req.names {
			checks = append(checks, n+"["+strings.Join(req.scopes[k], ",")+"]")
		}
		alts = append(alts, strings.Join(checks, "&"))
	}
	return strings.Join(alts, " | ")
}

func vh_C04_front_documented_equals_enforced_Q() {
	engine := symxChoice("engine", 5)
	ctrlChoice := symxChoice("controller", 3)
	methodChoice := symxChoice("method", 5)
	hasDefault := symxBool("default")
	ctrlText := []string{"", "// @Security(s1, { scopes: [\"a\"] })\n", "// @Security(s2)\n"}[ctrlChoice]
	methodText := []string{"", "// @Security(s1, { scopes: [\"b\", \"c\"] })\n", "// @Security(s1, { scopes: [\"b\"] })\n// @Security(s2)\n", "// @Security(s3, { scopes: [] })\n", "// @Security(s2, { scopes: [\"z\"] })\n// @Security(s1)\n"}[methodChoice]
	cfg := vhFrontConfig()
	for _, name := range []string{"s1", "s2", "s3"} {
		cfg.OpenAPIGeneratorConfig.SecuritySchemes = append(cfg.OpenAPIGeneratorConfig.SecuritySchemes, definitions.SecuritySchemeConfig{
			SecurityName: name, Description: "d", Type: "apiKey", In: "header", FieldName: "X-" + name})
	}
	if hasDefault {
		cfg.OpenAPIGeneratorConfig.DefaultRouteSecurity = &definitions.SecurityAnnotationComponent{SchemaName: "s3", Scopes: []string{"d"}}
	}
	routes.VhRoutesConfig(cfg, engine)
	fr, err := visitors.VhLoadSource(vhFrontSecuritySource(ctrlText, methodText), nil)
	symxAssert(err == nil, "C04.e2e.fixture-loads")
	if err != nil {
		return
	}
	meta, err := pipeline.VhNewPipeline(fr, cfg).Run()
	symxAssert(err == nil, "C04.e2e.project-accepted")
	if err != nil {
		return
	}
	doc30, doc31 := vhNewDoc30(), vhNewDoc31()
	ocfg := &cfg.OpenAPIGeneratorConfig
	symxAssert(swagen30.GenerateSecuritySpec(doc30, &ocfg.SecuritySchemes) == nil && swagen31.GenerateSecuritySpec(doc31, &ocfg.SecuritySchemes) == nil, "C04.e2e.schemes-no-error")
	symxAssert(swagen30.GenerateControllersSpec(doc30, ocfg, meta.Flat) == nil, "C04.e2e.30-no-error")
	symxAssert(swagen31.GenerateControllersSpec(doc31, ocfg, meta.Flat) == nil, "C04.e2e.31-no-error")
	text, written := routes.VhRenderRoutes(cfg, meta)
	symxAssert(written, "C04.e2e.routes-file-written")
	if !written {
		return
	}
	enforced, ok := routes.VhHandlerSecurity(text)
	symxAssert(ok, "C04.e2e.every-handler-authorizes-before-constructing-its-controller")
	if !ok {
		return
	}
	ops30, ops31 := vhOps30(doc30), vhOps31(doc31)
	symxAssert(len(ops30) == len(enforced) && len(ops31) == len(enforced) && len(enforced) > 0, "C04.e2e.one-handler-per-documented-operation")
	for _, op := range ops30 {
		got, has := enforced[op.opId]
		symxAssert(has, "C04.e2e.30.documented-operation-has-a-handler")
		symxRecord("op30", op.opId, vhC04Documented(op), got)
		symxAssert(vhC04Documented(op) == got, "C04.e2e.30.documented-security-is-what-the-router-enforces")
	}
	for _, op := range ops31 {
		got, has := enforced[op.opId]
		symxAssert(has, "C04.e2e.31.documented-operation-has-a-handler")
		symxAssert(vhC04Documented(op) == got, "C04.e2e.31.documented-security-is-what-the-router-enforces")
	}
	symxCover("C04.e2e.compared")
}
