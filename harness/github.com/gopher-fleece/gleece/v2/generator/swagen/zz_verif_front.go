package swagen

// Front-end harnesses: Go source text -> go/parser + go/types -> the real visitors -> validation -> reduction
// (GleecePipeline.Run) -> both emitters. See core/visitors/zz_verif_front.go for the loader.

import (
	"encoding/json"
	"go/ast"
	"strconv"
	"strings"

	"github.com/gopher-fleece/gleece/v2/core/pipeline"
	"github.com/gopher-fleece/gleece/v2/core/validators/diagnostics"
	"github.com/gopher-fleece/gleece/v2/core/visitors"
	"github.com/gopher-fleece/gleece/v2/definitions"
	"github.com/gopher-fleece/gleece/v2/generator/swagen/swagen30"
	"github.com/gopher-fleece/gleece/v2/generator/swagen/swagen31"
)

const vhFrontDiscoverySrc = `package ctl

import "github.com/gopher-fleece/runtime"

// @Tag(Alpha)
// @Route(/a)
type Alpha struct {
	runtime.GleeceController
}

// @Route(/b)
type Beta struct {
	runtime.GleeceController
}

type Plain struct{ N int }

// M0 does something
// @Method(GET)
// @Route(/m0)
// @Hidden
func (c *Alpha) M0() error { return nil }

// @Method(POST)
// @Route(/m1)
// @Hidden
func (c Alpha) M1() error { return nil }

// @Method(GET)
// @Route(/m2)
// @Hidden
func (*Alpha) M2() error { return nil }

// @Method(DELETE)
// @Route(/m3)
// @Hidden
func (c *Beta) M3() error { return nil }

// @Method(GET)
// @Route(/p)
func (p *Plain) P() error { return nil }

// @Method(GET)
// @Route(/f)
func Free() error { return nil }
`

// vhPatchDoc rewrites the doc comment lines of function name: line prefix -> replacement
func vhPatchDoc(f *ast.File, name string, prefix, replacement string) {
	for _, d := range f.Decls {
		fd, ok := d.(*ast.FuncDecl)
		if !ok || fd.Name.Name != name || fd.Doc == nil {
			continue
		}
		for _, c := range fd.Doc.List {
			if strings.HasPrefix(c.Text, prefix) {
				c.Text = replacement
			}
		}
	}
}

func vhFrontConfig() *definitions.GleeceConfig {
	cfg := &definitions.GleeceConfig{}
	cfg.OpenAPIGeneratorConfig.Info = definitions.OpenAPIInfo{Title: "t", Version: "1"}
	cfg.OpenAPIGeneratorConfig.BaseURL = "https://x"
	return cfg
}

// C01 through the front end: the documented operations are exactly the annotated, non-hidden methods of the structs
// that embed GleeceController - whatever the receiver spelling - at the controller's prefix + the method's route
func vh_C01_front_discovery_Q() {
	methods := []string{"M0", "M1", "M2", "M3"}
	verbs := []string{"GET", "POST", "GET", "DELETE"}
	paths := []string{"/a/m0", "/a/m1", "/a/m2", "/b/m3"}
	annotated := make([]bool, 4)
	hidden := make([]bool, 4)
	for k := range methods {
		annotated[k] = symxBool("annotated" + vhD(k))
		hidden[k] = symxBool("hidden" + vhD(k))
	}
	betaIsController := symxBool("betaEmbeds")
	hiddenWithValue := symxBool("hidden0.withValue") // @Hidden(internal) hides like a bare @Hidden
	fr, err := visitors.VhLoadSource(vhFrontDiscoverySrc, func(f *ast.File) {
		for k, m := range methods {
			if !annotated[k] {
				vhPatchDoc(f, m, "// @Method(", "// no verb here")
				vhPatchDoc(f, m, "// @Route(", "// no route either")
			}
			if !hidden[k] {
				vhPatchDoc(f, m, "// @Hidden", "// visible")
			} else if k == 0 && hiddenWithValue {
				vhPatchDoc(f, m, "// @Hidden", "// @Hidden(internal)")
			}
		}
		if !betaIsController {
			for _, d := range f.Decls {
				if gd, ok := d.(*ast.GenDecl); ok {
					for _, sp := range gd.Specs {
						if ts, ok := sp.(*ast.TypeSpec); ok && ts.Name.Name == "Beta" {
							ts.Type.(*ast.StructType).Fields.List = nil
						}
					}
				}
			}
		}
	})
	symxAssert(err == nil, "C01.front.fixture-loads")
	if err != nil {
		return
	}
	p := pipeline.VhNewPipeline(fr, vhFrontConfig())
	meta, err := p.Run()
	symxAssert(err == nil, "C01.front.project-is-accepted")
	if err != nil {
		return
	}
	doc30, doc31 := vhNewDoc30(), vhNewDoc31()
	cfg := &definitions.OpenAPIGeneratorConfig{}
	symxAssert(swagen30.GenerateControllersSpec(doc30, cfg, meta.Flat) == nil, "C01.front.30-no-error")
	symxAssert(swagen31.GenerateControllersSpec(doc31, cfg, meta.Flat) == nil, "C01.front.31-no-error")
	symxCover("C01.front.documents-built")
	for vi, ops := range [][]vhOpView{vhOps30(doc30), vhOps31(doc31)} {
		ver := []string{"30", "31"}[vi]
		want := 0
		for _, o := range ops {
			symxRecord("op"+ver, o.verb, o.path, o.opId)
		}
		for k, m := range methods {
			expect := annotated[k] && !hidden[k] && (k != 3 || betaIsController)
			op := vhFindOp(ops, paths[k], verbs[k])
			if expect {
				want++
				symxAssert(op != nil && op.opId == m, "C01.front."+ver+".annotated-method-of-a-controller-is-documented")
			} else {
				symxAssert(op == nil, "C01.front."+ver+".other-methods-are-not-documented")
			}
		}
		symxAssert(len(ops) == want, "C01.front."+ver+".nothing-else-is-documented")
	}
}

const vhFrontModelsSrc = `package ctl

import "github.com/gopher-fleece/runtime"

// Priority of an item
type Prio string

const (
	PrioLow  Prio = "low"
	PrioHigh Prio = "high"
)

// @Description An item
type Item struct {
	// The name
	Name string ` + "`json:\"name\" validate:\"required\"`" + `
	Prio Prio   ` + "`json:\"prio\"`" + `
	Tags []string
}

// @Tag(Items)
// @Route(/items)
type Items struct {
	runtime.GleeceController
}

// @Method(POST)
// @Route(/{id})
// @Path(id)
// @Query(prio)
// @Body(item)
func (c *Items) Put(id string, prio Prio, item Item) (Item, error) { return item, nil }

// @Method(GET)
// @Route(/all)
// @Query(tag)
func (c *Items) List(tag *string) ([]Item, error) { return nil, nil }
`

// a flat, comparable rendering of everything the generators consume
func vhFlattenMeta(m pipeline.GleeceFlattenedMetadata) []string {
	var out []string
	for _, c := range m.Flat {
		out = append(out, "controller "+c.Name+" "+c.PkgPath+" "+c.Tag+" "+c.RestMetadata.Path)
		for _, r := range c.Routes {
			out = append(out, "route "+r.OperationId+" "+string(r.HttpVerb)+" "+r.RestMetadata.Path+" "+vhCodeStr(int(r.ResponseSuccessCode)))
			for _, p := range r.FuncParams {
				out = append(out, "param "+p.Name+" "+string(p.PassedIn)+" "+p.NameInSchema+" "+p.TypeMeta.Name+" "+p.TypeMeta.PkgPath+" serial="+vhCodeStr(int(p.UniqueImportSerial))+" v="+p.Validator)
			}
			for _, rv := range r.Responses {
				out = append(out, "ret "+rv.TypeMetadata.Name+" serial="+vhCodeStr(int(rv.UniqueImportSerial)))
			}
		}
	}
	for _, s := range m.Models.Structs {
		out = append(out, "struct "+s.Name+" "+s.PkgPath)
		for _, f := range s.Fields {
			out = append(out, "field "+f.Name+" "+f.Type+" "+f.Tag)
		}
	}
	for _, e := range m.Models.Enums {
		out = append(out, "enum "+e.Name+" "+e.Type+" "+strings.Join(e.Values, ","))
	}
	for _, k := range vhSortedKeys(m.Imports) {
		// the alias lists come out of a set in arbitrary order; the routes template sorts them before use
		out = append(out, "import "+k+" "+strings.Join(vhSortStrings(m.Imports[k]), ","))
	}
	return out
}

// C19 through the front end: repeated GenerateGraph/Validate/GenerateIntermediate on one pipeline, in any of the
// orders an editor integration may call them, give what the first analysis and a brand-new session give
func vh_C19_front_rerun_Q() {
	fr, err := visitors.VhLoadSource(vhFrontModelsSrc, nil)
	symxAssert(err == nil, "C19.front.fixture-loads")
	if err != nil {
		return
	}
	p := pipeline.VhNewPipeline(fr, vhFrontConfig())
	first, err := p.Run()
	symxAssert(err == nil, "C19.front.project-is-accepted")
	if err != nil {
		return
	}
	want := vhFlattenMeta(first)
	symxAssert(len(first.Flat) == 1 && len(first.Flat[0].Routes) == 2 && len(first.Models.Structs) >= 1 && len(first.Models.Enums) == 1, "C19.front.first-analysis-sees-the-project")
	n := 1 + symxChoice("extraSteps", 3)
	var last pipeline.GleeceFlattenedMetadata
	for k := 0; k < n; k++ {
		switch symxChoice("step"+vhD(k), 4) {
		case 0:
			last, err = p.Run()
		case 1:
			err = p.GenerateGraph()
			if err == nil {
				last, err = p.GenerateIntermediate()
			}
		case 2:
			_, err = p.Validate()
			if err == nil {
				last, err = p.GenerateIntermediate()
			}
		default:
			last, err = p.GenerateIntermediate()
		}
		symxAssert(err == nil, "C19.front.repeated-step-succeeds")
		if err != nil {
			return
		}
		symxCover("C19.front.repeated")
		symxAssert(vhSameStrings(vhFlattenMeta(last), want), "C19.front.repeated-analysis-equals-the-first")
	}
	// a brand-new session
	fr2, err := visitors.VhLoadSource(vhFrontModelsSrc, nil)
	if err != nil {
		return
	}
	fresh, err := pipeline.VhNewPipeline(fr2, vhFrontConfig()).Run()
	symxAssert(err == nil && vhSameStrings(vhFlattenMeta(fresh), want), "C19.front.fresh-session-equals-long-lived-session")
}

const vhFrontSigHead = `package ctl

import (
	"context"

	"github.com/gopher-fleece/runtime"
)

type Model struct {
	X string ` + "`json:\"x\"`" + `
}

type MyErr struct {
	error
	Code int
}

// @Route(/c)
type Ctl struct {
	runtime.GleeceController
}

// @Method(POST)
// @Route(/op/{p0})
// @Path(p0)
// @Query(p1)
// @Header(p2)
// @Body(p3)
// @Response(201) created
// @ErrorResponse(404) missing
`

// two spellings of the same signature: one name per field, and p0/p2 grouped
var vhFrontSigDecls = []string{
	"func (c *Ctl) Op(ctx context.Context, p0 string, p1 *int, p2 string, p3 *Model) (Model, error) {\n\treturn Model{}, nil\n}\n",
	"func (c *Ctl) Op(ctx context.Context, p0, p2 string, p1 *int, p3 *Model) (Model, error) {\n\treturn Model{}, nil\n}\n",
}

func vhFindFunc(f *ast.File, name string) *ast.FuncDecl {
	for _, d := range f.Decls {
		if fd, ok := d.(*ast.FuncDecl); ok && fd.Name.Name == name {
			return fd
		}
	}
	return nil
}

// vhUnpoint replaces the *T of parameter name by T
func vhUnpoint(fd *ast.FuncDecl, name string) {
	for _, fld := range fd.Type.Params.List {
		for _, n := range fld.Names {
			if n.Name == name {
				if st, ok := fld.Type.(*ast.StarExpr); ok {
					fld.Type = st.X
				}
			}
		}
	}
}

// C06 through the front end: the documented contract of an operation is the Go signature plus its annotations
func vh_C06_front_signature_Q() {
	grouped := symxChoice("grouped", 2)
	p1Pointer, p3Pointer := symxBool("p1.pointer"), symxBool("p3.pointer")
	p1Header := symxBool("p1.header")
	p1Required := symxBool("p1.validatedRequired")
	retShape := symxChoice("ret", 4) // (Model, error) | error | (string, error) | (Model, MyErr)
	hasResponse, hasErrResponse := symxBool("response"), symxBool("errorResponse")
	fr, err := visitors.VhLoadSource(vhFrontSigHead+vhFrontSigDecls[grouped], func(f *ast.File) {
		fd := vhFindFunc(f, "Op")
		if !p1Pointer {
			vhUnpoint(fd, "p1")
		}
		if !p3Pointer {
			vhUnpoint(fd, "p3")
		}
		loc := "Query"
		if p1Header {
			loc = "Header"
		}
		opts := ""
		if p1Required {
			opts = `, {validate: "required"}`
		}
		vhPatchDoc(f, "Op", "// @Query(p1)", "// @"+loc+"(p1"+opts+")")
		if !hasResponse {
			vhPatchDoc(f, "Op", "// @Response(", "// no explicit response")
		}
		if !hasErrResponse {
			vhPatchDoc(f, "Op", "// @ErrorResponse(", "// no error response")
		}
		res := fd.Type.Results.List
		body := fd.Body.List[0].(*ast.ReturnStmt)
		switch retShape {
		case 1:
			fd.Type.Results.List = res[1:]
			body.Results = body.Results[1:]
		case 2:
			res[0].Type = ast.NewIdent("string")
			body.Results[0] = &ast.BasicLit{Kind: 9 /* token.STRING */, Value: `""`}
		case 3:
			res[1].Type = ast.NewIdent("MyErr")
			body.Results[1] = &ast.CompositeLit{Type: ast.NewIdent("MyErr")}
		}
	})
	symxAssert(err == nil, "C06.front.fixture-loads")
	if err != nil {
		return
	}
	meta, err := pipeline.VhNewPipeline(fr, vhFrontConfig()).Run()
	if err != nil {
		symxRecord("refused", err.Error())
	}
	symxAssert(err == nil, "C06.front.project-is-accepted")
	if err != nil {
		return
	}
	doc30, doc31 := vhNewDoc30(), vhNewDoc31()
	cfg := &definitions.OpenAPIGeneratorConfig{}
	symxAssert(swagen30.GenerateModelsSpec(doc30, &meta.Models) == nil && swagen31.GenerateModelsSpec(doc31, &meta.Models) == nil, "C06.front.models-no-error")
	symxAssert(swagen30.GenerateControllersSpec(doc30, cfg, meta.Flat) == nil, "C06.front.30-no-error")
	symxAssert(swagen31.GenerateControllersSpec(doc31, cfg, meta.Flat) == nil, "C06.front.31-no-error")
	ops30, ops31 := vhOps30(doc30), vhOps31(doc31)
	symxAssert(len(ops30) == 1 && len(ops31) == 1, "C06.front.one-operation")
	if len(ops30) != 1 || len(ops31) != 1 {
		return
	}
	symxCover("C06.front.documented")
	// expectation from the signature
	type want struct {
		name, in string
		required bool
		typ      string
	}
	p1In := "query"
	if p1Header {
		p1In = "header"
	}
	p0 := want{"p0", "path", true, "string"}
	p1 := want{"p1", p1In, !p1Pointer || p1Required, "integer"}
	p2 := want{"p2", "header", true, "string"}
	order := []want{p0, p1, p2}
	if grouped == 1 {
		order = []want{p0, p2, p1}
	}
	for vi, d := range []vhOpDetail{vhDetail30(&ops30[0]), vhDetail31(&ops31[0])} {
		ver := []string{"30", "31"}[vi]
		symxAssert(len(d.params) == 3, "C06.front."+ver+".path-query-header-parameters-only(context-never)")
		for k := 0; k < len(order) && k < len(d.params); k++ {
			w, g := order[k], d.params[k]
			symxAssert(g.name == w.name && g.in == w.in, "C06.front."+ver+".parameters-in-signature-order")
			symxAssert(g.required == w.required, "C06.front."+ver+".required-iff-non-pointer-or-path-or-validated")
			symxAssert(g.ref == "" && g.typ == w.typ, "C06.front."+ver+".parameter-schema-of-declared-type")
		}
		symxAssert(d.hasBody && d.hasJSON && d.bodyJSONRef == "#/components/schemas/Model" && !d.hasForm, "C06.front."+ver+".body-parameter-is-the-json-request-body")
		symxAssert(d.bodyRequired == !p3Pointer, "C06.front."+ver+".body-required-iff-non-pointer")
		// responses
		successCode := "200"
		if retShape == 1 {
			successCode = "204"
		}
		if hasResponse {
			successCode = "201"
		}
		sr := vhRespFind(d.responses, successCode)
		symxAssert(sr != nil, "C06.front."+ver+".success-code")
		if sr != nil {
			switch retShape {
			case 1:
				symxAssert(!sr.hasContent, "C06.front."+ver+".no-content-without-a-value")
			case 2:
				symxAssert(sr.hasContent && sr.contentRef == "" && sr.contentTyp == "string", "C06.front."+ver+".success-schema-of-the-value-type")
			default:
				symxAssert(sr.hasContent && sr.contentRef == "#/components/schemas/Model", "C06.front."+ver+".success-schema-of-the-value-type")
			}
		}
		wantErr := "#/components/schemas/" + definitions.Rfc7807ErrorName
		if retShape == 3 {
			wantErr = "#/components/schemas/MyErr"
		}
		er := vhRespFind(d.responses, "404")
		if hasErrResponse {
			symxAssert(er != nil && er.hasContent && er.contentRef == wantErr, "C06.front."+ver+".error-response-with-the-error-type's-schema")
		} else {
			symxAssert(er == nil, "C06.front."+ver+".no-undeclared-error-response")
		}
	}
}

// ---- C07 through the front end: components.schemas against the Go declarations

var vhFrontFieldTypes = []string{"string", "Leaf", "*Leaf", "[]Leaf", "Color", "ID", "*Inner", "map[string]Leaf", "time.Time", "[]byte", "[][]Leaf", "other.Ext", "[]*other.Ext", "Level"}

// the named types of this package a type expression refers to
func vhFrontDeps(t string) []string {
	switch t {
	case "Leaf", "*Leaf", "[]Leaf", "map[string]Leaf", "[][]Leaf":
		return []string{"Leaf"}
	case "Color":
		return []string{"Color"}
	case "ID":
		return []string{"ID"}
	case "Inner", "*Inner", "[]Inner":
		return []string{"Inner"}
	case "other.Ext", "[]*other.Ext":
		return []string{"Ext"}
	case "Level":
		return []string{"Level"}
	}
	return nil
}

func vhFrontModelSource(f0, f1, param, ret string) string {
	return `package ctl

import (
	"time"

	"example.com/other"
	"github.com/gopher-fleece/runtime"
)

var _ time.Time
var _ other.Ext

type Level int

const (
	LevelLow  Level = 1
	levelMid  Level = 5
	LevelHigh Level = 9
)

type Leaf struct {
	V int ` + "`json:\"v\"`" + `
}

type Unused struct {
	Z Leaf
}

type Color string

const (
	Red  Color = "red"
	blue Color = "blue"
)

type ID string

type Base struct {
	Id ID ` + "`json:\"id\"`" + `
}

// an embedded struct whose type name is not exported still promotes its exported fields
type paging struct {
	Page int ` + "`json:\"page\"`" + `
}

type Inner struct {
	Base
	paging
	Name   string ` + "`json:\"name\" validate:\"required\"`" + `
	hidden int
	Skip   Color ` + "`json:\"-\"`" + `
	F0     ` + f0 + `
	F1     ` + f1 + ` ` + "`json:\"f1\"`" + `
}

// @Route(/c)
type Ctl struct {
	runtime.GleeceController
}

// @Method(POST)
// @Route(/op)
// @Body(b)
func (c *Ctl) Op(b ` + param + `) (` + ret + `, error) {
	var r ` + ret + `
	return r, nil
}
`
}

func vh_C07_front_models_Q() { vhC07FrontModels(false) }

// C11 through the front end: the components of the two documents agree, type shape by type shape
func vh_C11_front_components_Q() { vhC07FrontModels(true) }

func vhC07FrontModels(agreementOnly bool) {
	nT := len(vhFrontFieldTypes)
	f0 := vhFrontFieldTypes[symxChoice("f0", nT)]
	f1, param := "string", "Inner"
	if !agreementOnly {
		f1 = vhFrontFieldTypes[symxChoice("f1", nT)]
		param = []string{"Inner", "Leaf", "[]Inner"}[symxChoice("param", 3)]
	}
	ret := []string{"string", "Leaf", "Color", "[]Inner"}[symxChoice("ret", 4)]
	fr, err := visitors.VhLoadSource(vhFrontModelSource(f0, f1, param, ret), nil)
	symxAssert(err == nil, "C07.front.fixture-loads")
	if err != nil {
		return
	}
	meta, err := pipeline.VhNewPipeline(fr, vhFrontConfig()).Run()
	if err != nil {
		symxRecord("refused", err.Error())
	}
	symxAssert(err == nil, "C07.front.project-is-accepted")
	if err != nil {
		return
	}
	doc30, doc31 := vhNewDoc30(), vhNewDoc31()
	symxAssert(swagen30.GenerateModelsSpec(doc30, &meta.Models) == nil && swagen31.GenerateModelsSpec(doc31, &meta.Models) == nil, "C07.front.models-no-error")
	symxCover("C07.front.components-built")
	// reference: closure of the named types reachable from the route
	reach := map[string]bool{}
	var visit func(name string)
	visit = func(name string) {
		if reach[name] {
			return
		}
		reach[name] = true
		switch name {
		case "Inner":
			visit("Base")
			visit("paging")
			visit("Color") // through Skip: a field tagged json:"-" is still a field of the declaration (its type is kept; it is not a property)
			for _, t := range []string{f0, f1} {
				for _, d := range vhFrontDeps(t) {
					visit(d)
				}
			}
		case "Base":
			visit("ID")
		case "Ext":
			visit("Kind") // a type of another package and what it reaches there
		}
	}
	for _, t := range []string{param, ret} {
		for _, d := range vhFrontDeps(t) {
			visit(d)
		}
	}
	var want []string
	for _, n := range []string{"Base", "Color", "Ext", "ID", "Inner", "Kind", "Leaf", "Level", "paging"} {
		if reach[n] {
			want = append(want, n)
		}
	}
	want = vhSortStrings(want)
	// the RFC-7807 model is not a model of the project: the spec writer adds it when some route returns a plain error
	symxAssert(meta.PlainErrorPresent, "C07.front.plain-error-return-is-flagged-for-the-rfc7807-model")
	var got30, got31 []string
	for n := range doc30.Components.Schemas {
		got30 = append(got30, n)
	}
	for n := range doc31.Components.Schemas.KeysFromOldest() {
		got31 = append(got31, n)
	}
	symxRecord("components", strings.Join(vhSortStrings(got30), ","))
	symxAssert(vhSameStrings(vhSortStrings(got30), want), "C07.front.30.one-component-per-reachable-type-and-no-others")
	symxAssert(vhSameStrings(vhSortStrings(got31), want), "C07.front.31.one-component-per-reachable-type-and-no-others")
	views := map[string][]vhSchemaView{}
	for _, n := range want {
		p31, _ := doc31.Components.Schemas.Get(n)
		views[n] = []vhSchemaView{vhView30(doc30.Components.Schemas[n]), vhView31(p31)}
	}
	if agreementOnly {
		symxCover("C11.front.components-compared")
		for _, n := range want {
			symxAssert(vhSameView(views[n][0], views[n][1]), "C11.front.component-agrees-in-both-documents")
		}
		return
	}
	for vi, ver := range []string{"30", "31"} {
		if reach["Inner"] {
			v := views["Inner"][vi]
			symxRecord("inner"+ver, strings.Join(v.props, ","), strings.Join(v.required, ","), strings.Join(v.allOf, ","))
			// JSON-visible fields under their JSON names: hidden (unexported) and Skip (json:"-") are not properties
			symxAssert(vhSameStrings(v.props, vhSortStrings([]string{"name", "F0", "f1"})), "C07.front."+ver+".properties-are-the-json-visible-fields")
			symxAssert(vhSameStrings(v.required, []string{"name"}), "C07.front."+ver+".required-lists-fields-validated-as-required")
			symxAssert(v.isAllOf && vhSameStrings(v.allOf, []string{"#/components/schemas/Base", "#/components/schemas/paging"}), "C07.front."+ver+".embedded-structs-via-allOf")
		}
		if reach["Color"] {
			v := views["Color"][vi]
			symxAssert(v.typ == "string" && vhSameStrings(vhSortStrings(v.enum), []string{"blue", "red"}), "C07.front."+ver+".enum-lists-exactly-its-constants")
		}
		if reach["Level"] {
			v := views["Level"][vi]
			symxRecord("level"+ver, v.typ, strings.Join(v.enum, ","))
			symxAssert(v.typ == "integer" && len(v.enum) == 3, "C07.front."+ver+".integer-enum-lists-exactly-its-constants")
		}
		if reach["Ext"] {
			v := views["Ext"][vi]
			symxAssert(vhSameStrings(v.props, []string{"K", "a"}) && v.propRefs[0] == "#/components/schemas/Kind", "C07.front."+ver+".type-of-another-package-mirrors-its-declaration")
			k := views["Kind"][vi]
			symxAssert(k.typ == "string" && vhSameStrings(vhSortStrings(k.enum), []string{"a", "b"}), "C07.front."+ver+".enum-of-another-package")
		}
		if reach["ID"] {
			v := views["ID"][vi]
			symxAssert(v.typ == "string" && len(v.enum) == 0 && len(v.props) == 0, "C07.front."+ver+".alias-maps-to-its-primitive")
		}
	}
}

// ---- C10 / C18 through the front end: perturbed projects, acceptance and diagnostics on real source positions

type vhFrontPerturb struct {
	indent, free, verb, lead, urlName, pathRef, query, qType, ret string
}

func vhFrontPerturbSource(p vhFrontPerturb) string {
	doc := p.indent + "// " + p.free + "\n"
	if p.verb != "" {
		doc += p.indent + p.lead + "// @Method(" + p.verb + ")\n"
	}
	doc += p.indent + "// @Route(/r/{" + p.urlName + "})\n"
	doc += p.indent + p.lead + "// @Path(" + p.pathRef + ")\n"
	if p.query != "" {
		doc += p.indent + "// @Query(" + p.query + ")\n"
	}
	doc += p.indent + "// @Body(b)\n"
	ret := p.ret
	body := "return nil"
	switch p.ret {
	case "(Model, error)":
		body = "return Model{}, nil"
	case "(Model, string)":
		body = `return Model{}, ""`
	case "":
		body = "return"
	}
	return `package ctl

import "github.com/gopher-fleece/runtime"

type Model struct {
	X string
}

// @Tag(T)
// @Route(/c)
type Ctl struct {
	runtime.GleeceController
}

` + doc + p.indent + "func (c *Ctl) Op(id string, q " + p.qType + ", b Model) " + ret + " {\n\t" + body + "\n}\n"
}

func vhFlattenDiags(ds []diagnostics.EntityDiagnostic) []diagnostics.ResolvedDiagnostic {
	var out []diagnostics.ResolvedDiagnostic
	var walk func(e *diagnostics.EntityDiagnostic)
	walk = func(e *diagnostics.EntityDiagnostic) {
		out = append(out, e.Diagnostics...)
		for _, c := range e.Children {
			walk(c)
		}
	}
	for i := range ds {
		walk(&ds[i])
	}
	return out
}

var vhFrontLight = false // crash-freedom wrappers fix the layout choices

func vhFrontPerturbation() (vhFrontPerturb, bool) {
	nIndent, nFree, nLead := 3, 2, 2
	if vhFrontLight {
		nIndent, nFree, nLead = 1, 1, 1
	}
	p := vhFrontPerturb{
		indent:  []string{"", "\t", "   "}[symxChoice("indent", nIndent)],
		free:    []string{"Op does things", "Déjà vu: 10€ ∀x"}[symxChoice("free", nFree)],
		verb:    []string{"POST", "FOO", ""}[symxChoice("verb", 3)],
		lead:    []string{"", "/* é€ */ "}[symxChoice("lead", nLead)], // multibyte characters before the annotation, on its line
		urlName: []string{"id", "other"}[symxChoice("urlName", 2)],
		pathRef: []string{"id", "zz"}[symxChoice("pathRef", 2)],
		query:   []string{"q", "", "zz"}[symxChoice("query", 3)],
		qType:   []string{"int", "Model", "[]int"}[symxChoice("qType", 3)],
		ret:     []string{"error", "(Model, error)", "(Model, string)", ""}[symxChoice("ret", 4)],
	}
	// a method without @Method is not an endpoint at all (C01): whatever else it carries is not looked at
	valid := p.verb == "" || p.verb == "POST" && p.urlName == "id" && p.pathRef == "id" && p.query == "q" && p.qType != "Model" && (p.ret == "error" || p.ret == "(Model, error)")
	return p, valid
}

func vhC10C18Front(checkDiagnostics bool) {
	pert, valid := vhFrontPerturbation()
	vhC10C18FrontWith(pert, valid, checkDiagnostics)
}

func vhC10C18FrontWith(pert vhFrontPerturb, valid bool, checkDiagnostics bool) {
	src := vhFrontPerturbSource(pert)
	fr, err := visitors.VhLoadSource(src, nil)
	symxAssert(err == nil, "C10.front.fixture-loads")
	if err != nil {
		return
	}
	p := pipeline.VhNewPipeline(fr, vhFrontConfig())
	if !checkDiagnostics {
		_, err = p.Run()
		if valid {
			symxCover("C10.front.well-formed")
			symxAssert(err == nil, "C10.front.well-formed-route-is-never-rejected")
		} else {
			symxCover("C10.front.perturbed")
			// recorded finding: an alias-less @Path(id) is not checked against the names of the URL template
			symxKnownFor("C10-path-binding-without-url-name", "C10.front.inconsistent-route-is-rejected", pert.pathRef == "id" && pert.urlName != "id")
			symxAssert(err != nil, "C10.front.inconsistent-route-is-rejected")
		}
		return
	}
	if p.GenerateGraph() != nil {
		return // not reached within these perturbations: the visitors take every one of them
	}
	tree, err := p.Validate()
	symxAssert(err == nil, "C18.front.validation-runs")
	if err != nil {
		return
	}
	diags := vhFlattenDiags(tree)
	// the order of diagnostics is not part of the contract (some come out of map iterations): canonical order
	for i := 1; i < len(diags); i++ {
		for j := i; j > 0 && vhDiagLess(diags[j], diags[j-1]); j-- {
			diags[j], diags[j-1] = diags[j-1], diags[j]
		}
	}
	lines := strings.Split(src, "\n")
	if len(diags) == 0 {
		symxCover("C18.front.no-diagnostics")
	}
	for i, d := range diags {
		symxCover("C18.front.diagnostic")
		symxAssert(d.FilePath == fr.Path, "C18.front.names-the-file-of-the-offending-method")
		symxAssert(d.Severity == diagnostics.DiagnosticError, "C18.front.rule-violations-are-errors")
		r := d.Range
		// recorded finding: a comment's start column is a byte column (go/token) while offsets inside the comment are
		// counted in characters, so characters of more than one byte before the comment on its line shift the range
		onLeadLine := pert.lead != "" && r.StartLine >= 0 && r.StartLine < len(lines) && strings.Contains(lines[r.StartLine], pert.lead)
		symxKnownFor("C18-byte-column-of-comment-start", "C18.front.range-lies-inside-the-file", onLeadLine)
		symxKnownFor("C18-byte-column-of-comment-start", "C18.front.covers-text-equal-to-the-value", onLeadLine)
		inside := r.StartLine >= 0 && r.EndLine < len(lines) && r.StartLine <= r.EndLine && r.StartCol >= 0 && r.EndCol >= 0
		if inside {
			inside = r.StartCol <= len([]rune(lines[r.StartLine])) && r.EndCol <= len([]rune(lines[r.EndLine]))
		}
		symxAssert(inside, "C18.front.range-lies-inside-the-file")
		symxAssert(r.StartLine < r.EndLine || (r.StartLine == r.EndLine && r.StartCol <= r.EndCol), "C18.front.start-not-after-end")
		covered := ""
		if inside && r.StartLine == r.EndLine && r.StartCol <= r.EndCol {
			covered = string([]rune(lines[r.StartLine])[r.StartCol:r.EndCol])
		}
		symxRecord("diag", d.Code, r.StartLine, r.StartCol, r.EndLine, r.EndCol)
		switch diagnostics.DiagnosticCode(d.Code) {
		case diagnostics.DiagAnnotationValueInvalid:
			symxCover("C18.front.value-diagnostic")
			symxAssert(covered == pert.verb, "C18.front.covers-text-equal-to-the-value")
		case diagnostics.DiagLinkerPathInvalidRef:
			symxCover("C18.front.value-diagnostic")
			symxAssert(covered == "zz", "C18.front.covers-text-equal-to-the-value")
		case diagnostics.DiagLinkerRouteMissingPath:
			symxAssert(covered == "{"+pert.urlName+"}", "C18.front.covers-the-url-parameter")
		case diagnostics.DiagLinkerUnreferencedParameter:
			symxAssert(strings.HasPrefix(covered, "id ") || strings.HasPrefix(covered, "q ") || strings.HasPrefix(covered, "b "), "C18.front.covers-the-parameter-declaration")
		case diagnostics.DiagReceiverParamNotPrimitive:
			symxAssert(covered == "q "+pert.qType, "C18.front.covers-the-parameter-declaration")
		case diagnostics.DiagReceiverRetValsIsNotError, diagnostics.DiagReceiverRetValsInvalidSignature:
			symxAssert(inside && strings.Contains(lines[r.StartLine], "func (c *Ctl) Op("), "C18.front.return-diagnostic-starts-on-the-declaration-line")
		}
		for j := 0; j < i; j++ {
			symxAssert(!(diags[j].Code == d.Code && diags[j].Range == d.Range && diags[j].Message == d.Message), "C18.front.no-diagnostic-twice")
		}
	}
	vhC18ErrorText(tree) // last: a path inside its recorded finding ends there
}

// the command's error text (what GleecePipeline.Run returns: the error-severity entities rendered by
// DiagnosticsToError) mentions every error diagnostic exactly once
func vhC18ErrorText(tree []diagnostics.EntityDiagnostic) {
	errEntities := diagnostics.GetDiagnosticsWithSeverity(tree, []diagnostics.DiagnosticSeverity{diagnostics.DiagnosticError})
	if len(errEntities) == 0 {
		return
	}
	text := diagnostics.DiagnosticsToError(errEntities).Error()
	// recorded finding: GetDiagnosticsWithSeverity lists an entity once per error it holds and lists children both
	// under their parent and on their own, so the text repeats diagnostics (the repository's own test pins the count)
	repeats := false
	var scan func(e *diagnostics.EntityDiagnostic, ancestorHasError bool)
	scan = func(e *diagnostics.EntityDiagnostic, ancestorHasError bool) {
		own := 0
		for _, d := range e.Diagnostics {
			if d.Severity == diagnostics.DiagnosticError {
				own++
			}
		}
		if own >= 2 || (own >= 1 && ancestorHasError) {
			repeats = true
		}
		for _, c := range e.Children {
			scan(c, ancestorHasError || own >= 1)
		}
	}
	for i := range tree {
		scan(&tree[i], false)
	}
	symxKnownFor("C18-error-text-repeats-entities", "C18.front.error-text-mentions-no-diagnostic-twice", repeats)
	all := vhFlattenDiags(tree)
	for i := 1; i < len(all); i++ {
		for j := i; j > 0 && vhDiagLess(all[j], all[j-1]); j-- {
			all[j], all[j-1] = all[j-1], all[j]
		}
	}
	for _, d := range all {
		if d.Severity != diagnostics.DiagnosticError {
			continue
		}
		line := d.Code + " at " + d.FilePath + ":" + strconv.Itoa(d.Range.StartLine+1) + ":" + strconv.Itoa(d.Range.StartCol+1) + " - " + d.Message + "\n"
		n := strings.Count(text, line)
		symxCover("C18.front.error-text")
		symxRecord("mentions", d.Code, n)
		symxAssert(n >= 1, "C18.front.error-text-mentions-every-error")
		symxAssert(n <= 1, "C18.front.error-text-mentions-no-diagnostic-twice")
	}
}

func vhDiagLess(a, b diagnostics.ResolvedDiagnostic) bool {
	if a.Range.StartLine != b.Range.StartLine {
		return a.Range.StartLine < b.Range.StartLine
	}
	if a.Range.StartCol != b.Range.StartCol {
		return a.Range.StartCol < b.Range.StartCol
	}
	if a.Code != b.Code {
		return a.Code < b.Code
	}
	return a.Message < b.Message
}

// C14 through the front end: no perturbed project crashes the visitors, the validators, the reduction or the emitters
func vh_C14_front_perturbed_Q() {
	symxAssertionsOff()
	vhFrontLight = true
	pert, valid := vhFrontPerturbation()
	vhFrontLight = false
	vhC10C18FrontWith(pert, valid, true)
	fr, err := visitors.VhLoadSource(vhFrontPerturbSource(pert), nil)
	if err != nil {
		return
	}
	meta, err := pipeline.VhNewPipeline(fr, vhFrontConfig()).Run()
	symxCover("C14.front.analysis-ended")
	if err != nil {
		return
	}
	doc30, doc31 := vhNewDoc30(), vhNewDoc31()
	_ = swagen30.GenerateModelsSpec(doc30, &meta.Models)
	_ = swagen31.GenerateModelsSpec(doc31, &meta.Models)
	_ = swagen30.GenerateControllersSpec(doc30, &definitions.OpenAPIGeneratorConfig{}, meta.Flat)
	_ = swagen31.GenerateControllersSpec(doc31, &definitions.OpenAPIGeneratorConfig{}, meta.Flat)
	symxCover("C14.front.emitters-ended")
}

func vh_C10_front_accept_Q()      { vhC10C18Front(false) }
func vh_C18_front_diagnostics_Q() { vhC10C18Front(true) }

// ---- C13 through the front end: a controller spread over several files, two controllers, imported model types;
// two analyses under arbitrary map iteration orders give the same metadata in the same order
var vhFrontSplitNames = []string{"a.go", "b.go", "c.go"}
var vhFrontSplitSrcs = []string{`package ctl

import "github.com/gopher-fleece/runtime"

type Item struct {
	Name string
}

// @Route(/z)
type Zed struct {
	runtime.GleeceController
}

// @Method(GET)
// @Route(/a1)
func (c *Zed) A1() (Item, error) { return Item{}, nil }
`, `package ctl

import "github.com/gopher-fleece/runtime"

type Other struct {
	N int
}

// @Route(/y)
type Why struct {
	runtime.GleeceController
}

// @Method(GET)
// @Route(/b1)
func (c *Zed) B1() (Other, error) { return Other{}, nil }

// @Method(POST)
// @Route(/b2)
// @Body(o)
func (c *Why) B2(o Other) error { return nil }
`, `package ctl

// two enums and two structs whose names differ only in letter case: every ordering has to break the tie by name
type Level string

const LevelA Level = "a"

type LEVEL string

const LEVELB LEVEL = "b"

type Pair struct {
	A int
}

type PAIR struct {
	B int
}

// @Method(POST)
// @Route(/c1)
// @Query(l1)
// @Query(l2)
// @Body(p)
func (c *Zed) C1(l1 Level, l2 LEVEL, p Pair) (PAIR, error) { return PAIR{}, nil }

// @Method(GET)
// @Route(/c2)
func (c *Why) C2() (Item, error) { return Item{}, nil }
`}

func vh_C13_front_two_runs_Q() {
	symxNoWitnessReplay()
	rounds := 1
	if !symxIsSymbolic() {
		rounds = 10 // natively the order is the runtime's random choice: repeat
	}
	same := true
	for r := 0; r < rounds; r++ {
		var flats [][]string
		for k := 0; k < 2; k++ {
			fr, err := visitors.VhLoadSources(vhFrontSplitNames, vhFrontSplitSrcs, nil)
			symxAssert(err == nil, "C13.front.fixture-loads")
			if err != nil {
				return
			}
			p := pipeline.VhNewPipeline(fr, vhFrontConfig())
			symxPermuteMapsTwoOrders(k == 1) // the first analysis is the reference; in the second every map is iterated forwards or backwards
			meta, err := p.Run()
			symxPermuteMaps(false)
			symxAssert(err == nil, "C13.front.project-is-accepted")
			if err != nil {
				return
			}
			flats = append(flats, vhFlattenMeta(meta))
		}
		if !vhSameStrings(flats[0], flats[1]) {
			same = false
		}
	}
	symxCover("C13.front.two-runs-compared")
	symxAssert(same, "C13.front.two-analyses-give-the-same-metadata-in-the-same-order")
}

// ---- C04 through the front end: @Security comments on controller and method, default security and the enforce flag

func vhFrontSecuritySource(ctrlSec, methodSec string) string {
	return `package ctl

import "github.com/gopher-fleece/runtime"

// @Tag(T)
// @Route(/c)
` + ctrlSec + `type Ctl struct {
	runtime.GleeceController
}

// @Method(GET)
// @Route(/r)
` + methodSec + `func (c *Ctl) Op() error { return nil }
`
}

func vh_C04_front_security_Q() {
	type alt struct {
		scheme string
		scopes []string
	}
	ctrlChoice := symxChoice("ctrl", 3)
	ctrlText := []string{"", "// @Security(s1, { scopes: [\"a\"] })\n", "// @Security(s2)\n"}[ctrlChoice]
	ctrlSecs := [][]alt{nil, {{"s1", []string{"a"}}}, {{"s2", nil}}}[ctrlChoice]
	methodChoice := symxChoice("method", 4)
	methodText := []string{"", "// @Security(s1, { scopes: [\"b\", \"c\"] })\n", "// @Security(s1, { scopes: [\"b\"] })\n// @Security(s2)\n", "// @Security(s3, { scopes: [] })\n"}[methodChoice]
	methodSecs := [][]alt{nil, {{"s1", []string{"b", "c"}}}, {{"s1", []string{"b"}}, {"s2", nil}}, {{"s3", nil}}}[methodChoice]
	hasDefault := symxBool("default")
	enforce := symxBool("enforce")
	hidden := symxBool("hidden") // a hidden route is still registered and served by the router: the enforce flag covers it too
	if hidden {
		methodText += "// @Hidden\n"
	}
	cfg := vhFrontConfig()
	for _, name := range []string{"s1", "s2", "s3"} {
		cfg.OpenAPIGeneratorConfig.SecuritySchemes = append(cfg.OpenAPIGeneratorConfig.SecuritySchemes, definitions.SecuritySchemeConfig{
			SecurityName: name, Description: "d", Type: "apiKey", In: "header", FieldName: "X-" + name})
	}
	var def []alt
	if hasDefault {
		cfg.OpenAPIGeneratorConfig.DefaultRouteSecurity = &definitions.SecurityAnnotationComponent{SchemaName: "s3", Scopes: []string{"d"}}
		def = []alt{{"s3", []string{"d"}}}
	}
	cfg.RoutesConfig.AuthorizationConfig.EnforceSecurityOnAllRoutes = enforce
	fr, err := visitors.VhLoadSource(vhFrontSecuritySource(ctrlText, methodText), nil)
	symxAssert(err == nil, "C04.front.fixture-loads")
	if err != nil {
		return
	}
	meta, err := pipeline.VhNewPipeline(fr, cfg).Run()
	want := methodSecs
	if len(want) == 0 {
		want = ctrlSecs
	}
	if len(want) == 0 {
		want = def
	}
	if enforce && len(want) == 0 {
		symxCover("C04.front.open-route-under-enforce")
		symxAssert(err != nil, "C04.front.enforce-flag-leaves-no-open-route")
		return
	}
	if err != nil {
		symxRecord("refused", err.Error())
	}
	symxAssert(err == nil, "C04.front.project-is-accepted")
	if err != nil {
		return
	}
	symxCover("C04.front.accepted")
	symxAssert(len(meta.Flat) == 1 && len(meta.Flat[0].Routes) == 1, "C04.front.one-route")
	if len(meta.Flat) != 1 || len(meta.Flat[0].Routes) != 1 {
		return
	}
	eff := meta.Flat[0].Routes[0].Security
	symxAssert(len(eff) == len(want), "C04.front.enforced-alternatives-are-method-else-controller-else-default")
	for i := range eff {
		if i < len(want) {
			c := eff[i].SecurityAnnotation
			symxAssert(len(c) == 1 && c[0].SchemaName == want[i].scheme && vhSameStrings(c[0].Scopes, want[i].scopes), "C04.front.enforced-alternative")
		}
	}
	ocfg := &cfg.OpenAPIGeneratorConfig
	doc30, doc31 := vhNewDoc30(), vhNewDoc31()
	symxAssert(swagen30.GenerateSecuritySpec(doc30, &ocfg.SecuritySchemes) == nil && swagen31.GenerateSecuritySpec(doc31, &ocfg.SecuritySchemes) == nil, "C04.front.schemes-no-error")
	symxAssert(swagen30.GenerateControllersSpec(doc30, ocfg, meta.Flat) == nil && swagen31.GenerateControllersSpec(doc31, ocfg, meta.Flat) == nil, "C04.front.documents-no-error")
	for vi, ops := range [][]vhOpView{vhOps30(doc30), vhOps31(doc31)} {
		ver := []string{"30", "31"}[vi]
		if hidden {
			symxAssert(len(ops) == 0, "C04.front."+ver+".hidden-route-is-not-documented")
			continue
		}
		symxAssert(len(ops) == 1, "C04.front."+ver+".one-operation")
		if len(ops) != 1 {
			continue
		}
		symxAssert(len(ops[0].security) == len(want), "C04.front."+ver+".documented-security-equals-enforced-security")
		for i, req := range ops[0].security {
			if i < len(want) {
				symxAssert(len(req.names) == 1 && req.names[0] == want[i].scheme && vhSameStrings(req.scopes[0], want[i].scopes), "C04.front."+ver+".documented-alternative")
			}
		}
	}
}

// C01 through the front end, several files: the methods of a controller count wherever in the package they are declared
func vh_C01_front_split_Q() {
	hideB1 := symxBool("hideB1")
	srcs := append([]string(nil), vhFrontSplitSrcs...)
	if hideB1 {
		srcs[1] = strings.Replace(srcs[1], "// @Route(/b1)\n", "// @Route(/b1)\n// @Hidden\n", 1)
	}
	fr, err := visitors.VhLoadSources(vhFrontSplitNames, srcs, nil)
	symxAssert(err == nil, "C01.front.fixture-loads")
	if err != nil {
		return
	}
	meta, err := pipeline.VhNewPipeline(fr, vhFrontConfig()).Run()
	symxAssert(err == nil, "C01.front.project-is-accepted")
	if err != nil {
		return
	}
	doc30, doc31 := vhNewDoc30(), vhNewDoc31()
	cfg := &definitions.OpenAPIGeneratorConfig{}
	symxAssert(swagen30.GenerateControllersSpec(doc30, cfg, meta.Flat) == nil && swagen31.GenerateControllersSpec(doc31, cfg, meta.Flat) == nil, "C01.front.documents-no-error")
	symxCover("C01.front.split-documented")
	want := [][3]string{{"GET", "/z/a1", "A1"}, {"POST", "/z/c1", "C1"}, {"POST", "/y/b2", "B2"}, {"GET", "/y/c2", "C2"}}
	if !hideB1 {
		want = append(want, [3]string{"GET", "/z/b1", "B1"})
	}
	for vi, ops := range [][]vhOpView{vhOps30(doc30), vhOps31(doc31)} {
		ver := []string{"30", "31"}[vi]
		symxAssert(len(ops) == len(want), "C01.front."+ver+".exactly-the-visible-methods-of-all-files")
		for _, w := range want {
			op := vhFindOp(ops, w[1], w[0])
			symxAssert(op != nil && op.opId == w[2], "C01.front."+ver+".method-declared-in-a-sibling-file-is-documented")
		}
	}
}

// C10 through the front end: slices and arrays are accepted as query parameters only
func vh_C10_front_slices_Q() {
	typ := []string{"[]string", "[]int", "[2]int", "string"}[symxChoice("type", 4)]
	loc := []string{"Query", "Header", "FormField", "Path"}[symxChoice("loc", 4)]
	route := "/r"
	if loc == "Path" {
		route = "/r/{v}"
	}
	src := `package ctl

import "github.com/gopher-fleece/runtime"

// @Tag(T)
// @Route(/c)
type Ctl struct {
	runtime.GleeceController
}

// @Method(POST)
// @Route(` + route + `)
// @` + loc + `(v)
func (c *Ctl) Op(v ` + typ + `) error { return nil }
`
	fr, err := visitors.VhLoadSource(src, nil)
	symxAssert(err == nil, "C10.front.fixture-loads")
	if err != nil {
		return
	}
	_, err = pipeline.VhNewPipeline(fr, vhFrontConfig()).Run()
	if typ == "string" || loc == "Query" {
		symxCover("C10.front.slices.well-formed")
		symxAssert(err == nil, "C10.front.well-formed-route-is-never-rejected")
	} else {
		symxCover("C10.front.slices.outside-query")
		symxAssert(err != nil, "C10.front.slice-outside-the-query-is-rejected")
	}
}

// C06 through the front end, second shape: form fields, enum / alias / slice parameters, a path parameter bound by alias
func vh_C06_front_forms_Q() {
	f1Pointer := symxBool("f1.pointer")
	f1Required := symxBool("f1.validatedRequired")
	qType := []string{"[]string", "Color", "ID", "int64", "bool"}[symxChoice("q.type", 5)]
	alias := symxBool("path.alias")
	urlName, pathAnn := "id", "// @Path(id)"
	if alias {
		urlName, pathAnn = "item-id", `// @Path(id, { name: "item-id" })`
	}
	f1Type := "string"
	if f1Pointer {
		f1Type = "*string"
	}
	f1Ann := "// @FormField(f1)"
	if f1Required {
		f1Ann = `// @FormField(f1, { validate: "required" })`
	}
	src := `package ctl

import "github.com/gopher-fleece/runtime"

type Color string

const (
	Red  Color = "red"
	Blue Color = "blue"
)

type ID string

// @Route(/c)
type Ctl struct {
	runtime.GleeceController
}

// @Method(PUT)
// @Route(/op/{` + urlName + `})
` + pathAnn + `
// @Query(q, { name: "filter" })
` + f1Ann + `
// @FormField(f2, { name: "second" })
func (c *Ctl) Op(id int, q ` + qType + `, f1 ` + f1Type + `, f2 int) error {
	return nil
}
`
	fr, err := visitors.VhLoadSource(src, nil)
	symxAssert(err == nil, "C06.front.fixture-loads")
	if err != nil {
		return
	}
	meta, err := pipeline.VhNewPipeline(fr, vhFrontConfig()).Run()
	if err != nil {
		symxRecord("refused", err.Error())
	}
	symxAssert(err == nil, "C06.front.project-is-accepted")
	if err != nil {
		return
	}
	doc30, doc31 := vhNewDoc30(), vhNewDoc31()
	cfg := &definitions.OpenAPIGeneratorConfig{}
	symxAssert(swagen30.GenerateModelsSpec(doc30, &meta.Models) == nil && swagen31.GenerateModelsSpec(doc31, &meta.Models) == nil, "C06.front.models-no-error")
	symxAssert(swagen30.GenerateControllersSpec(doc30, cfg, meta.Flat) == nil && swagen31.GenerateControllersSpec(doc31, cfg, meta.Flat) == nil, "C06.front.documents-no-error")
	ops30, ops31 := vhOps30(doc30), vhOps31(doc31)
	symxAssert(len(ops30) == 1 && len(ops31) == 1 && ops30[0].path == "/c/op/{"+urlName+"}", "C06.front.one-operation-at-the-documented-path")
	if len(ops30) != 1 || len(ops31) != 1 {
		return
	}
	symxCover("C06.front.forms-documented")
	wantRef, wantTyp := "", ""
	switch qType {
	case "[]string":
		wantTyp = "array"
	case "Color", "ID":
		wantRef = "#/components/schemas/" + qType
	case "int64":
		wantTyp = "integer"
	default:
		wantTyp = "boolean"
	}
	for vi, d := range []vhOpDetail{vhDetail30(&ops30[0]), vhDetail31(&ops31[0])} {
		ver := []string{"30", "31"}[vi]
		symxAssert(len(d.params) == 2, "C06.front."+ver+".path-and-query-parameters")
		if len(d.params) == 2 {
			symxAssert(d.params[0].name == urlName && d.params[0].in == "path" && d.params[0].required && d.params[0].typ == "integer", "C06.front."+ver+".path-parameter-under-its-wire-name")
			symxAssert(d.params[1].name == "filter" && d.params[1].in == "query" && d.params[1].required, "C06.front."+ver+".query-parameter-under-its-wire-name")
			symxAssert(d.params[1].ref == wantRef && d.params[1].typ == wantTyp, "C06.front."+ver+".parameter-schema-of-declared-type")
		}
		symxAssert(d.hasBody && d.hasForm && !d.hasJSON, "C06.front."+ver+".form-fields-are-one-urlencoded-object")
		symxAssert(vhSameStrings(d.formProps, []string{"f1", "second"}), "C06.front."+ver+".form-properties-under-their-wire-names")
		wantReq := []string{"second"}
		if !f1Pointer || f1Required {
			wantReq = []string{"f1", "second"}
		}
		symxAssert(vhSameStrings(vhSortStrings(d.formRequired), wantReq), "C06.front."+ver+".form-required-under-the-same-rule")
		sr := vhRespFind(d.responses, "204")
		symxAssert(sr != nil && !sr.hasContent && len(d.responses) == 1, "C06.front."+ver+".204-without-content-and-nothing-else")
	}
}

// C18 through the front end, several files: a route conflict between two methods is reported at the @Route comment
// of each method, in the file that holds that method (which need not be the controller's file)
func vh_C18_front_conflict_Q() {
	sameFile := symxBool("sameFile") // both conflicting methods in the controller's file, or in a sibling file
	route2 := []string{"/same", "/{x}", "/other"}[symxChoice("route2", 3)]
	ctrl := `package ctl

import "github.com/gopher-fleece/runtime"

// @Tag(T)
// @Route(/c)
type Ctl struct {
	runtime.GleeceController
}
`
	methods := `
// @Method(GET)
// @Route(/same)
func (c *Ctl) One() error { return nil }

	// @Method(GET)
	// @Route(` + route2 + `)
	// @Path(x)
func (c *Ctl) Two(x string) error { return nil }
`
	if route2 != "/{x}" {
		methods = strings.Replace(methods, "\t// @Path(x)\n", "", 1)
		methods = strings.Replace(methods, "Two(x string)", "Two()", 1)
	}
	names, srcs := []string{"a.go", "b.go"}, []string{ctrl, "package ctl\n" + methods}
	if sameFile {
		names, srcs = []string{"a.go"}, []string{ctrl + methods}
	}
	fr, err := visitors.VhLoadSources(names, srcs, nil)
	symxAssert(err == nil, "C18.front.fixture-loads")
	if err != nil {
		return
	}
	p := pipeline.VhNewPipeline(fr, vhFrontConfig())
	if p.GenerateGraph() != nil {
		return
	}
	tree, err := p.Validate()
	symxAssert(err == nil, "C18.front.validation-runs")
	if err != nil {
		return
	}
	methodSrc := srcs[len(srcs)-1]
	lines := strings.Split(methodSrc, "\n")
	conflicts := 0
	for _, d := range vhFlattenDiags(tree) {
		if diagnostics.DiagnosticCode(d.Code) != diagnostics.DiagRouteConflict {
			continue
		}
		conflicts++
		symxCover("C18.front.conflict-diagnostic")
		symxAssert(strings.HasSuffix(d.FilePath, "/"+names[len(names)-1]), "C18.front.conflict-names-the-file-of-the-method")
		r := d.Range
		inside := r.StartLine >= 0 && r.EndLine < len(lines) && r.StartLine == r.EndLine && r.StartCol >= 0 && r.StartCol <= r.EndCol && r.EndCol <= len([]rune(lines[r.EndLine]))
		symxAssert(inside, "C18.front.conflict-range-lies-inside-that-file")
		if inside {
			covered := string([]rune(lines[r.StartLine])[r.StartCol:r.EndCol])
			symxAssert(covered == "/same" || covered == route2, "C18.front.conflict-covers-the-route-value")
		}
	}
	if route2 == "/other" {
		symxAssert(conflicts == 0, "C18.front.no-conflict-reported-for-distinct-routes")
	} else {
		symxAssert(conflicts == 2, "C18.front.both-conflicting-methods-are-reported")
	}
}

// C10 through the front end: a URL parameter at the very start of the method's route (no leading slash) is linked
// like any other
func vh_C10_front_leading_param_Q() {
	route := []string{"{id}", "{id}/details", "/{id}", "x/{id}"}[symxChoice("route", 4)]
	binding := symxChoice("binding", 4)
	pathAnn := []string{"// @Path(id)\n", "// @Path(p, { name: \"id\" })\n", "", "// @Path(p, { name: \"other\" })\n"}[binding]
	param := []string{"id string", "p string", "", "p string"}[binding]
	src := `package ctl

import "github.com/gopher-fleece/runtime"

// @Tag(T)
// @Route(/c)
type Ctl struct {
	runtime.GleeceController
}

// @Method(GET)
// @Route(` + route + `)
` + pathAnn + `func (c *Ctl) Op(` + param + `) error { return nil }
`
	fr, err := visitors.VhLoadSource(src, nil)
	symxAssert(err == nil, "C10.front.fixture-loads")
	if err != nil {
		return
	}
	_, err = pipeline.VhNewPipeline(fr, vhFrontConfig()).Run()
	if binding <= 1 {
		symxCover("C10.front.leading.well-formed")
		symxAssert(err == nil, "C10.front.well-formed-route-is-never-rejected")
	} else {
		symxCover("C10.front.leading.unbound")
		symxAssert(err != nil, "C10.front.unbound-url-parameter-is-rejected")
	}
}

// C07 through the front end, JSON names and further field shapes: omitempty without a name, a renamed field, pointer
// embedding, arrays, double pointers, an assigned alias
func vh_C07_front_shapes_Q() {
	shape := symxChoice("shape", 8)
	field := []string{
		"A string `json:\",omitempty\"`",
		"A string `json:\"renamed,omitempty\"`",
		"A [3]int",
		"A **Leaf",
		"A AID",
		"*Base",
		"A map[string][]Leaf",
		"A, B int `json:\"same\"`",
	}[shape]
	src := `package ctl

import "github.com/gopher-fleece/runtime"

type Leaf struct {
	V int ` + "`json:\"v\"`" + `
}

type AID = string

type Base struct {
	Id string ` + "`json:\"id\"`" + `
}

type Inner struct {
	` + field + `
}

// @Route(/c)
type Ctl struct {
	runtime.GleeceController
}

// @Method(POST)
// @Route(/op)
// @Body(b)
func (c *Ctl) Op(b Inner) error { return nil }
`
	fr, err := visitors.VhLoadSource(src, nil)
	symxAssert(err == nil, "C07.front.fixture-loads")
	if err != nil {
		return
	}
	meta, err := pipeline.VhNewPipeline(fr, vhFrontConfig()).Run()
	if err != nil {
		symxRecord("refused", err.Error())
	}
	symxAssert(err == nil, "C07.front.project-is-accepted")
	if err != nil {
		return
	}
	doc30, doc31 := vhNewDoc30(), vhNewDoc31()
	symxAssert(swagen30.GenerateModelsSpec(doc30, &meta.Models) == nil && swagen31.GenerateModelsSpec(doc31, &meta.Models) == nil, "C07.front.models-no-error")
	symxCover("C07.front.shapes-built")
	p31, _ := doc31.Components.Schemas.Get("Inner")
	for vi, v := range []vhSchemaView{vhView30(doc30.Components.Schemas["Inner"]), vhView31(p31)} {
		ver := []string{"30", "31"}[vi]
		symxRecord("inner"+ver, strings.Join(v.props, ","), strings.Join(v.propRefs, ","), strings.Join(v.propTyps, ","), strings.Join(v.allOf, ","))
		switch shape {
		case 0:
			symxAssert(vhSameStrings(v.props, []string{"A"}), "C07.front."+ver+".omitempty-without-a-name-keeps-the-field-name")
		case 1:
			symxAssert(vhSameStrings(v.props, []string{"renamed"}), "C07.front."+ver+".json-name")
		case 2:
			symxAssert(vhSameStrings(v.props, []string{"A"}) && v.propTyps[0] == "array", "C07.front."+ver+".array-field")
		case 3:
			symxAssert(vhSameStrings(v.props, []string{"A"}) && v.propRefs[0] == "#/components/schemas/Leaf", "C07.front."+ver+".pointer-field-refers-to-the-struct")
		case 4:
			// an alias is a component of its own that maps to the primitive; the field refers to it
			symxAssert(vhSameStrings(v.props, []string{"A"}) && v.propRefs[0] == "#/components/schemas/AID", "C07.front."+ver+".alias-field-refers-to-the-alias-component")
			var av vhSchemaView
			if vi == 0 {
				av = vhView30(doc30.Components.Schemas["AID"])
			} else {
				ap, _ := doc31.Components.Schemas.Get("AID")
				av = vhView31(ap)
			}
			symxAssert(av.typ == "string" && len(av.props) == 0, "C07.front."+ver+".assigned-alias-maps-to-its-primitive")
		case 5:
			symxAssert(v.isAllOf && vhSameStrings(v.allOf, []string{"#/components/schemas/Base"}), "C07.front."+ver+".pointer-embedding-via-allOf")
		case 6:
			symxAssert(vhSameStrings(v.props, []string{"A"}) && v.propTyps[0] == "object", "C07.front."+ver+".map-field-is-an-object")
		case 7:
			symxAssert(vhSameStrings(v.props, []string{"same"}), "C07.front."+ver+".two-names-one-json-name")
		}
	}
}

// C10 through the front end, one anomaly at a time around a well-formed route
func vh_C10_front_anomalies_Q() {
	type variant struct {
		anns, sig string
		valid     bool
	}
	base := "// @Method(POST)\n// @Route(/op/{id})\n// @Path(id)\n"
	variants := []variant{
		{base + "// @Body(b)\n", "(id string, b Model) error", true},
		{base + "// @Body(b)\n", "(ctx context.Context, id string, b Model) (Model, error)", true},
		{base + "// @Body(a)\n// @Body(b)\n", "(id string, a Model, b Model) error", false},                                                // two bodies
		{base + "// @Body(b)\n// @FormField(f)\n", "(id string, b Model, f string) error", false},                                          // body together with a form field
		{base + "// @Query(b)\n", "(id string, b Model) error", false},                                                                     // struct in the query
		{"// @Method(POST)\n// @Route(/op/{id})\n// @Path(id)\n// @Path(id2, { name: \"id\" })\n", "(id string, id2 string) error", false}, // two bindings of one URL name
		{base + "// @Body(b)\n", "(id string, b Model) (error, Model)", false},                                                             // error not last
		{base + "// @Body(b)\n", "(id string, b Model) (Model, Model, error)", false},                                                      // three return values
		{base + "// @Body(b)\n", "(id string, b Model) Model", false},                                                                      // no error
		{base + "// @Body(b)\n// @Query(b)\n", "(id string, b Model) error", false},                                                        // one parameter referenced twice
		{base, "(id string, extra int) error", false},                                                                                      // unreferenced parameter
		{base + "// @Header(h)\n// @FormField(f)\n", "(id string, h int, f bool) error", true},                                             // header and form field of primitive types
		{"// @Method(PATCH)\n// @Route(/op/{id})\n// @Path(id)\n", "(id string) error", true},                                              // a supported verb
		{"// @Method(TRACE)\n// @Route(/op/{id})\n// @Path(id)\n", "(id string) error", false},                                             // a verb routes do not support
		{"// @Method(post)\n// @Route(/op/{id})\n// @Path(id)\n", "(id string) error", false},                                              // verbs are upper case
	}
	v := variants[symxChoice("variant", len(variants))]
	src := `package ctl

import (
	"context"

	"github.com/gopher-fleece/runtime"
)

var _ context.Context

type Model struct {
	X string
}

// @Tag(T)
// @Route(/c)
type Ctl struct {
	runtime.GleeceController
}

` + v.anns + `func (c *Ctl) Op` + v.sig + ` {
	panic("unused")
}
`
	fr, err := visitors.VhLoadSource(src, nil)
	symxAssert(err == nil, "C10.front.fixture-loads")
	if err != nil {
		return
	}
	_, err = pipeline.VhNewPipeline(fr, vhFrontConfig()).Run()
	if err != nil {
		symxRecord("refused", "yes")
	}
	if v.valid {
		symxCover("C10.front.anomalies.well-formed")
		symxAssert(err == nil, "C10.front.well-formed-route-is-never-rejected")
	} else {
		symxCover("C10.front.anomalies.ill-formed")
		symxAssert(err != nil, "C10.front.inconsistent-route-is-rejected")
	}
}

// C06 through the front end, response annotations: explicit success codes on both return shapes, repeated and
// clashing error codes
func vh_C06_front_responses_Q() {
	hasValue := symxBool("hasValue")
	respAnn := []string{"", "// @Response(200) fine\n", "// @Response(204) nothing\n", "// @Response(202) later\n"}[symxChoice("response", 4)]
	errAnn := []string{"", "// @ErrorResponse(404) missing\n", "// @ErrorResponse(404) missing\n// @ErrorResponse(409) clash\n", "// @ErrorResponse(500) boom\n"}[symxChoice("errors", 4)]
	sig, ret := "error", "return nil"
	if hasValue {
		sig, ret = "(Model, error)", "return Model{}, nil"
	}
	src := `package ctl

import "github.com/gopher-fleece/runtime"

type Model struct {
	X string
}

// @Route(/c)
type Ctl struct {
	runtime.GleeceController
}

// @Method(GET)
// @Route(/op)
` + respAnn + errAnn + `func (c *Ctl) Op() ` + sig + ` {
	` + ret + `
}
`
	fr, err := visitors.VhLoadSource(src, nil)
	symxAssert(err == nil, "C06.front.fixture-loads")
	if err != nil {
		return
	}
	meta, err := pipeline.VhNewPipeline(fr, vhFrontConfig()).Run()
	if err != nil {
		symxRecord("refused", "yes")
	}
	symxAssert(err == nil, "C06.front.project-is-accepted")
	if err != nil {
		return
	}
	doc30, doc31 := vhNewDoc30(), vhNewDoc31()
	cfg := &definitions.OpenAPIGeneratorConfig{}
	symxAssert(swagen30.GenerateModelsSpec(doc30, &meta.Models) == nil && swagen31.GenerateModelsSpec(doc31, &meta.Models) == nil, "C06.front.models-no-error")
	symxAssert(swagen30.GenerateControllersSpec(doc30, cfg, meta.Flat) == nil && swagen31.GenerateControllersSpec(doc31, cfg, meta.Flat) == nil, "C06.front.documents-no-error")
	ops30, ops31 := vhOps30(doc30), vhOps31(doc31)
	symxAssert(len(ops30) == 1 && len(ops31) == 1, "C06.front.one-operation")
	if len(ops30) != 1 || len(ops31) != 1 {
		return
	}
	symxCover("C06.front.responses-documented")
	success := "204"
	if hasValue {
		success = "200"
	}
	switch {
	case strings.Contains(respAnn, "(200)"):
		success = "200"
	case strings.Contains(respAnn, "(204)"):
		success = "204"
	case strings.Contains(respAnn, "(202)"):
		success = "202"
	}
	var errCodes []string
	for _, c := range []string{"404", "409", "500"} {
		if strings.Contains(errAnn, "("+c+")") {
			errCodes = append(errCodes, c)
		}
	}
	for vi, d := range []vhOpDetail{vhDetail30(&ops30[0]), vhDetail31(&ops31[0])} {
		ver := []string{"30", "31"}[vi]
		symxAssert(len(d.responses) == 1+len(errCodes), "C06.front."+ver+".success-and-declared-error-responses-only")
		sr := vhRespFind(d.responses, success)
		symxAssert(sr != nil && sr.hasDesc, "C06.front."+ver+".success-code")
		if sr != nil {
			if hasValue {
				symxAssert(sr.hasContent && sr.contentRef == "#/components/schemas/Model", "C06.front."+ver+".success-schema-of-the-value-type")
			} else {
				symxAssert(!sr.hasContent, "C06.front."+ver+".no-content-without-a-value")
			}
		}
		for _, c := range errCodes {
			er := vhRespFind(d.responses, c)
			symxAssert(er != nil && er.hasDesc && er.hasContent && er.contentRef == "#/components/schemas/"+definitions.Rfc7807ErrorName, "C06.front."+ver+".error-response-with-the-error-type's-schema")
		}
	}
}

// C18 through the front end: diagnostics about an annotation's value, one kind at a time, at three indentations -
// each covers text equal to that value in the file of the method
func vh_C18_front_values_Q() {
	indent := []string{"", "\t", "      "}[symxChoice("indent", 3)]
	type variant struct{ ann, value string }
	variants := []variant{
		{"@Response(641) odd", "641"},
		{"@Response(abc) bad", "abc"},
		{"@ErrorResponse(99) low", "99"},
		{"@ErrorResponse(4o4) typo", "4o4"},
		{"@Query(zz)", "zz"},
		{"@Header(zz)", "zz"},
		{"@FormField(zz)", "zz"},
		{"@Body(zz)", "zz"},
		{"@Method(FETCH)", "FETCH"},
	}
	v := variants[symxChoice("variant", len(variants))]
	method := "// @Method(GET)\n"
	if strings.HasPrefix(v.ann, "@Method") {
		method = ""
	}
	doc := indent + "// Op é€ does things\n" + indent + method
	if method == "" {
		doc = indent + "// Op é€ does things\n"
	}
	doc += indent + "// @Route(/op)\n" + indent + "// " + v.ann + "\n"
	src := `package ctl

import "github.com/gopher-fleece/runtime"

// @Tag(T)
// @Route(/c)
type Ctl struct {
	runtime.GleeceController
}

` + doc + indent + `func (c *Ctl) Op() error { return nil }
`
	fr, err := visitors.VhLoadSource(src, nil)
	symxAssert(err == nil, "C18.front.fixture-loads")
	if err != nil {
		return
	}
	p := pipeline.VhNewPipeline(fr, vhFrontConfig())
	if p.GenerateGraph() != nil {
		return
	}
	tree, err := p.Validate()
	symxAssert(err == nil, "C18.front.validation-runs")
	if err != nil {
		return
	}
	lines := strings.Split(src, "\n")
	found := false
	for _, d := range vhFlattenDiags(tree) {
		r := d.Range
		symxAssert(d.FilePath == fr.Path, "C18.front.names-the-file-of-the-offending-method")
		inside := r.StartLine >= 0 && r.EndLine < len(lines) && r.StartLine <= r.EndLine && r.StartCol >= 0 && r.EndCol >= 0 &&
			r.StartCol <= len([]rune(lines[r.StartLine])) && r.EndCol <= len([]rune(lines[r.EndLine]))
		symxAssert(inside, "C18.front.range-lies-inside-the-file")
		if inside && r.StartLine == r.EndLine && r.StartCol <= r.EndCol {
			covered := string([]rune(lines[r.StartLine])[r.StartCol:r.EndCol])
			symxRecord("diag", d.Code, covered)
			if strings.Contains(lines[r.StartLine], v.ann) && covered == v.value {
				found = true
			}
		}
	}
	symxCover("C18.front.values.checked")
	symxAssert(found, "C18.front.value-diagnostic-covers-text-equal-to-the-value")
}

// C14 through the front end, unsupported and unusual type shapes: every one ends with an accepted project or a
// reported error, never a crash
func vh_C14_front_types_Q() {
	symxAssertionsOff()
	types := []string{"func()", "func(int)", "func(int) string", "chan int", "interface{}", "any", "struct{ N int }", "[]func()",
		"map[int]string", "*[]string", "Box[Leaf]", "Box[int]", "Pair[string, Leaf]", "[]Box[Leaf]", "error", "uintptr", "complex128", "[]any"}
	t := types[symxChoice("type", len(types))]
	tag := []string{"", " `json:\"-\"`"}[symxChoice("hidden", 2)]
	where := symxChoice("where", 3) // a model field, a query parameter, the returned value
	field, param, ann, ret := "F string", "", "", "Leaf"
	switch where {
	case 0:
		field = "F " + t + tag
	case 1:
		param, ann = "q "+t, "// @Query(q)\n"
	default:
		ret = t
	}
	src := `package ctl

import "github.com/gopher-fleece/runtime"

type Leaf struct {
	V int
}

type Box[T any] struct {
	Item T
}

type Pair[A any, B any] struct {
	First  A
	Second B
}

type Inner struct {
	` + field + `
}

// @Route(/c)
type Ctl struct {
	runtime.GleeceController
}

// @Method(POST)
// @Route(/op)
// @Body(b)
` + ann + `func (c *Ctl) Op(b Inner` + func() string {
		if param != "" {
			return ", " + param
		}
		return ""
	}() + `) (` + ret + `, error) {
	panic("unused")
}
`
	fr, err := visitors.VhLoadSource(src, nil)
	if err != nil {
		return // not a Go program (e.g. a constraint not satisfied): outside; not reached with these shapes
	}
	meta, err := pipeline.VhNewPipeline(fr, vhFrontConfig()).Run()
	if err != nil {
		symxCover("C14.front.types.reported-error")
		return
	}
	symxCover("C14.front.types.accepted")
	doc30, doc31 := vhNewDoc30(), vhNewDoc31()
	cfg := &definitions.OpenAPIGeneratorConfig{}
	_ = swagen30.GenerateModelsSpec(doc30, &meta.Models)
	_ = swagen31.GenerateModelsSpec(doc31, &meta.Models)
	_ = swagen30.GenerateControllersSpec(doc30, cfg, meta.Flat)
	_ = swagen31.GenerateControllersSpec(doc31, cfg, meta.Flat)
}

// C07 through the front end, type graphs: mutual recursion, named slices and maps, alias of a struct, embedded
// generic instantiation - the project is accepted or refused with an error (C14), and when accepted every reference
// in the components resolves and both documents agree component by component
func vh_C07_front_graphs_Q() {
	shapes := []string{
		"type A struct{ B *B }\ntype B struct{ As []A }",
		"type A struct{ M map[string]*A }\ntype B struct{ X int }",
		"type Tags []string\ntype A struct{ T Tags }\ntype B struct{ X int }",
		"type Dict map[string]int\ntype A struct{ D Dict; P *Dict }\ntype B struct{ X int }",
		"type AS = B\ntype A struct{ S AS }\ntype B struct{ X int }",
		"type Box[T any] struct{ Item T }\ntype A struct{ Box[B] }\ntype B struct{ X int }",
		"type E string\nconst E1 E = \"one\"\ntype EA = E\ntype A struct{ V EA; L []E }\ntype B struct{ X int }",
		"type A struct{ Inner struct{ N int } }\ntype B struct{ X int }",
		"type Box[T any] struct{ Item T }\ntype A struct{ X Box[Box[B]] }\ntype B struct{ X int }",
	}
	decls := shapes[symxChoice("shape", len(shapes))]
	use := []string{"A", "[]A", "*A"}[symxChoice("use", 3)]
	src := `package ctl

import "github.com/gopher-fleece/runtime"

` + decls + `

// @Route(/c)
type Ctl struct {
	runtime.GleeceController
}

// @Method(POST)
// @Route(/op)
// @Body(b)
func (c *Ctl) Op(b B) (` + use + `, error) {
	panic("unused")
}
`
	fr, err := visitors.VhLoadSource(src, nil)
	symxAssert(err == nil, "C07.front.fixture-loads")
	if err != nil {
		return
	}
	meta, err := pipeline.VhNewPipeline(fr, vhFrontConfig()).Run()
	if err != nil {
		symxCover("C07.front.graphs.refused")
		symxRecord("refused", "yes")
		return
	}
	// what the 3.0 generator returns with the real validator in the loop: either an error (the command fails and
	// writes nothing) or a document in which every reference resolves
	symxRealLibrary("openapi3.Validate")
	cfg := &definitions.OpenAPIGeneratorConfig{OpenAPI: "3.0.0", BaseURL: "https://x", Info: definitions.OpenAPIInfo{Title: "t", Version: "1"}}
	out, err := swagen30.GenerateSpec(cfg, meta.Flat, &meta.Models)
	if err != nil {
		symxCover("C07.front.graphs.refused-by-the-validator")
		return
	}
	symxCover("C07.front.graphs.accepted")
	var doc map[string]any
	symxAssert(json.Unmarshal(out, &doc) == nil, "C07.front.graphs.document-parses")
	var refs []string
	vhCollectRefs(doc, &refs)
	comps, _ := doc["components"].(map[string]any)
	schemas, _ := comps["schemas"].(map[string]any)
	symxRecord("components", strings.Join(vhSortedAnyKeys(schemas), ","))
	_, hasA := schemas["A"]
	_, hasB := schemas["B"]
	symxAssert(hasA && hasB, "C07.front.graphs.reachable-structs-have-components")
	const pre = "#/components/schemas/"
	for _, r := range refs {
		ok := strings.HasPrefix(r, pre)
		if ok {
			_, ok = schemas[strings.TrimPrefix(r, pre)]
		}
		symxAssert(ok, "C07.front.graphs.every-reference-resolves")
	}
	// and the 3.1 components agree with the 3.0 ones
	doc30, doc31 := vhNewDoc30(), vhNewDoc31()
	symxAssert(swagen30.GenerateModelsSpec(doc30, &meta.Models) == nil && swagen31.GenerateModelsSpec(doc31, &meta.Models) == nil, "C07.front.graphs.models-no-error")
	for _, n := range vhSortedAnyKeys(schemas) {
		p31, ok := doc31.Components.Schemas.Get(n)
		if n == definitions.Rfc7807ErrorName {
			continue
		}
		symxAssert(ok, "C07.front.graphs.same-components-in-both-documents")
		if ok {
			symxAssert(vhSameView(vhView30(doc30.Components.Schemas[n]), vhView31(p31)), "C07.front.graphs.component-agrees-in-both-documents")
		}
	}
}

// C18 through the front end: a method that (wrongly) carries two @Route annotations with different URL parameters -
// whatever route the linker goes by, a diagnostic about a URL parameter covers that parameter's own {name} text
func vh_C18_front_two_routes_Q() {
	first := []string{"/a/{id}", "/a/{id}/{more}", "/a"}[symxChoice("first", 3)]
	second := []string{"/b/{name}", "/b/{id}", "/b"}[symxChoice("second", 3)]
	src := `package ctl

import "github.com/gopher-fleece/runtime"

// @Tag(T)
// @Route(/c)
type Ctl struct {
	runtime.GleeceController
}

// @Method(GET)
// @Route(` + first + `)
// @Route(` + second + `)
func (c *Ctl) Op() error { return nil }
`
	fr, err := visitors.VhLoadSource(src, nil)
	symxAssert(err == nil, "C18.front.fixture-loads")
	if err != nil {
		return
	}
	p := pipeline.VhNewPipeline(fr, vhFrontConfig())
	if p.GenerateGraph() != nil {
		return
	}
	tree, err := p.Validate()
	symxAssert(err == nil, "C18.front.validation-runs")
	if err != nil {
		return
	}
	lines := strings.Split(src, "\n")
	symxCover("C18.front.two-routes.validated")
	for _, d := range vhFlattenDiags(tree) {
		if diagnostics.DiagnosticCode(d.Code) != diagnostics.DiagLinkerRouteMissingPath {
			continue
		}
		symxCover("C18.front.two-routes.url-parameter-diagnostic")
		r := d.Range
		inside := r.StartLine >= 0 && r.EndLine < len(lines) && r.StartLine == r.EndLine && r.StartCol >= 0 && r.StartCol <= r.EndCol && r.EndCol <= len([]rune(lines[r.EndLine]))
		symxAssert(inside, "C18.front.range-lies-inside-the-file")
		if !inside {
			continue
		}
		covered := string([]rune(lines[r.StartLine])[r.StartCol:r.EndCol])
		ok := len(covered) > 2 && covered[0] == '{' && covered[len(covered)-1] == '}' && strings.Contains(d.Message, "'"+covered[1:len(covered)-1]+"'")
		symxAssert(ok, "C18.front.url-parameter-diagnostic-covers-the-parameter-it-names")
	}
}

// C01 through the front end with a symbolic route text: the bytes of the method's @Route value are symbolic from the
// comment on (annotation regexp, reduction, path normalisation and both emitters run on them); the operation is
// documented at the normalised prefix + route
func vh_C01_front_symbolic_route_Q() {
	seg := symxString("seg", 1, 3, "ab/")
	route := "/" + seg
	src := `package ctl

import "github.com/gopher-fleece/runtime"

// @Route(/c/)
type Ctl struct {
	runtime.GleeceController
}

// @Method(GET)
// @Route(/PLACEHOLDER)
func (c *Ctl) Op() error { return nil }
`
	fr, err := visitors.VhLoadSource(src, func(f *ast.File) {
		vhPatchDoc(f, "Op", "// @Route(", "// @Route("+route+")")
	})
	symxAssert(err == nil, "C01.front.fixture-loads")
	if err != nil {
		return
	}
	meta, err := pipeline.VhNewPipeline(fr, vhFrontConfig()).Run()
	symxAssert(err == nil, "C01.front.project-is-accepted")
	if err != nil {
		return
	}
	doc30, doc31 := vhNewDoc30(), vhNewDoc31()
	cfg := &definitions.OpenAPIGeneratorConfig{}
	symxAssert(swagen30.GenerateControllersSpec(doc30, cfg, meta.Flat) == nil && swagen31.GenerateControllersSpec(doc31, cfg, meta.Flat) == nil, "C01.front.documents-no-error")
	want := vhRefNorm("/c/" + route)
	symxCover("C01.front.symbolic-route-documented")
	for vi, ops := range [][]vhOpView{vhOps30(doc30), vhOps31(doc31)} {
		ver := []string{"30", "31"}[vi]
		symxAssert(len(ops) == 1, "C01.front."+ver+".exactly-one-operation")
		if len(ops) == 1 {
			symxAssert(ops[0].path == want && ops[0].verb == "GET" && ops[0].opId == "Op", "C01.front."+ver+".documented-at-the-normalised-path")
		}
	}
}
