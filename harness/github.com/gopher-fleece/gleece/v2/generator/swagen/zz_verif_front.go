package swagen

// Front-end harnesses: Go source text -> go/parser + go/types -> the real visitors -> validation -> reduction
// (GleecePipeline.Run) -> both emitters. See core/visitors/zz_verif_front.go for the loader.

import (
	"go/ast"
	"strings"

	"github.com/gopher-fleece/gleece/v2/core/pipeline"
	"github.com/gopher-fleece/gleece/v2/core/visitors"
	"github.com/gopher-fleece/gleece/v2/definitions"
	"github.com/gopher-fleece/gleece/v2/generator/swagen/swagen30"
	"github.com/gopher-fleece/gleece/v2/generator/swagen/swagen31"
)

const vhFrontDiscoverySrc = `package ctl

import "github.com/gopher-fleece/runtime"

// @Tag(Alpha)
// @Route(/a)
type Alpha struct {
	runtime.GleeceController
}

// @Route(/b)
type Beta struct {
	runtime.GleeceController
}

type Plain struct{ N int }

// M0 does something
// @Method(GET)
// @Route(/m0)
// @Hidden
func (c *Alpha) M0() error { return nil }

// @Method(POST)
// @Route(/m1)
// @Hidden
func (c Alpha) M1() error { return nil }

// @Method(GET)
// @Route(/m2)
// @Hidden
func (*Alpha) M2() error { return nil }

// @Method(DELETE)
// @Route(/m3)
// @Hidden
func (c *Beta) M3() error { return nil }

// @Method(GET)
// @Route(/p)
func (p *Plain) P() error { return nil }

// @Method(GET)
// @Route(/f)
func Free() error { return nil }
`

// vhPatchDoc rewrites the doc comment lines of function name: line prefix -> replacement
func vhPatchDoc(f *ast.File, name string, prefix, replacement string) {
	for _, d := range f.Decls {
		fd, ok := d.(*ast.FuncDecl)
		if !ok || fd.Name.Name != name || fd.Doc == nil {
			continue
		}
		for _, c := range fd.Doc.List {
			if strings.HasPrefix(c.Text, prefix) {
				c.Text = replacement
			}
		}
	}
}

func vhFrontConfig() *definitions.GleeceConfig {
	cfg := &definitions.GleeceConfig{}
	cfg.OpenAPIGeneratorConfig.Info = definitions.OpenAPIInfo{Title: "t", Version: "1"}
	cfg.OpenAPIGeneratorConfig.BaseURL = "https://x"
	return cfg
}

// C01 through the front end: the documented operations are exactly the annotated, non-hidden methods of the structs
// that embed GleeceController - whatever the receiver spelling - at the controller's prefix + the method's route
func vh_C01_front_discovery_Q() {
	methods := []string{"M0", "M1", "M2", "M3"}
	verbs := []string{"GET", "POST", "GET", "DELETE"}
	paths := []string{"/a/m0", "/a/m1", "/a/m2", "/b/m3"}
	annotated := make([]bool, 4)
	hidden := make([]bool, 4)
	for k := range methods {
		annotated[k] = symxBool("annotated" + vhD(k))
		hidden[k] = symxBool("hidden" + vhD(k))
	}
	betaIsController := symxBool("betaEmbeds")
	fr, err := visitors.VhLoadSource(vhFrontDiscoverySrc, func(f *ast.File) {
		for k, m := range methods {
			if !annotated[k] {
				vhPatchDoc(f, m, "// @Method(", "// no verb here")
				vhPatchDoc(f, m, "// @Route(", "// no route either")
			}
			if !hidden[k] {
				vhPatchDoc(f, m, "// @Hidden", "// visible")
			}
		}
		if !betaIsController {
			for _, d := range f.Decls {
				if gd, ok := d.(*ast.GenDecl); ok {
					for _, sp := range gd.Specs {
						if ts, ok := sp.(*ast.TypeSpec); ok && ts.Name.Name == "Beta" {
							ts.Type.(*ast.StructType).Fields.List = nil
						}
					}
				}
			}
		}
	})
	symxAssert(err == nil, "C01.front.fixture-loads")
	if err != nil {
		return
	}
	p := pipeline.VhNewPipeline(fr, vhFrontConfig())
	meta, err := p.Run()
	symxAssert(err == nil, "C01.front.project-is-accepted")
	if err != nil {
		return
	}
	doc30, doc31 := vhNewDoc30(), vhNewDoc31()
	cfg := &definitions.OpenAPIGeneratorConfig{}
	symxAssert(swagen30.GenerateControllersSpec(doc30, cfg, meta.Flat) == nil, "C01.front.30-no-error")
	symxAssert(swagen31.GenerateControllersSpec(doc31, cfg, meta.Flat) == nil, "C01.front.31-no-error")
	symxCover("C01.front.documents-built")
	for vi, ops := range [][]vhOpView{vhOps30(doc30), vhOps31(doc31)} {
		ver := []string{"30", "31"}[vi]
		want := 0
		for _, o := range ops {
			symxRecord("op"+ver, o.verb, o.path, o.opId)
		}
		for k, m := range methods {
			expect := annotated[k] && !hidden[k] && (k != 3 || betaIsController)
			op := vhFindOp(ops, paths[k], verbs[k])
			if expect {
				want++
				symxAssert(op != nil && op.opId == m, "C01.front."+ver+".annotated-method-of-a-controller-is-documented")
			} else {
				symxAssert(op == nil, "C01.front."+ver+".other-methods-are-not-documented")
			}
		}
		symxAssert(len(ops) == want, "C01.front."+ver+".nothing-else-is-documented")
	}
}
