package routes

// what harnesses of other packages need from the rendering side

import (
	"os"
	"path/filepath"

	"github.com/gopher-fleece/gleece/v2/core/pipeline"
	"github.com/gopher-fleece/gleece/v2/definitions"
)

// VhRoutesConfig fills the routes half of cfg for engine number engine (0..4: gin, echo, mux, fiber, chi)
func VhRoutesConfig(cfg *definitions.GleeceConfig, engine int) {
	cfg.RoutesConfig.Engine = vhC09Engines[engine]
	cfg.RoutesConfig.OutputPath = filepath.Join(vhC09OutDir(), "out", "routes.go")
	cfg.RoutesConfig.SkipGenerateDateComment = true
	cfg.RoutesConfig.AuthorizationConfig.AuthFileFullPackageName = "example.com/auth"
}

// VhRenderRoutes runs the real GenerateRoutes on meta and returns the bytes it wrote
func VhRenderRoutes(cfg *definitions.GleeceConfig, meta pipeline.GleeceFlattenedMetadata) (string, bool) {
	symxRealLibrary("raymond")
	symxRealLibrary("no-faults")
	if !symxIsSymbolic() {
		os.RemoveAll(filepath.Dir(cfg.RoutesConfig.OutputPath))
	}
	if err := GenerateRoutes(cfg, meta); err != nil {
		return "", false
	}
	return vhC09Written(cfg.RoutesConfig.OutputPath)
}

// VhHandlerSecurity reads, per controller method, the alternatives the rendered handler hands to authorize
// ("scheme[scope,scope]&scheme[...] | ...") and whether the call precedes the controller's construction
func VhHandlerSecurity(text string) (map[string]string, bool) {
	hs, ok := vhC03Handlers(text)
	if !ok {
		return nil, false
	}
	out := map[string]string{}
	for m, h := range hs {
		if !h.ordered {
			return nil, false
		}
		out[m] = h.alternatives
	}
	return out, true
}
