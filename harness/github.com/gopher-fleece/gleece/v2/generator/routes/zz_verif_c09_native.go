package routes

// Native half of C09: type-check the generated routes file together with the project it was generated for, against
// the real routing engine, validator and gleece runtime packages (export data via go/packages; this needs the go
// command and the module cache, so it only ever runs in the native replay, never in the engine).

import (
	"go/ast"
	"go/parser"
	"go/token"
	"go/types"
	"strconv"
	"strings"

	"github.com/gopher-fleece/gleece/v2/core/visitors"
	"github.com/gopher-fleece/gleece/v2/definitions"
	"golang.org/x/tools/go/packages"
)

var vhC09Real = map[string]*types.Package{}

// the real packages any generated file may import (extended on demand, which reloads all of them together)
var vhC09Wanted = map[string]bool{
	"github.com/gin-gonic/gin": true, "github.com/labstack/echo/v4": true, "github.com/gorilla/mux": true,
	"github.com/gofiber/fiber/v2": true, "github.com/go-chi/chi/v5": true,
	"github.com/go-playground/validator/v10": true, "github.com/gopher-fleece/runtime": true,
	"context": true, "encoding/json": true, "fmt": true, "io": true, "net/http": true, "net/textproto": true,
	"reflect": true, "regexp": true, "strconv": true, "strings": true,
}

var vhC09AuthSrc = map[definitions.RoutingEngineType]string{
	definitions.RoutingEngineGin:   "package auth\n\nimport (\n\t\"context\"\n\t\"github.com/gin-gonic/gin\"\n\t\"github.com/gopher-fleece/runtime\"\n)\n\nfunc GleeceRequestAuthorization(ctx context.Context, c *gin.Context, check runtime.SecurityCheck) (context.Context, *runtime.SecurityError) {\n\treturn ctx, nil\n}\n",
	definitions.RoutingEngineEcho:  "package auth\n\nimport (\n\t\"context\"\n\t\"github.com/labstack/echo/v4\"\n\t\"github.com/gopher-fleece/runtime\"\n)\n\nfunc GleeceRequestAuthorization(ctx context.Context, c echo.Context, check runtime.SecurityCheck) (context.Context, *runtime.SecurityError) {\n\treturn ctx, nil\n}\n",
	definitions.RoutingEngineMux:   "package auth\n\nimport (\n\t\"context\"\n\t\"net/http\"\n\t\"github.com/gopher-fleece/runtime\"\n)\n\nfunc GleeceRequestAuthorization(ctx context.Context, r *http.Request, check runtime.SecurityCheck) (context.Context, *runtime.SecurityError) {\n\treturn ctx, nil\n}\n",
	definitions.RoutingEngineFiber: "package auth\n\nimport (\n\t\"context\"\n\t\"github.com/gofiber/fiber/v2\"\n\t\"github.com/gopher-fleece/runtime\"\n)\n\nfunc GleeceRequestAuthorization(ctx context.Context, c *fiber.Ctx, check runtime.SecurityCheck) (context.Context, *runtime.SecurityError) {\n\treturn ctx, nil\n}\n",
	definitions.RoutingEngineChi:   "package auth\n\nimport (\n\t\"context\"\n\t\"net/http\"\n\t\"github.com/gopher-fleece/runtime\"\n)\n\nfunc GleeceRequestAuthorization(ctx context.Context, r *http.Request, check runtime.SecurityCheck) (context.Context, *runtime.SecurityError) {\n\treturn ctx, nil\n}\n",
}

type vhC09Importer struct{ local map[string]*types.Package }

func (im vhC09Importer) Import(path string) (*types.Package, error) {
	if p, ok := im.local[path]; ok {
		return p, nil
	}
	if p, ok := vhC09Real[path]; ok {
		return p, nil
	}
	return nil, &vhC09Missing{path}
}

type vhC09Missing struct{ path string }

func (m *vhC09Missing) Error() string { return "package not loaded: " + m.path }

// vhC09TypeCheck returns "" when the routes text type-checks, else the first error.
func vhC09TypeCheck(ctlSrc, routesText string, cfg *definitions.GleeceConfig) string {
	fset := token.NewFileSet()
	parse := func(name, src string) *ast.File {
		f, err := parser.ParseFile(fset, name, src, 0)
		if err != nil {
			return nil
		}
		return f
	}
	files := []struct {
		path string
		file *ast.File
	}{
		{"example.com/other", parse("other.go", visitors.VhDepSource("example.com/other"))},
		{"example.com/ctl", parse("ctl.go", ctlSrc)},
		{"example.com/auth", parse("auth.go", vhC09AuthSrc[cfg.RoutesConfig.Engine])},
		{"example.com/out", parse("routes.go", routesText)},
	}
	// real packages: everything imported that is not part of the fixture project. All of them come from ONE load, so
	// that they share their dependencies' type identities (a second load would bring a second context.Context).
	missing := false
	for _, f := range files {
		if f.file == nil {
			return "does not parse: " + f.path
		}
		for _, im := range f.file.Imports {
			p, _ := strconv.Unquote(im.Path.Value)
			if !strings.HasPrefix(p, "example.com/") {
				if !vhC09Wanted[p] {
					vhC09Wanted[p] = true
					missing = true
				}
			}
		}
	}
	if missing || len(vhC09Real) == 0 {
		var need []string
		for p := range vhC09Wanted {
			need = append(need, p)
		}
		pkgs, err := packages.Load(&packages.Config{Mode: packages.NeedName | packages.NeedTypes | packages.NeedImports | packages.NeedDeps}, need...)
		if err != nil {
			return "loading real packages: " + err.Error()
		}
		vhC09Real = map[string]*types.Package{}
		packages.Visit(pkgs, nil, func(p *packages.Package) {
			if p.Types != nil && p.Types.Complete() {
				vhC09Real[p.PkgPath] = p.Types
			}
		})
	}
	im := vhC09Importer{local: map[string]*types.Package{}}
	for _, f := range files {
		var first error
		conf := types.Config{Importer: im, Error: func(err error) {
			if first == nil {
				first = err
			}
		}}
		pkg, _ := conf.Check(f.path, fset, []*ast.File{f.file}, nil)
		if first != nil {
			return f.path + ": " + first.Error()
		}
		im.local[f.path] = pkg
	}
	return ""
}
