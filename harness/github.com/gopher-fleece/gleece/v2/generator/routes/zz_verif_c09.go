package routes

// C09: whenever route generation succeeds the routes file is compilable Go.
//
// The whole generator runs in the engine: the controller source below is parsed and type-checked (go/parser, go/types
// interpreted), analysed by the real pipeline, and handed to the real GenerateRoutes - embedded handlebars templates,
// the raymond lexer/parser/evaluator (reflection-driven), the template helpers, OptimizeImportsAndFormat. The symbolic
// inputs are the shape of the project (parameter and result types, where they live, which packages they come from),
// the routing engine and the generation flags; each path renders one concrete file. What is asserted on every path:
// the file parses, is in the configured package, imports are aliased by distinct valid identifiers that are all used,
// nothing is referenced that is not declared or imported, and gofmt has nothing to change but blank lines. Natively
// (replay) the same file is in addition type-checked against the real engine, validator and runtime packages and the
// project's own packages.

import (
	"go/ast"
	"go/format"
	"go/parser"
	"go/token"
	"os"
	"path/filepath"
	"sort"
	"strconv"
	"strings"

	"github.com/gopher-fleece/gleece/v2/core/pipeline"
	"github.com/gopher-fleece/gleece/v2/core/visitors"
	"github.com/gopher-fleece/gleece/v2/definitions"
	"github.com/iancoleman/strcase"
)

const vhC09Head = `package ctl

import (
	"context"

	"example.com/other"
	"github.com/gopher-fleece/runtime"
)

var _ context.Context

type Model struct {
	X string ` + "`json:\"x\" validate:\"required\"`" + `
	K Kind   ` + "`json:\"k\"`" + `
}

type Kind string

const (
	KindA Kind = "a"
	KindB Kind = "b"
)

type Level int

const (
	LevelLow  Level = 1
	LevelHigh Level = 2
)

type MyErr struct {
	error
	Code int
}

var _ = other.KindA

// @Route(/c)
type Ctl struct {
	runtime.GleeceController
}

`

var vhC09Engines = []definitions.RoutingEngineType{
	definitions.RoutingEngineGin, definitions.RoutingEngineEcho, definitions.RoutingEngineMux,
	definitions.RoutingEngineFiber, definitions.RoutingEngineChi,
}

var vhC09EnginePkg = []string{
	"github.com/gin-gonic/gin", "github.com/labstack/echo/v4", "github.com/gorilla/mux",
	"github.com/gofiber/fiber/v2", "github.com/go-chi/chi/v5",
}

// parameter types a route may take outside the body
var vhC09ParamTypes = []string{"string", "int", "bool", "float64", "int64", "uint32", "Kind", "other.Kind", "Level", "*int", "*string", "*Kind", "[]string", "[]int", "[]Kind", "*bool", "float32"}

// body types
var vhC09BodyTypes = []string{"Model", "*Model", "other.Ext", "*other.Ext", "[]Model", "[]other.Ext", "string", "[]string", "map[string]Model", "Kind", "[][]Model", "[]*Model", "other.Kind", "int"}

// result shapes: declaration and the matching return statement
var vhC09Results = [][2]string{
	{"error", "nil"},
	{"(Model, error)", "Model{}, nil"},
	{"(*Model, error)", "nil, nil"},
	{"(other.Ext, error)", "other.Ext{}, nil"},
	{"([]Model, error)", "nil, nil"},
	{"([]other.Ext, error)", "nil, nil"},
	{"(string, error)", `"", nil`},
	{"(Kind, error)", "KindA, nil"},
	{"(map[string]other.Ext, error)", "nil, nil"},
	{"(Model, MyErr)", "Model{}, MyErr{}"},
	{"([]*Model, error)", "nil, nil"},
	{"(int, error)", "0, nil"},
	{"(other.Kind, error)", "other.KindA, nil"},
	{"([][]Model, error)", "nil, nil"},
	{"([][]other.Ext, error)", "nil, nil"},
	{"(*other.Ext, error)", "nil, nil"},
	{"(*Model, MyErr)", "nil, MyErr{}"},
	{"(Model, *MyErr)", "Model{}, nil"},
	{"MyErr", "MyErr{}"},
	{"*MyErr", "nil"},
}

type vhC09Param struct {
	name, loc, typ string
	alias          string // the name in the schema (annotation option `name`), when not empty
	validate       string // annotation option `validate`, when not empty
}

type vhC09Route struct {
	ctl              string // receiver type, "Ctl" when empty
	name, verb, path string
	params           []vhC09Param
	result           int
	security         bool
	hidden           bool
	doc              []string // further annotation lines, verbatim
}

func vhC09Source(routes []vhC09Route) string {
	var sb strings.Builder
	sb.WriteString(vhC09Head)
	second := false
	for _, r := range routes {
		if r.ctl == "Second" && !second {
			second = true
			sb.WriteString("// @Route(/second)\n// @Tag(Second)\ntype Second struct {\n\truntime.GleeceController\n}\n\n")
		}
	}
	for _, r := range routes {
		sb.WriteString("// @Method(" + r.verb + ")\n// @Route(" + r.path + ")\n")
		for _, p := range r.params {
			if p.loc != "" { // a context.Context parameter is not annotated
				var opts []string
				if p.alias != "" {
					opts = append(opts, "name: "+strconv.Quote(p.alias))
				}
				if p.validate != "" {
					opts = append(opts, "validate: "+strconv.Quote(p.validate))
				}
				if len(opts) > 0 {
					sb.WriteString("// @" + p.loc + "(" + p.name + ", { " + strings.Join(opts, ", ") + " })\n")
				} else {
					sb.WriteString("// @" + p.loc + "(" + p.name + ")\n")
				}
			}
		}
		if r.hidden {
			sb.WriteString("// @Hidden\n")
		}
		for _, l := range r.doc {
			sb.WriteString(l + "\n")
		}
		if r.security {
			sb.WriteString("// @Security(sec, { scopes: [\"read\"] })\n")
		}
		ctl := r.ctl
		if ctl == "" {
			ctl = "Ctl"
		}
		sb.WriteString("func (c *" + ctl + ") " + r.name + "(")
		for k, p := range r.params {
			if k > 0 {
				sb.WriteString(", ")
			}
			sb.WriteString(p.name + " " + p.typ)
		}
		sb.WriteString(") " + vhC09Results[r.result][0] + " {\n\treturn " + vhC09Results[r.result][1] + "\n}\n\n")
	}
	return sb.String()
}

func vhC09OutDir() string { return filepath.Join(os.TempDir(), "gosym-vh-c09") }

func vhC09Config(engine int, pkgName string) *definitions.GleeceConfig {
	cfg := &definitions.GleeceConfig{}
	cfg.OpenAPIGeneratorConfig.Info = definitions.OpenAPIInfo{Title: "t", Version: "1"}
	cfg.OpenAPIGeneratorConfig.BaseURL = "https://x"
	cfg.OpenAPIGeneratorConfig.DefaultRouteSecurity = nil
	cfg.RoutesConfig.Engine = vhC09Engines[engine]
	cfg.RoutesConfig.PackageName = pkgName
	cfg.RoutesConfig.OutputPath = filepath.Join(vhC09OutDir(), "out", "routes.go")
	cfg.RoutesConfig.SkipGenerateDateComment = true
	cfg.RoutesConfig.AuthorizationConfig.AuthFileFullPackageName = "example.com/auth"
	return cfg
}

// vhC09Written returns what is at path after generation: natively the file, in the engine the bytes the file-system
// stand-in was handed by os.WriteFile.
func vhC09Written(path string) (string, bool) {
	if !symxIsSymbolic() {
		b, err := os.ReadFile(path)
		return string(b), err == nil
	}
	prefix := "os.WriteFile:" + path + ":"
	out, ok := "", false
	for _, e := range symxEnvLog() {
		if strings.HasPrefix(e, prefix) {
			out, ok = e[len(prefix):], true
		}
	}
	return out, ok
}

// vhC09Canon: the non-blank lines of a file, the lines of its import block in sorted order. gleece formats the
// rendered text (imports.Process, format.Source) and then removes the blank lines; that merges import groups gofmt
// had sorted separately, so the written file equals gofmt's output only up to blank lines and import order.
func vhC09Canon(s string) string {
	lines := strings.Split(s, "\n")
	var out []string
	inImports, from := false, 0
	for _, l := range lines {
		if strings.TrimSpace(l) == "" {
			continue
		}
		if inImports && l == ")" {
			inImports = false
			sort.Strings(out[from:])
		}
		out = append(out, l)
		if l == "import (" {
			inImports, from = true, len(out)
		}
	}
	return strings.Join(out, "\n")
}

// vhC09CheckFile: the syntactic half of the property, on the written text
func vhC09CheckFile(text string, wantPkg string, enginePkg string) *ast.File {
	fset := token.NewFileSet()
	f, err := parser.ParseFile(fset, "routes.go", text, parser.ParseComments)
	symxAssert(err == nil, "C09.file-is-syntactically-valid-go")
	if err != nil {
		return nil
	}
	symxAssert(f.Name.Name == wantPkg, "C09.file-is-in-the-configured-package")
	// imports: every alias a valid identifier, no two imports under one name, every import used
	names := map[string]bool{}
	used := map[string]bool{}
	ast.Inspect(f, func(n ast.Node) bool {
		if se, ok := n.(*ast.SelectorExpr); ok {
			if id, ok := se.X.(*ast.Ident); ok && id.Obj == nil {
				used[id.Name] = true
			}
		}
		return true
	})
	hasEngine := false
	for _, im := range f.Imports {
		p, _ := strconv.Unquote(im.Path.Value)
		if p == enginePkg {
			hasEngine = true
		}
		name := ""
		if im.Name != nil {
			name = im.Name.Name
			symxAssert(token.IsIdentifier(name), "C09.import-alias-is-a-valid-identifier")
		} else {
			name = p[strings.LastIndex(p, "/")+1:]
			if len(name) >= 2 && name[0] == 'v' && name[1] >= '0' && name[1] <= '9' {
				// major-version suffix: the package is named by the element before it
				rest := p[:strings.LastIndex(p, "/")]
				name = rest[strings.LastIndex(rest, "/")+1:]
			}
		}
		symxAssert(!names[name], "C09.import-names-are-unique")
		names[name] = true
		symxAssert(used[name], "C09.every-import-is-used")
	}
	symxAssert(hasEngine, "C09.file-imports-the-configured-engine")
	// nothing is referenced through a package name that is not imported
	for _, id := range f.Unresolved {
		if used[id.Name] && !names[id.Name] {
			// a selector base that is neither declared in the file nor imported: only universe-scope names would do,
			// and none of those has fields or methods that generated code selects
			symxAssert(false, "C09.every-package-reference-is-imported")
		}
	}
	return f
}

// vhC09CheckFormat: the text is what gofmt produces, except that gleece removes blank lines after formatting. The
// strict form is a recorded finding and fails on every file, so this is the last thing a harness asks.
func vhC09CheckFormat(text string) {
	formatted, ferr := format.Source([]byte(text))
	symxAssert(ferr == nil, "C09.gofmt-accepts-the-file")
	if ferr == nil {
		same := vhC09Canon(string(formatted)) == vhC09Canon(text)
		symxAssert(same, "C09.file-is-gofmt-output-up-to-blank-lines-and-import-order")
		symxKnownFor("C09-blank-lines-collapsed-after-gofmt", "C09.file-is-gofmt-formatted", same)
		symxAssert(string(formatted) == text, "C09.file-is-gofmt-formatted")
	}
}

// vhC09Generate runs front end + pipeline + GenerateRoutes and returns the written text ("" and false when the
// project or the generation was refused).
type vhC09Run struct {
	src  string
	cfg  *definitions.GleeceConfig
	text string
}

func vhC09Generate(routes []vhC09Route, cfg *definitions.GleeceConfig) (*vhC09Run, bool) {
	return vhC09GenerateSrc(vhC09Source(routes), cfg)
}

func vhC09GenerateSrc(src string, cfg *definitions.GleeceConfig) (*vhC09Run, bool) {
	symxRealLibrary("raymond")
	symxRealLibrary("no-faults")
	fr, err := visitors.VhLoadSource(src, nil)
	symxAssert(err == nil, "C09.fixture-compiles")
	if err != nil {
		return nil, false
	}
	if !symxIsSymbolic() {
		os.RemoveAll(filepath.Dir(cfg.RoutesConfig.OutputPath))
	}
	meta, err := pipeline.VhNewPipeline(fr, cfg).Run()
	if err != nil {
		symxRecord("project-refused", true)
		symxCover("C09.project-refused")
		return nil, false
	}
	err = GenerateRoutes(cfg, meta)
	text, written := vhC09Written(cfg.RoutesConfig.OutputPath)
	if err != nil {
		symxRecord("generation-refused", true)
		symxAssert(!written, "C09.no-file-when-generation-fails")
		return nil, false
	}
	symxAssert(written, "C09.file-written-when-generation-succeeds")
	if !written {
		return nil, false
	}
	symxCover("C09.generated")
	symxRecord("bytes", len(text))
	symxRecord("text", text)
	return &vhC09Run{src: src, cfg: cfg, text: text}, true
}

// one route with one non-body parameter of every supported type in every location, for every engine (two harnesses,
// so that every path of either is replayed natively)
func vhC09OneParam(engine, pt, loc int) {
	locs := []string{"Query", "Header", "Path"}
	path := "/op"
	if loc == 2 {
		path = "/op/{p1}"
	}
	routes := []vhC09Route{{name: "Op", verb: "GET", path: path, params: []vhC09Param{{name: "p1", loc: locs[loc], typ: vhC09ParamTypes[pt]}}, result: 1}}
	run, ok := vhC09Generate(routes, vhC09Config(engine, ""))
	vhC09Finish(run, ok, "routes", engine, "Op")
}

func vh_C09_front_param_types_Q() {
	vhC09OneParam(symxChoice("engine", 5), symxChoice("ptype", len(vhC09ParamTypes)), symxChoice("loc", 2))
}

func vh_C09_front_path_param_types_Q() {
	vhC09OneParam(symxChoice("engine", 5), symxChoice("ptype", len(vhC09ParamTypes)), 2)
}

// vhC09Finish: everything the property says about a written file, in the order syntax - semantics - layout
func vhC09Finish(run *vhC09Run, ok bool, pkg string, engine int, calls ...string) {
	if !ok {
		return
	}
	text := run.text
	if vhC09CheckFile(text, pkg, vhC09EnginePkg[engine]) == nil {
		return
	}
	for _, c := range calls {
		symxAssert(strings.Contains(text, "controller."+c+"("), "C09.controller-method-is-called")
	}
	// the semantic half is decided against the real packages, which only the native run can load
	typed := true
	if !symxIsSymbolic() {
		why := vhC09TypeCheck(run.src, text, run.cfg)
		typed = why == ""
		if !typed {
			symxRecord("native-type-error", why)
		}
	}
	symxAssert(typed, "C09.native.file-type-checks-against-engine-controllers-and-auth")
	vhC09CheckFormat(text)
}

func vhC09Flag(name string) bool {
	// decided by a branch, so that the configuration holds a plain bool
	if symxBool(name) {
		return true
	}
	return false
}

func vhC09Bodies(engine, body int) {
	routes := []vhC09Route{{name: "Op", verb: "POST", path: "/op", params: []vhC09Param{{name: "payload", loc: "Body", typ: vhC09BodyTypes[body]}}, result: 0}}
	symxKnownFor("C09-map-typed-body-renders-invalid-go", "C09.file-is-syntactically-valid-go", strings.HasPrefix(vhC09BodyTypes[body], "map["))
	symxKnownFor("C09-slice-of-pointers-body-loses-the-pointer", "C09.native.file-type-checks-against-engine-controllers-and-auth", strings.HasPrefix(vhC09BodyTypes[body], "[]*"))
	run, ok := vhC09Generate(routes, vhC09Config(engine, ""))
	vhC09Finish(run, ok, "routes", engine, "Op")
}

// one route taking a body of every supported shape (local, imported, pointer, slice, map, primitive), per engine
func vh_C09_front_body_types_Q() {
	vhC09Bodies(symxChoice("engine", 5), symxChoice("body", len(vhC09BodyTypes)))
}

// one route returning every supported result shape, per engine, with response validation on or off
func vh_C09_front_result_types_Q() {
	engine := symxChoice("engine", 5)
	res := symxChoice("result", len(vhC09Results))
	cfg := vhC09Config(engine, "")
	cfg.RoutesConfig.ValidateResponsePayload = vhC09Flag("validateResponsePayload")
	routes := []vhC09Route{{name: "Op", verb: "GET", path: "/op", result: res}}
	symxKnownFor("C09-map-typed-result-renders-invalid-go", "C09.file-is-syntactically-valid-go", strings.HasPrefix(vhC09Results[res][0], "(map["))
	run, ok := vhC09Generate(routes, cfg)
	vhC09Finish(run, ok, "routes", engine, "Op")
}

// the generation flags, route security and the package name: an enum parameter, an enum-bearing model in and out
func vh_C09_front_flags_Q() {
	engine := symxChoice("engine", 5)
	cfg := vhC09Config(engine, []string{"", "my_routes"}[symxChoice("package", 2)])
	cfg.RoutesConfig.ValidateResponsePayload = vhC09Flag("validateResponsePayload")
	cfg.ExperimentalConfig.GenerateEnumValidator = vhC09Flag("generateEnumValidator")
	cfg.ExperimentalConfig.ValidateTopLevelOnlyEnum = vhC09Flag("validateTopLevelOnlyEnum")
	secured := vhC09Flag("secured")
	if secured {
		cfg.OpenAPIGeneratorConfig.SecuritySchemes = []definitions.SecuritySchemeConfig{{SecurityName: "sec", FieldName: "x-key", Type: "apiKey", In: "header"}}
	}
	routes := []vhC09Route{
		{name: "Op", verb: "POST", path: "/op/{k}", params: []vhC09Param{{name: "k", loc: "Path", typ: "Kind"}, {name: "lvl", loc: "Query", typ: "Level"}, {name: "o", loc: "Header", typ: "other.Kind"}, {name: "m", loc: "Body", typ: "Model"}}, result: 1, security: secured},
		{name: "List", verb: "GET", path: "/list", params: []vhC09Param{{name: "ks", loc: "Query", typ: "[]Kind"}}, result: 5},
	}
	want := "routes"
	if cfg.RoutesConfig.PackageName != "" {
		want = cfg.RoutesConfig.PackageName
	}
	run, ok := vhC09Generate(routes, cfg)
	vhC09Finish(run, ok, want, engine, "Op", "List")
}

// parameter names: whatever identifier the user chose - snake case, capitals, names the generated handler itself
// uses for its locals - two of them side by side, each in any location
var vhC09Names = []string{"p1", "a_b", "aB", "Value", "value", "err", "controller", "ID", "engine", "opError", "ctx", "x_y_z"}

func vhC09ParamNames(nNames int, engine, n1, n2, l1, l2 int) {
	locs := []string{"Query", "Header"}
	routes := []vhC09Route{{name: "Op", verb: "GET", path: "/op", params: []vhC09Param{{name: vhC09Names[n1], loc: locs[l1], typ: "string"}, {name: vhC09Names[n2], loc: locs[l2], typ: "*int"}}, result: 1}}
	// the handler declares <lowerCamel(name)>Raw / RawPtr per parameter: two names that differ only in what lower
	// camel case erases would meet in one local, so such a project has to be refused (it was not: 9.4, fixed)
	collide := strcase.ToLowerCamel(vhC09Names[n1]) == strcase.ToLowerCamel(vhC09Names[n2])
	run, ok := vhC09Generate(routes, vhC09Config(engine, ""))
	if collide {
		symxAssert(!ok, "C09.parameters-meeting-in-one-generated-local-are-refused")
		symxCover("C09.colliding-names")
		return
	}
	vhC09Finish(run, ok, "routes", engine, "Op")
}

func vh_C09_front_param_names_Q() {
	engine := symxChoice("engine", 5)
	n1, n2 := symxChoice("name1", 8), symxChoice("name2", 8)
	symxAssume(n1 < n2)
	vhC09ParamNames(8, engine, n1, n2, 0, 1)
}

func vh_C09_front_param_names_T() {
	engine := symxChoice("engine", 5)
	n1, n2 := symxChoice("name1", len(vhC09Names)), symxChoice("name2", len(vhC09Names))
	symxAssume(n1 < n2)
	vhC09ParamNames(len(vhC09Names), engine, n1, n2, symxChoice("loc1", 2), symxChoice("loc2", 2))
}

// several routes whose parameters and results come from two packages that share type names, and repeat across routes:
// every import alias stays distinct and used
func vhC09Aliases(engine, pa, pb, ra, rb int) {
	types := []string{"other.Ext", "Model", "*other.Ext", "[]other.Ext"}
	results := []int{3, 1, 5}
	routes := []vhC09Route{
		{name: "A", verb: "POST", path: "/a", params: []vhC09Param{{name: "data", loc: "Body", typ: types[pa]}, {name: "kind", loc: "Query", typ: "other.Kind"}}, result: results[ra]},
		{name: "B", verb: "PUT", path: "/b", params: []vhC09Param{{name: "data", loc: "Body", typ: types[pb]}, {name: "kind", loc: "Header", typ: "Kind"}}, result: results[rb]},
	}
	run, ok := vhC09Generate(routes, vhC09Config(engine, ""))
	vhC09Finish(run, ok, "routes", engine, "A", "B")
}

func vh_C09_front_import_aliases_Q() {
	engine := symxChoice("engine", 5)
	pa, pb := symxChoice("a", 4), symxChoice("b", 4)
	r := symxChoice("r", 2)
	vhC09Aliases(engine, pa, pb, r, 1-r)
}

func vh_C09_front_import_aliases_T() {
	vhC09Aliases(symxChoice("engine", 5), symxChoice("a", 4), symxChoice("b", 4), symxChoice("ra", 3), symxChoice("rb", 3))
}

// a context.Context parameter in any position (or none), beside a string and a converted parameter, with or without
// a body
func vh_C09_front_context_Q() {
	engine := symxChoice("engine", 5)
	pos := symxChoice("ctxAt", 4) // 0: none, 1: first, 2: between, 3: last
	body := vhC09Flag("body")
	converted := vhC09Flag("converted")
	second := vhC09Param{name: "p2", loc: "Header", typ: "string"}
	if converted {
		second.typ = "int"
	}
	params := []vhC09Param{{name: "p1", loc: "Query", typ: "string"}, second}
	if body {
		params = append(params, vhC09Param{name: "m", loc: "Body", typ: "Model"})
	}
	ctx := vhC09Param{name: "ctx", loc: "", typ: "context.Context"}
	switch pos {
	case 1:
		params = append([]vhC09Param{ctx}, params...)
	case 2:
		params = append([]vhC09Param{params[0], ctx}, params[1:]...)
	case 3:
		params = append(params, ctx)
	}
	routes := []vhC09Route{{name: "Op", verb: "POST", path: "/op", params: params, result: 1}}
	run, ok := vhC09Generate(routes, vhC09Config(engine, ""))
	vhC09Finish(run, ok, "routes", engine, "Op")
}

// thorough: body x result x engine, two converted parameters of different types beside them
func vh_C09_front_cross_T() {
	engine := symxChoice("engine", 5)
	body := symxChoice("body", len(vhC09BodyTypes))
	res := symxChoice("result", len(vhC09Results))
	pt := []int{1, 6, 7, 12}[symxChoice("ptype", 4)]                                                                                                                     // int, Kind, other.Kind, []string
	symxAssume(!strings.HasPrefix(vhC09BodyTypes[body], "map[") && !strings.HasPrefix(vhC09BodyTypes[body], "[]*") && !strings.HasPrefix(vhC09Results[res][0], "(map[")) // recorded findings, see the _Q harnesses
	cfg := vhC09Config(engine, "")
	cfg.RoutesConfig.ValidateResponsePayload = vhC09Flag("validateResponsePayload")
	routes := []vhC09Route{{name: "Op", verb: "POST", path: "/op", params: []vhC09Param{{name: "q", loc: "Query", typ: vhC09ParamTypes[pt]}, {name: "payload", loc: "Body", typ: vhC09BodyTypes[body]}}, result: res}}
	run, ok := vhC09Generate(routes, cfg)
	vhC09Finish(run, ok, "routes", engine, "Op")
}

// form fields of every convertible type, one or two of them, per engine
func vh_C09_front_form_types_Q() {
	engine := symxChoice("engine", 5)
	pt := symxChoice("ptype", len(vhC09ParamTypes))
	two := vhC09Flag("two")
	params := []vhC09Param{{name: "f1", loc: "FormField", typ: vhC09ParamTypes[pt]}}
	if two {
		params = append(params, vhC09Param{name: "f2", loc: "FormField", typ: "string"})
	}
	routes := []vhC09Route{{name: "Op", verb: "POST", path: "/op", params: params, result: 1}}
	run, ok := vhC09Generate(routes, vhC09Config(engine, ""))
	vhC09Finish(run, ok, "routes", engine, "Op")
}

// two controllers of one package, each with a route; the second route's shape varies
func vh_C09_front_two_controllers_Q() {
	engine := symxChoice("engine", 5)
	res := symxChoice("result", 6)
	body := symxChoice("body", 4)
	params := []vhC09Param{{name: "id", loc: "Path", typ: "string"}}
	if body > 0 {
		params = append(params, vhC09Param{name: "data", loc: "Body", typ: []string{"", "Model", "other.Ext", "[]Model"}[body]})
	}
	routes := []vhC09Route{
		{name: "Get", verb: "GET", path: "/get", params: []vhC09Param{{name: "q", loc: "Query", typ: "int"}}, result: 1},
		{ctl: "Second", name: "Put", verb: "PUT", path: "/put/{id}", params: params, result: res},
	}
	run, ok := vhC09Generate(routes, vhC09Config(engine, ""))
	vhC09Finish(run, ok, "routes", engine, "Get", "Put")
}

// the file system fails at any step (engine only): generation reports success iff the file was written in full
func vh_C09_front_faults_E_Q() {
	if !symxIsSymbolic() {
		return
	}
	engine := symxChoice("engine", 5)
	symxRealLibrary("raymond")
	routes := []vhC09Route{{name: "Op", verb: "GET", path: "/op", params: []vhC09Param{{name: "q", loc: "Query", typ: "int"}}, result: 1}}
	cfg := vhC09Config(engine, "")
	fr, err := visitors.VhLoadSource(vhC09Source(routes), nil)
	symxAssert(err == nil, "C09.fixture-compiles")
	if err != nil {
		return
	}
	meta, err := pipeline.VhNewPipeline(fr, cfg).Run()
	symxAssert(err == nil, "C09.faults.project-accepted")
	if err != nil {
		return
	}
	err = GenerateRoutes(cfg, meta)
	failed, wrote := false, false
	for _, e := range symxEnvLog() {
		if strings.HasPrefix(e, "stub:") && strings.HasSuffix(e, "=fail") {
			failed = true
		}
		if strings.HasPrefix(e, "os.WriteFile:"+cfg.RoutesConfig.OutputPath+":") {
			wrote = true
		}
	}
	symxAssert((err != nil) == failed, "C09.faults.error-iff-the-file-system-failed")
	if err == nil {
		symxAssert(wrote, "C09.faults.success-means-written")
		symxCover("C09.faults.written")
	} else {
		symxCover("C09.faults.refused")
	}
}

// names in the schema (the annotation's `name` option) are copied into string literals of the handler: whatever the
// annotation grammar lets through has to stay inside its literal
var vhC09SchemaNames = []string{"x-y", "x.y", "X_Y", "x y", "x[]", "x\"y", "x\\y", "x`y", "x{y}", "x%y", "é"}

func vh_C09_front_schema_names_Q() {
	engine := symxChoice("engine", 5)
	n := symxChoice("schemaName", len(vhC09SchemaNames))
	loc := symxChoice("loc", 2)
	routes := []vhC09Route{{name: "Op", verb: "GET", path: "/op", params: []vhC09Param{{name: "p1", loc: []string{"Query", "Header"}[loc], typ: "int", alias: vhC09SchemaNames[n]}}, result: 1}}
	run, ok := vhC09Generate(routes, vhC09Config(engine, ""))
	if strings.ContainsAny(vhC09SchemaNames[n], "\"\\") {
		// cannot be kept inside a string literal of the handler: has to be refused (it was not: 9.4, fixed)
		symxAssert(!ok, "C09.schema-names-that-escape-a-string-literal-are-refused")
		symxCover("C09.unwritable-schema-name")
		return
	}
	vhC09Finish(run, ok, "routes", engine, "Op")
}

// route texts are copied into string literals too
var vhC09RouteTexts = []string{"/a-b", "/a.b", "/a b", "/a\"b", "/a\\b", "/a`b", "/a%20b", "/é", "/a//b", "/a:b", "/*"}

func vh_C09_front_route_texts_Q() {
	engine := symxChoice("engine", 5)
	n := symxChoice("route", len(vhC09RouteTexts))
	routes := []vhC09Route{{name: "Op", verb: "GET", path: vhC09RouteTexts[n], result: 1}}
	run, ok := vhC09Generate(routes, vhC09Config(engine, ""))
	// a text the annotation grammar does not take leaves the method without a route (C01's subject): whether the
	// handler exists is not asked here, only that whatever is written compiles
	vhC09Finish(run, ok, "routes", engine)
}

// validation rules are copied into string literals of the handler as well
var vhC09Rules = []string{"required", "gt=1", "oneof=1 2", "oneof='1 2' 3", "required,lt=10", "excludesall=<>&", "ne=\"", "contains=\\"}

func vh_C09_front_validation_rules_Q() {
	engine := symxChoice("engine", 5)
	n := symxChoice("rule", len(vhC09Rules))
	loc := symxChoice("loc", 3)
	p := vhC09Param{name: "p1", loc: []string{"Query", "Header", "Body"}[loc], typ: "string", validate: vhC09Rules[n]}
	verb := "GET"
	if loc == 2 {
		p.typ, verb = "Model", "POST"
	}
	routes := []vhC09Route{{name: "Op", verb: verb, path: "/op", params: []vhC09Param{p}, result: 1}}
	run, ok := vhC09Generate(routes, vhC09Config(engine, ""))
	vhC09Finish(run, ok, "routes", engine, "Op")
}

// C05, seen from the rendering side: the validation rules a parameter declares are the rules its handler hands to
// the validator - character for character, whatever the rule contains (quotes, angle brackets, ampersands, backslashes)
func vh_C05_front_validation_rules_Q() {
	engine := symxChoice("engine", 5)
	n := symxChoice("rule", len(vhC09Rules))
	loc := symxChoice("loc", 3)
	p := vhC09Param{name: "p1", loc: []string{"Query", "Header", "Body"}[loc], typ: "string", validate: vhC09Rules[n]}
	verb := "GET"
	if loc == 2 {
		p.typ, verb = "Model", "POST"
	}
	routes := []vhC09Route{{name: "Op", verb: verb, path: "/op", params: []vhC09Param{p}, result: 1}}
	run, ok := vhC09Generate(routes, vhC09Config(engine, ""))
	if !ok {
		return
	}
	want := strconv.Quote(vhC09Rules[n])
	want = want[1 : len(want)-1] // the rule as it reads inside a Go string literal
	symxAssert(strings.Contains(run.text, want), "C05.front.declared-validation-rule-reaches-the-handler-verbatim")
	symxCover("C05.front.rule-in-handler")
}
