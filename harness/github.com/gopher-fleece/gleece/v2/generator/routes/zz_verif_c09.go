package routes

// C09: whenever route generation succeeds the routes file is compilable Go.
//
// The whole generator runs in the engine: the controller source below is parsed and type-checked (go/parser, go/types
// interpreted), analysed by the real pipeline, and handed to the real GenerateRoutes - embedded handlebars templates,
// the raymond lexer/parser/evaluator (reflection-driven), the template helpers, OptimizeImportsAndFormat. The symbolic
// inputs are the shape of the project (parameter and result types, where they live, which packages they come from),
// the routing engine and the generation flags; each path renders one concrete file. What is asserted on every path:
// the file parses, is in the configured package, imports are aliased by distinct valid identifiers that are all used,
// nothing is referenced that is not declared or imported, and gofmt has nothing to change but blank lines. Natively
// (replay) the same file is in addition type-checked against the real engine, validator and runtime packages and the
// project's own packages.

import (
	"go/ast"
	"go/format"
	"go/parser"
	"go/token"
	"os"
	"path/filepath"
	"sort"
	"strconv"
	"strings"

	"github.com/gopher-fleece/gleece/v2/core/pipeline"
	"github.com/gopher-fleece/gleece/v2/core/visitors"
	"github.com/gopher-fleece/gleece/v2/definitions"
)

const vhC09Head = `package ctl

import (
	"example.com/other"
	"github.com/gopher-fleece/runtime"
)

type Model struct {
	X string ` + "`json:\"x\" validate:\"required\"`" + `
	K Kind   ` + "`json:\"k\"`" + `
}

type Kind string

const (
	KindA Kind = "a"
	KindB Kind = "b"
)

type Level int

const (
	LevelLow  Level = 1
	LevelHigh Level = 2
)

type MyErr struct {
	error
	Code int
}

var _ = other.KindA

// @Route(/c)
type Ctl struct {
	runtime.GleeceController
}

`

var vhC09Engines = []definitions.RoutingEngineType{
	definitions.RoutingEngineGin, definitions.RoutingEngineEcho, definitions.RoutingEngineMux,
	definitions.RoutingEngineFiber, definitions.RoutingEngineChi,
}

var vhC09EnginePkg = []string{
	"github.com/gin-gonic/gin", "github.com/labstack/echo/v4", "github.com/gorilla/mux",
	"github.com/gofiber/fiber/v2", "github.com/go-chi/chi/v5",
}

// parameter types a route may take outside the body
var vhC09ParamTypes = []string{"string", "int", "bool", "float64", "int64", "uint32", "Kind", "other.Kind", "Level", "*int", "*string", "*Kind", "[]string", "[]int", "[]Kind", "*bool", "float32"}

// body types
var vhC09BodyTypes = []string{"Model", "*Model", "other.Ext", "*other.Ext", "[]Model", "[]other.Ext", "string", "[]string", "map[string]Model", "Kind"}

// result shapes: declaration and the matching return statement
var vhC09Results = [][2]string{
	{"error", "nil"},
	{"(Model, error)", "Model{}, nil"},
	{"(*Model, error)", "nil, nil"},
	{"(other.Ext, error)", "other.Ext{}, nil"},
	{"([]Model, error)", "nil, nil"},
	{"([]other.Ext, error)", "nil, nil"},
	{"(string, error)", `"", nil`},
	{"(Kind, error)", "KindA, nil"},
	{"(map[string]other.Ext, error)", "nil, nil"},
	{"(Model, MyErr)", "Model{}, MyErr{}"},
	{"([]*Model, error)", "nil, nil"},
	{"(int, error)", "0, nil"},
	{"(other.Kind, error)", "other.KindA, nil"},
}

type vhC09Param struct {
	name, loc, typ string
}

type vhC09Route struct {
	name, verb, path string
	params           []vhC09Param
	result           int
	security         bool
}

func vhC09Source(routes []vhC09Route) string {
	var sb strings.Builder
	sb.WriteString(vhC09Head)
	for _, r := range routes {
		sb.WriteString("// @Method(" + r.verb + ")\n// @Route(" + r.path + ")\n")
		for _, p := range r.params {
			sb.WriteString("// @" + p.loc + "(" + p.name + ")\n")
		}
		if r.security {
			sb.WriteString("// @Security(sec, { scopes: [\"read\"] })\n")
		}
		sb.WriteString("func (c *Ctl) " + r.name + "(")
		for k, p := range r.params {
			if k > 0 {
				sb.WriteString(", ")
			}
			sb.WriteString(p.name + " " + p.typ)
		}
		sb.WriteString(") " + vhC09Results[r.result][0] + " {\n\treturn " + vhC09Results[r.result][1] + "\n}\n\n")
	}
	return sb.String()
}

func vhC09OutDir() string { return filepath.Join(os.TempDir(), "gosym-vh-c09") }

func vhC09Config(engine int, pkgName string) *definitions.GleeceConfig {
	cfg := &definitions.GleeceConfig{}
	cfg.OpenAPIGeneratorConfig.Info = definitions.OpenAPIInfo{Title: "t", Version: "1"}
	cfg.OpenAPIGeneratorConfig.BaseURL = "https://x"
	cfg.OpenAPIGeneratorConfig.DefaultRouteSecurity = nil
	cfg.RoutesConfig.Engine = vhC09Engines[engine]
	cfg.RoutesConfig.PackageName = pkgName
	cfg.RoutesConfig.OutputPath = filepath.Join(vhC09OutDir(), "out", "routes.go")
	cfg.RoutesConfig.SkipGenerateDateComment = true
	cfg.RoutesConfig.AuthorizationConfig.AuthFileFullPackageName = "example.com/auth"
	return cfg
}

// vhC09Written returns what is at path after generation: natively the file, in the engine the bytes the file-system
// stand-in was handed by os.WriteFile.
func vhC09Written(path string) (string, bool) {
	if !symxIsSymbolic() {
		b, err := os.ReadFile(path)
		return string(b), err == nil
	}
	prefix := "os.WriteFile:" + path + ":"
	out, ok := "", false
	for _, e := range symxEnvLog() {
		if strings.HasPrefix(e, prefix) {
			out, ok = e[len(prefix):], true
		}
	}
	return out, ok
}

// vhC09Canon: the non-blank lines of a file, the lines of its import block in sorted order. gleece formats the
// rendered text (imports.Process, format.Source) and then removes the blank lines; that merges import groups gofmt
// had sorted separately, so the written file equals gofmt's output only up to blank lines and import order.
func vhC09Canon(s string) string {
	lines := strings.Split(s, "\n")
	var out []string
	inImports, from := false, 0
	for _, l := range lines {
		if strings.TrimSpace(l) == "" {
			continue
		}
		if inImports && l == ")" {
			inImports = false
			sort.Strings(out[from:])
		}
		out = append(out, l)
		if l == "import (" {
			inImports, from = true, len(out)
		}
	}
	return strings.Join(out, "\n")
}

// vhC09CheckFile: the syntactic half of the property, on the written text
func vhC09CheckFile(text string, wantPkg string, enginePkg string) *ast.File {
	fset := token.NewFileSet()
	f, err := parser.ParseFile(fset, "routes.go", text, parser.ParseComments)
	symxAssert(err == nil, "C09.file-is-syntactically-valid-go")
	if err != nil {
		return nil
	}
	symxAssert(f.Name.Name == wantPkg, "C09.file-is-in-the-configured-package")
	// imports: every alias a valid identifier, no two imports under one name, every import used
	names := map[string]bool{}
	used := map[string]bool{}
	ast.Inspect(f, func(n ast.Node) bool {
		if se, ok := n.(*ast.SelectorExpr); ok {
			if id, ok := se.X.(*ast.Ident); ok && id.Obj == nil {
				used[id.Name] = true
			}
		}
		return true
	})
	hasEngine := false
	for _, im := range f.Imports {
		p, _ := strconv.Unquote(im.Path.Value)
		if p == enginePkg {
			hasEngine = true
		}
		name := ""
		if im.Name != nil {
			name = im.Name.Name
			symxAssert(token.IsIdentifier(name), "C09.import-alias-is-a-valid-identifier")
		} else {
			name = p[strings.LastIndex(p, "/")+1:]
			if len(name) >= 2 && name[0] == 'v' && name[1] >= '0' && name[1] <= '9' {
				// major-version suffix: the package is named by the element before it
				rest := p[:strings.LastIndex(p, "/")]
				name = rest[strings.LastIndex(rest, "/")+1:]
			}
		}
		symxAssert(!names[name], "C09.import-names-are-unique")
		names[name] = true
		symxAssert(used[name], "C09.every-import-is-used")
	}
	symxAssert(hasEngine, "C09.file-imports-the-configured-engine")
	// nothing is referenced through a package name that is not imported
	for _, id := range f.Unresolved {
		if used[id.Name] && !names[id.Name] {
			// a selector base that is neither declared in the file nor imported: only universe-scope names would do,
			// and none of those has fields or methods that generated code selects
			symxAssert(false, "C09.every-package-reference-is-imported")
		}
	}
	return f
}

// vhC09CheckFormat: the text is what gofmt produces, except that gleece removes blank lines after formatting. The
// strict form is a recorded finding and fails on every file, so this is the last thing a harness asks.
func vhC09CheckFormat(text string) {
	formatted, ferr := format.Source([]byte(text))
	symxAssert(ferr == nil, "C09.gofmt-accepts-the-file")
	if ferr == nil {
		same := vhC09Canon(string(formatted)) == vhC09Canon(text)
		symxAssert(same, "C09.file-is-gofmt-output-up-to-blank-lines-and-import-order")
		symxKnownFor("C09-blank-lines-collapsed-after-gofmt", "C09.file-is-gofmt-formatted", same)
		symxAssert(string(formatted) == text, "C09.file-is-gofmt-formatted")
	}
}

// vhC09Generate runs front end + pipeline + GenerateRoutes and returns the written text ("" and false when the
// project or the generation was refused).
func vhC09Generate(routes []vhC09Route, cfg *definitions.GleeceConfig) (string, bool) {
	symxRealLibrary("raymond")
	symxRealLibrary("no-faults")
	src := vhC09Source(routes)
	fr, err := visitors.VhLoadSource(src, nil)
	symxAssert(err == nil, "C09.fixture-compiles")
	if err != nil {
		return "", false
	}
	if !symxIsSymbolic() {
		os.RemoveAll(filepath.Dir(cfg.RoutesConfig.OutputPath))
	}
	meta, err := pipeline.VhNewPipeline(fr, cfg).Run()
	if err != nil {
		symxRecord("project-refused", true)
		symxCover("C09.project-refused")
		return "", false
	}
	err = GenerateRoutes(cfg, meta)
	text, written := vhC09Written(cfg.RoutesConfig.OutputPath)
	if err != nil {
		symxRecord("generation-refused", true)
		symxAssert(!written, "C09.no-file-when-generation-fails")
		return "", false
	}
	symxAssert(written, "C09.file-written-when-generation-succeeds")
	if !written {
		return "", false
	}
	symxCover("C09.generated")
	symxRecord("bytes", len(text))
	symxRecord("text", text)
	// the second, semantic half is decided against the real packages, which only the native run can load
	typed := true
	why := ""
	if !symxIsSymbolic() {
		why = vhC09TypeCheck(src, text, cfg)
		typed = why == ""
		if !typed {
			symxRecord("native-type-error", why)
		}
	}
	symxAssert(typed, "C09.native.file-type-checks-against-engine-controllers-and-auth")
	return text, true
}

// one route with one non-body parameter of every supported type in every location, for every engine
func vh_C09_front_param_types_Q() {
	engine := symxChoice("engine", 5)
	pt := symxChoice("ptype", len(vhC09ParamTypes))
	loc := symxChoice("loc", 3)
	locs := []string{"Query", "Header", "Path"}
	path := "/op"
	if loc == 2 {
		path = "/op/{p1}"
	}
	routes := []vhC09Route{{name: "Op", verb: "GET", path: path, params: []vhC09Param{{"p1", locs[loc], vhC09ParamTypes[pt]}}, result: 1}}
	cfg := vhC09Config(engine, "")
	text, ok := vhC09Generate(routes, cfg)
	if !ok {
		return
	}
	f := vhC09CheckFile(text, "routes", vhC09EnginePkg[engine])
	if f == nil {
		return
	}
	symxAssert(strings.Contains(text, "controller.Op("), "C09.controller-method-is-called")
	vhC09CheckFormat(text)
}
