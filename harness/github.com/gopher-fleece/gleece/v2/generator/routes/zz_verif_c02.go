package routes

// C02, seen from the rendering side: the registration table of the router rendered for a project - read off the
// syntax tree of the generated RegisterRoutes - is in bijection with the project's annotated methods (hidden ones
// included): one registration per method, under the method's verb, at controller prefix + route, calling that method
// of that controller. Stage G (harness-g) runs the generated code of one fixture; here the project varies.

import (
	"go/ast"
	"go/parser"
	"go/token"
	"sort"
	"strconv"
	"strings"
)

type vhC02Entry struct{ verb, path, ctl, method string }

// vhC02Table extracts (verb, path text, controller type, method) per registration statement of RegisterRoutes
func vhC02Table(text string) ([]vhC02Entry, bool) {
	f, err := parser.ParseFile(token.NewFileSet(), "routes.go", text, 0)
	if err != nil {
		return nil, false
	}
	var reg *ast.FuncDecl
	for _, d := range f.Decls {
		if fd, ok := d.(*ast.FuncDecl); ok && fd.Name.Name == "RegisterRoutes" && fd.Recv == nil {
			reg = fd
		}
	}
	if reg == nil {
		return nil, false
	}
	var out []vhC02Entry
	for _, st := range reg.Body.List {
		es, ok := st.(*ast.ExprStmt)
		if !ok {
			continue
		}
		call, ok := es.X.(*ast.CallExpr)
		if !ok {
			continue
		}
		sel, ok := call.Fun.(*ast.SelectorExpr)
		if !ok {
			continue
		}
		verb := sel.Sel.Name
		if inner, ok := sel.X.(*ast.CallExpr); ok && verb == "Methods" && len(call.Args) == 1 {
			// mux: engine.HandleFunc(url, handler).Methods("VERB")
			lit, ok := call.Args[0].(*ast.BasicLit)
			if !ok {
				continue
			}
			verb, _ = strconv.Unquote(lit.Value)
			call = inner
			sel, ok = call.Fun.(*ast.SelectorExpr)
			if !ok || sel.Sel.Name != "HandleFunc" {
				continue
			}
		}
		if id, ok := sel.X.(*ast.Ident); !ok || id.Name != "engine" || len(call.Args) != 2 {
			continue
		}
		urlCall, ok := call.Args[0].(*ast.CallExpr)
		if !ok || len(urlCall.Args) != 1 {
			continue
		}
		lit, ok := urlCall.Args[0].(*ast.BasicLit)
		handler, ok2 := call.Args[1].(*ast.FuncLit)
		if !ok || !ok2 {
			continue
		}
		path, _ := strconv.Unquote(lit.Value)
		e := vhC02Entry{verb: strings.ToUpper(verb), path: path}
		// the controller the handler instantiates and the method it calls on it
		ast.Inspect(handler.Body, func(n ast.Node) bool {
			switch n := n.(type) {
			case *ast.AssignStmt:
				if len(n.Lhs) == 1 && len(n.Rhs) == 1 {
					if id, ok := n.Lhs[0].(*ast.Ident); ok && id.Name == "controller" {
						if cl, ok := n.Rhs[0].(*ast.CompositeLit); ok {
							if s, ok := cl.Type.(*ast.SelectorExpr); ok {
								e.ctl = s.Sel.Name
							}
						}
					}
				}
			case *ast.CallExpr:
				if s, ok := n.Fun.(*ast.SelectorExpr); ok {
					if id, ok := s.X.(*ast.Ident); ok && id.Name == "controller" && s.Sel.Name != "InitController" && s.Sel.Name != "GetHeaders" {
						e.method = s.Sel.Name
					}
				}
			}
			return true
		})
		out = append(out, e)
	}
	return out, true
}

func vhC02Key(e vhC02Entry) string { return e.verb + " " + e.path + " " + e.ctl + "." + e.method }

func vh_C02_front_registration_Q() {
	engine := symxChoice("engine", 5)
	verbs := []string{"GET", "POST", "PUT", "PATCH", "DELETE"}
	v1 := symxChoice("verb1", len(verbs))
	hidden1, hidden2 := vhC09Flag("hidden1"), vhC09Flag("hidden2")
	secondCtl := vhC09Flag("second-controller")
	r2 := vhC09Route{name: "Two", verb: "GET", path: "/two/{id}", params: []vhC09Param{{name: "id", loc: "Path", typ: "string"}}, result: 1, hidden: hidden2}
	prefix2 := "/c"
	if secondCtl {
		r2.ctl, prefix2 = "Second", "/second"
	}
	routes := []vhC09Route{
		{name: "One", verb: verbs[v1], path: "/one", result: 0, hidden: hidden1},
		r2,
	}
	run, ok := vhC09Generate(routes, vhC09Config(engine, ""))
	symxAssert(ok, "C02.front.project-accepted")
	if !ok {
		return
	}
	table, parsed := vhC02Table(run.text)
	symxAssert(parsed, "C02.front.generated-file-parses")
	if !parsed {
		return
	}
	ctl2 := "Ctl"
	if secondCtl {
		ctl2 = "Second"
	}
	want := []string{
		vhC02Key(vhC02Entry{verbs[v1], "/c/one", "Ctl", "One"}),
		vhC02Key(vhC02Entry{"GET", prefix2 + "/two/{id}", ctl2, "Two"}),
	}
	var got []string
	for _, e := range table {
		got = append(got, vhC02Key(e))
	}
	sort.Strings(want)
	sort.Strings(got)
	symxRecord("table", strings.Join(got, " | "))
	symxAssert(len(got) == len(want), "C02.front.one-registration-per-annotated-method(hidden-included)")
	for k := 0; k < len(got) && k < len(want); k++ {
		symxAssert(got[k] == want[k], "C02.front.registered-under-its-verb-at-prefix-plus-route-calling-its-method")
	}
	symxCover("C02.front.table-read")
}
