package routes

// C03, seen from the rendering side: in the handler rendered for a route, the first thing that happens is the
// authorize call, its alternatives are exactly the route's effective security (its own @Security annotations, else
// its controller's, else the configured default, else none), a refusal returns, and the controller is only
// constructed after that. Stage G runs the generated code of two fixtures against every callback behaviour; here the
// project's security annotations vary.

import (
	"go/ast"
	"go/parser"
	"go/token"
	"strconv"
	"strings"

	"github.com/gopher-fleece/gleece/v2/definitions"
)

// vhC03Handlers returns, per registered handler (by the controller method it calls), the alternatives its authorize
// call lists and whether the call and its refusal branch precede the controller's construction
type vhC03Handler struct {
	alternatives string
	ordered      bool
}

func vhC03Lit(e ast.Expr) string {
	if l, ok := e.(*ast.BasicLit); ok {
		s, _ := strconv.Unquote(l.Value)
		return s
	}
	return "?"
}

func vhC03Alternatives(list *ast.CompositeLit) string {
	var alts []string
	for _, a := range list.Elts {
		alt, ok := a.(*ast.CompositeLit)
		if !ok {
			return "?"
		}
		var checks []string
		for _, kv := range alt.Elts {
			k, ok := kv.(*ast.KeyValueExpr)
			if !ok || k.Key.(*ast.Ident).Name != "Checks" {
				continue
			}
			for _, c := range k.Value.(*ast.CompositeLit).Elts {
				name, scopes := "?", []string{}
				for _, f := range c.(*ast.CompositeLit).Elts {
					fkv := f.(*ast.KeyValueExpr)
					switch fkv.Key.(*ast.Ident).Name {
					case "SchemaName":
						name = vhC03Lit(fkv.Value)
					case "Scopes":
						for _, s := range fkv.Value.(*ast.CompositeLit).Elts {
							scopes = append(scopes, vhC03Lit(s))
						}
					}
				}
				checks = append(checks, name+"["+strings.Join(scopes, ",")+"]")
			}
		}
		alts = append(alts, strings.Join(checks, "&"))
	}
	return strings.Join(alts, " | ")
}

func vhC03Handlers(text string) (map[string]vhC03Handler, bool) {
	f, err := parser.ParseFile(token.NewFileSet(), "routes.go", text, 0)
	if err != nil {
		return nil, false
	}
	out := map[string]vhC03Handler{}
	ast.Inspect(f, func(n ast.Node) bool {
		fl, ok := n.(*ast.FuncLit)
		if !ok {
			return true
		}
		h := vhC03Handler{alternatives: "<no authorize call>"}
		authAt, refusalAt, ctlAt, method := -1, -1, -1, ""
		for k, st := range fl.Body.List {
			switch st := st.(type) {
			case *ast.AssignStmt:
				if len(st.Lhs) == 1 && len(st.Rhs) == 1 {
					id, _ := st.Lhs[0].(*ast.Ident)
					if id != nil && id.Name == "authErr" {
						if call, ok := st.Rhs[0].(*ast.CallExpr); ok && len(call.Args) == 2 {
							if fn, ok := call.Fun.(*ast.Ident); ok && fn.Name == "authorize" {
								if cl, ok := call.Args[1].(*ast.CompositeLit); ok {
									h.alternatives = vhC03Alternatives(cl)
									authAt = k
								}
							}
						}
					}
					if id != nil && id.Name == "controller" && ctlAt < 0 {
						ctlAt = k
					}
				}
			case *ast.IfStmt:
				if be, ok := st.Cond.(*ast.BinaryExpr); ok && refusalAt < 0 {
					if id, ok := be.X.(*ast.Ident); ok && id.Name == "authErr" && len(st.Body.List) > 0 {
						if _, ok := st.Body.List[len(st.Body.List)-1].(*ast.ReturnStmt); ok {
							refusalAt = k
						}
					}
				}
			}
		}
		ast.Inspect(fl.Body, func(m ast.Node) bool {
			if c, ok := m.(*ast.CallExpr); ok {
				if s, ok := c.Fun.(*ast.SelectorExpr); ok {
					if id, ok := s.X.(*ast.Ident); ok && id.Name == "controller" && s.Sel.Name != "InitController" && s.Sel.Name != "GetHeaders" {
						method = s.Sel.Name
					}
				}
			}
			return true
		})
		if method != "" && ctlAt >= 0 {
			h.ordered = authAt == 0 && refusalAt == 1 && ctlAt > refusalAt
			out[method] = h
		}
		return true
	})
	return out, true
}

func vh_C03_front_effective_security_Q() {
	engine := symxChoice("engine", 5)
	own := symxChoice("own", 5)       // the method's own @Security annotations: none, one, two (second one scoped / bare / empty scopes)
	ctlSec := vhC09Flag("controller") // @Security on the controller
	def := vhC09Flag("default")       // configured default security
	scopes := symxChoice("scopes", 2)
	scopeText := []string{"", `"read", "write"`}[scopes]
	scopeWant := []string{"", "read,write"}[scopes]
	r1 := vhC09Route{name: "Guarded", verb: "GET", path: "/guarded", result: 1}
	if own >= 1 {
		r1.doc = append(r1.doc, "// @Security(sec, { scopes: ["+scopeText+"] })")
	}
	switch own {
	case 2:
		r1.doc = append(r1.doc, `// @Security(alt, { scopes: ["x"] })`)
	case 3:
		r1.doc = append(r1.doc, `// @Security(alt)`) // no scopes of its own: none, not the previous alternative's
	case 4:
		r1.doc = append(r1.doc, `// @Security(alt, { scopes: [] })`)
	}
	routes := []vhC09Route{r1, {name: "Plain", verb: "GET", path: "/plain", result: 1}}
	src := vhC09Source(routes)
	if ctlSec {
		src = strings.Replace(src, "// @Route(/c)\ntype Ctl struct", "// @Route(/c)\n// @Security(csec, { scopes: [\"c\"] })\ntype Ctl struct", 1)
	}
	cfg := vhC09Config(engine, "")
	for _, n := range []string{"sec", "alt", "csec", "dsec"} {
		cfg.OpenAPIGeneratorConfig.SecuritySchemes = append(cfg.OpenAPIGeneratorConfig.SecuritySchemes,
			definitions.SecuritySchemeConfig{SecurityName: n, FieldName: "x-" + n, Type: "apiKey", In: "header", Description: n})
	}
	if def {
		cfg.OpenAPIGeneratorConfig.DefaultRouteSecurity = &definitions.SecurityAnnotationComponent{SchemaName: "dsec", Scopes: []string{"d"}}
	}
	run, ok := vhC09GenerateSrc(src, cfg)
	symxAssert(ok, "C03.front.project-accepted")
	if !ok {
		return
	}
	hs, parsed := vhC03Handlers(run.text)
	symxAssert(parsed, "C03.front.generated-file-parses")
	if !parsed {
		return
	}
	inherited := ""
	if ctlSec {
		inherited = "csec[c]"
	} else if def {
		inherited = "dsec[d]"
	}
	wantGuarded := inherited
	switch own {
	case 1:
		wantGuarded = "sec[" + scopeWant + "]"
	case 2:
		wantGuarded = "sec[" + scopeWant + "] | alt[x]"
	case 3, 4:
		wantGuarded = "sec[" + scopeWant + "] | alt[]"
	}
	g, okG := hs["Guarded"]
	p, okP := hs["Plain"]
	symxAssert(okG && okP && len(hs) == 2, "C03.front.one-handler-per-method")
	if !okG || !okP {
		return
	}
	symxRecord("guarded", g.alternatives)
	symxRecord("plain", p.alternatives)
	symxAssert(g.alternatives == wantGuarded, "C03.front.handler-asks-exactly-the-effective-alternatives(own-else-controller-else-default)")
	symxAssert(p.alternatives == inherited, "C03.front.method-without-security-inherits(controller-else-default-else-none)")
	symxAssert(g.ordered && p.ordered, "C03.front.authorize-first-refusal-returns-controller-constructed-afterwards")
	symxCover("C03.front.handlers-read")
}
