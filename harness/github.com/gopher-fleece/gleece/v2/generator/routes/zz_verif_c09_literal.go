package routes

// C09/C03, literal kernel (symbolic text): user text that the templates copy into Go string literals of the handler -
// the scopes and scheme names of a security alternative - is, for EVERY text over an alphabet with quotes, backslashes,
// braces, back-ticks and spaces, read back from the rendered literal unchanged. The partial is rendered by the real
// handlebars engine on a symbolic string; the literal is read back with strconv.Unquote (interpreted).

import (
	"strconv"
	"strings"

	"github.com/aymerick/raymond"
	"github.com/gopher-fleece/gleece/v2/definitions"
)

const vhC09LiteralAlphabet = "a \"\\{}`'<&"

func vhC09RenderAuth(engine int, scheme, scope string) (string, error) {
	cfg := &definitions.GleeceConfig{}
	cfg.RoutesConfig.Engine = vhC09Engines[engine]
	if err := registerPartials(cfg); err != nil {
		return "", err
	}
	if !helpersRegistered {
		registerHandlebarsHelpers()
		helpersRegistered = true
	}
	ctx := map[string]any{"Security": []definitions.RouteSecurity{{SecurityAnnotation: []definitions.SecurityAnnotationComponent{{SchemaName: scheme, Scopes: []string{scope}}}}}}
	return raymond.Render("{{> AuthorizationCall}}", ctx)
}

func vhC09LiteralKernel(engine int, symbolicScheme bool) {
	symxRealLibrary("raymond")
	text := symxString("text", 1, 2, vhC09LiteralAlphabet)
	n := len(text)
	place := strings.Repeat("Z", n)
	scheme, scope := "s", text
	pScheme, pScope := "s", place
	if symbolicScheme {
		scheme, scope = text, "r"
		pScheme, pScope = place, "r"
	}
	// where the text lands: render once with a placeholder of the same length
	ref, err := vhC09RenderAuth(engine, pScheme, pScope)
	symxAssert(err == nil && strings.Count(ref, place) == 1, "C09.literal.placeholder-rendered-once")
	if err != nil {
		return
	}
	at := strings.Index(ref, place)
	symxAssert(at > 0 && ref[at-1] == '"' && ref[at+n] == '"', "C09.literal.text-sits-between-double-quotes")
	out, err := vhC09RenderAuth(engine, scheme, scope)
	symxAssert(err == nil, "C09.literal.renders")
	if err != nil {
		return
	}
	// the literal as the compiler will read it: from the opening quote to the first unescaped closing quote
	symxAssert(len(out) >= len(ref), "C09.literal.nothing-lost")
	grown := len(out) - len(ref) // escaping may lengthen the text
	lit := out[at-1 : at+n+grown+1]
	val, uerr := strconv.Unquote(lit)
	symxAssert(uerr == nil && val == text && out[at+n+grown+1:] == ref[at+n+1:], "C09.literal.user-text-reads-back-unchanged-from-its-go-string-literal")
	symxCover("C09.literal.read-back")
}

func vh_C09_scope_literal_kernel_Q()  { vhC09LiteralKernel(symxChoice("engine", 5), false) }
func vh_C09_scheme_literal_kernel_Q() { vhC09LiteralKernel(symxChoice("engine", 5), true) }

// the same through the front end: scopes as the annotation grammar (JSON5) lets them through
var vhC09ScopeTexts = []string{"read", "read:all", "r w", "r\"w", "r\\w", "r`w", "é"}

func vh_C09_front_scope_texts_Q() {
	engine := symxChoice("engine", 5)
	n := symxChoice("scope", len(vhC09ScopeTexts))
	r := vhC09Route{name: "Op", verb: "GET", path: "/op", result: 1, doc: []string{"// @Security(sec, { scopes: [" + strconv.Quote(vhC09ScopeTexts[n]) + "] })"}}
	cfg := vhC09Config(engine, "")
	cfg.OpenAPIGeneratorConfig.SecuritySchemes = []definitions.SecuritySchemeConfig{{SecurityName: "sec", FieldName: "x-key", Type: "apiKey", In: "header", Description: "d"}}
	run, ok := vhC09Generate([]vhC09Route{r}, cfg)
	if ok {
		hs, parsed := vhC03Handlers(run.text)
		if parsed {
			symxAssert(hs["Op"].alternatives == "sec["+vhC09ScopeTexts[n]+"]", "C03.front.scope-text-reaches-the-handler-unchanged")
		}
	}
	vhC09Finish(run, ok, "routes", engine, "Op")
}

// enum constants are user text too: with the experimental enum validation switched on their values are copied into
// the generated file
var vhC09EnumValues = []string{"b", "b c", "b-c", "b\"c", "b\\c", "b`c", "b'c", "é"}

func vh_C09_front_enum_values_Q() {
	engine := symxChoice("engine", 5)
	n := symxChoice("value", len(vhC09EnumValues))
	cfg := vhC09Config(engine, "")
	cfg.ExperimentalConfig.GenerateEnumValidator = vhC09Flag("generateEnumValidator")
	cfg.ExperimentalConfig.ValidateTopLevelOnlyEnum = vhC09Flag("validateTopLevelOnlyEnum")
	routes := []vhC09Route{{name: "Op", verb: "POST", path: "/op/{k}", params: []vhC09Param{{name: "k", loc: "Path", typ: "Kind"}, {name: "q", loc: "Query", typ: "Kind"}, {name: "m", loc: "Body", typ: "Model"}}, result: 7}}
	src := strings.Replace(vhC09Source(routes), `KindB Kind = "b"`, "KindB Kind = "+strconv.Quote(vhC09EnumValues[n]), 1)
	run, ok := vhC09GenerateSrc(src, cfg)
	vhC09Finish(run, ok, "routes", engine, "Op")
}

// C05, rendering side: with top-level enum validation on, the handler accepts exactly the enum's values - the case
// labels of its switch are the constants' values, character for character
func vh_C05_front_enum_values_Q() {
	engine := symxChoice("engine", 5)
	n := symxChoice("value", len(vhC09EnumValues))
	cfg := vhC09Config(engine, "")
	cfg.ExperimentalConfig.ValidateTopLevelOnlyEnum = true
	routes := []vhC09Route{{name: "Op", verb: "GET", path: "/op", params: []vhC09Param{{name: "q", loc: "Query", typ: "Kind"}}, result: 1}}
	src := strings.Replace(vhC09Source(routes), `KindB Kind = "b"`, "KindB Kind = "+strconv.Quote(vhC09EnumValues[n]), 1)
	run, ok := vhC09GenerateSrc(src, cfg)
	if !ok {
		return
	}
	symxAssert(strings.Contains(run.text, `case "a", `+strconv.Quote(vhC09EnumValues[n])+":"), "C05.front.enum-parameter-accepts-exactly-the-declared-values")
	symxCover("C05.front.enum-switch-read")
}

// the verb of @Method is printed as a method name of the engine (engine.GET, engine.Get): whatever spelling the
// validators let through has to name one
var vhC09VerbSpellings = []string{"GET", "get", "Get", "POST", "post", "Delete", "patch", "PUT", "hEAD", "OPTIONS", "options"}

func vh_C09_front_verb_spellings_Q() {
	engine := symxChoice("engine", 5)
	n := symxChoice("verb", len(vhC09VerbSpellings))
	routes := []vhC09Route{{name: "Op", verb: vhC09VerbSpellings[n], path: "/op", result: 1}}
	run, ok := vhC09Generate(routes, vhC09Config(engine, ""))
	vhC09Finish(run, ok, "routes", engine)
}
