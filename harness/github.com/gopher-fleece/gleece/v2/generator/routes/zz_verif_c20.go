package routes

import (
	"os"
	"reflect"
	"regexp"
	"strings"

	"github.com/gopher-fleece/gleece/v2/definitions"
)

// the pattern the configuration validator applies to routesConfig.outputFilePerms, read from the struct tag
func vhPermsPattern() string {
	t := reflect.TypeOf(definitions.RoutesConfig{})
	for i := 0; i < t.NumField(); i++ {
		f := t.Field(i)
		if f.Name == "OutputFilePerms" {
			tag := f.Tag.Get("validate")
			for _, rule := range strings.Split(tag, ",") {
				if strings.HasPrefix(rule, "regex=") {
					return strings.TrimPrefix(rule, "regex=")
				}
			}
		}
	}
	return ""
}

// reference: octal value of s, ok=false if s is not 1..n octal digits
func vhRefOctal(s string) (uint32, bool) {
	if len(s) == 0 {
		return 0, false
	}
	var v uint32
	for i := 0; i < len(s); i++ {
		if s[i] < '0' || s[i] > '7' {
			return 0, false
		}
		v = v*8 + uint32(s[i]-'0')
	}
	return v, true
}

func vhC20Perms(maxLen int) {
	pat := vhPermsPattern()
	symxAssert(pat != "", "C20.perm.pattern-declared")
	re := regexp.MustCompile(pat)
	s := symxString("perm", 0, maxLen, "01478x+_")
	accepted := re.MatchString(s)
	got := getOutputFileMod(s)
	symxRecord("mode", uint32(got), accepted)
	if accepted {
		symxCover("C20.perm.accepted")
		want := os.FileMode(0644)
		if s != "" {
			v, ok := vhRefOctal(s)
			symxAssert(ok, "C20.perm.accepted-is-octal")
			want = os.FileMode(v)
		}
		symxAssert(got == want, "C20.perm.honoured-literally")
	} else {
		symxCover("C20.perm.rejected")
	}
	// the converter itself: error iff not an octal numeral within 0o7777 (leading '+'/'_' are not digits)
	mode, err := definitions.PermissionStringToFileMod(s)
	v, ok := vhRefOctal(s)
	valid := ok && v <= 0o7777
	symxAssert((err == nil) == valid, "C20.perm.converter-error-iff-invalid")
	if err == nil {
		symxAssert(uint32(mode) == v, "C20.perm.converter-value")
	}
}

func vh_C20_perms_Q() { vhC20Perms(4) }
func vh_C20_perms_T() { vhC20Perms(6) }
