package routes

import (
	"strings"

	"github.com/gopher-fleece/gleece/v2/definitions"
)

// C13 (no state carried from one generation to the next; engine-only: the file system and the handlebars
// library's process-wide registry are stand-ins): the partials and extensions registered for a configuration are the
// same whether or not another configuration - with template overrides and extensions - was generated before it in
// the same process.
var vhEngines = []definitions.RoutingEngineType{definitions.RoutingEngineGin, definitions.RoutingEngineEcho, definitions.RoutingEngineMux, definitions.RoutingEngineFiber, definitions.RoutingEngineChi}

func vhRegistered(log []string, from int) []string {
	var out []string
	for _, e := range log[from:] {
		if strings.HasPrefix(e, "raymond.RegisterPartial:") {
			out = append(out, e)
		}
	}
	return out
}

func vh_C13_partials_state_E_Q() {
	if !symxIsSymbolic() {
		return
	}
	engine := vhEngines[symxChoice("engine", len(vhEngines))]
	plain := &definitions.GleeceConfig{}
	plain.RoutesConfig.Engine = engine
	other := &definitions.GleeceConfig{}
	other.RoutesConfig.Engine = engine
	if symxBool("otherEngine") {
		other.RoutesConfig.Engine = vhEngines[symxChoice("engine2", len(vhEngines))]
	}
	extNames := []string{"RegisterRoutesExtension", "RouteStartRoutesExtension", "ImportsExtension", "NoSuchExtension"}
	if symxBool("withExtension") {
		other.RoutesConfig.TemplateExtensions = map[string]string{extNames[symxChoice("ext", len(extNames))]: "/t/ext.hbs"}
	}
	if symxBool("withOverride") {
		other.RoutesConfig.TemplateOverrides = map[string]string{[]string{"Imports", "JsonResponse", "NoSuchPartial"}[symxChoice("ovr", 3)]: "/t/ovr.hbs"}
	}
	symxAssert(registerPartials(plain) == nil, "C13.partials.plain-configuration-registers")
	first := vhRegistered(symxEnvLog(), 0)
	mark := len(symxEnvLog())
	_ = registerPartials(other) // may be refused (unknown names, unreadable files): either way it must leave nothing behind
	mark2 := len(symxEnvLog())
	symxAssert(registerPartials(plain) == nil, "C13.partials.plain-configuration-registers-again")
	again := vhRegistered(symxEnvLog(), mark2)
	_ = mark
	symxCover("C13.partials.compared")
	same := len(first) == len(again) && len(first) > 0
	for k := 0; same && k < len(first); k++ {
		same = first[k] == again[k]
	}
	symxAssert(same, "C13.partials.same-registrations-whatever-was-generated-before")
}
