package routes

// Exported shims over the generated (unexported) code of the gin router, used by the cross-engine harnesses.

import (
	"github.com/gin-gonic/gin"
	"github.com/gopher-fleece/runtime"

	"verifgen/greq"
)

func vhEngine() *gin.Engine {
	engine := gin.New()
	RegisterRoutes(engine)
	return engine
}

// VhToUrl is the generated URL transformer of this engine (RegisterRoutes initialises its regexp).
func VhToUrl(s string) string {
	vhEngine()
	return toGinUrl(s)
}

// VhAuthorize runs the generated authorize() on arbitrary alternatives and reports the outcome.
func VhAuthorize(alternatives [][]runtime.SecurityCheck) (refused bool, status int) {
	var lists []SecurityCheckList
	for _, checks := range alternatives {
		lists = append(lists, SecurityCheckList{Relation: SecurityListRelationAnd, Checks: checks})
	}
	if err := authorize(&gin.Context{Request: greq.Req{}.HTTP("GET")}, lists); err != nil {
		return true, int(err.StatusCode)
	}
	return false, 0
}

func VhRoutes() []greq.Route {
	var out []greq.Route
	for _, r := range vhEngine().Routes {
		out = append(out, greq.Route{Method: r.Method, Path: r.Path})
	}
	return out
}

func VhRun(i int, r greq.Req) greq.Resp {
	ri := vhEngine().Routes[i]
	return greq.RunGin(ri.Handler, ri.Method, r)
}
