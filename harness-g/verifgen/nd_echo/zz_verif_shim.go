package routes

// Exported shims over the generated (unexported) code of the echo router, used by the cross-engine harnesses.

import (
	"github.com/gopher-fleece/runtime"
	"github.com/labstack/echo/v4"

	"verifgen/greq"
)

func vhEngine() *echo.Echo {
	engine := echo.New()
	RegisterRoutes(engine)
	return engine
}

// VhToUrl is the generated URL transformer of this engine (RegisterRoutes initialises its regexp).
func VhToUrl(s string) string {
	vhEngine()
	return toEchoUrl(s)
}

// VhAuthorize runs the generated authorize() on arbitrary alternatives and reports the outcome.
func VhAuthorize(alternatives [][]runtime.SecurityCheck) (refused bool, status int) {
	var lists []SecurityCheckList
	for _, checks := range alternatives {
		lists = append(lists, SecurityCheckList{Relation: SecurityListRelationAnd, Checks: checks})
	}
	if err := authorize(&echo.Ctx{Req: greq.Req{}.HTTP("GET")}, lists); err != nil {
		return true, int(err.StatusCode)
	}
	return false, 0
}

func VhRoutes() []greq.Route {
	var out []greq.Route
	for _, r := range vhEngine().Routes {
		out = append(out, greq.Route{Method: r.Method, Path: r.Path})
	}
	return out
}

func VhRun(i int, r greq.Req) greq.Resp {
	ri := vhEngine().Routes[i]
	return greq.RunEcho(ri.Handler, ri.Method, r)
}
