package cross

import (
	"encoding/json"
	"math"

	"github.com/gopher-fleece/runtime"

	"verifgen/api"
	"verifgen/greq"
	"verifgen/trace"
)

func vhOptional(tag, key string, minLen, maxLen int, alphabet string, into *[]greq.KV) {
	if symxBool(tag + ".present") {
		*into = append(*into, greq.KV{Key: key, Value: symxString(tag, minLen, maxLen, alphabet)})
	}
}

// a symbolic request addressed to fixture route `route`; every location the route reads may be
// absent, empty or malformed
func vhSymbolicRequest(route int, emptyHeaderValues bool) greq.Req {
	var r greq.Req
	minH := 1
	if emptyHeaderValues {
		minH = 0
	}
	switch route {
	case 0:
		r.Path = []greq.KV{{Key: "id", Value: symxString("id", 0, 2, "01-a")}}
		vhOptional("q", "q", 0, 1, "a", &r.Query)
		vhOptional("h", "x-h", minH, 1, "a", &r.Header)
	case 1:
		switch symxChoice("body", 5) {
		case 0:
			r.Body, r.HasBody = []byte(`{"name":"n","count":2}`), true
		case 1:
			r.Body, r.HasBody = []byte(`{"name":`), true
		case 2:
			r.Body, r.HasBody = []byte(`{"name":5}`), true
		case 3:
			r.Body, r.HasBody = []byte(``), true
		}
	case 2:
		vhOptional("a", "a", 0, 1, "a", &r.Form)
		vhOptional("b", "b", 0, 2, "01-a", &r.Form)
		// the same names in the URL query: not form fields, on any engine
		if symxBool("a.alsoInQuery") {
			r.Query = append(r.Query, greq.KV{Key: "a", Value: "q"})
		}
		if symxBool("b.alsoInQuery") {
			r.Query = append(r.Query, greq.KV{Key: "b", Value: "7"})
		}
	case 3:
		n := symxChoice("tags.n", 2)
		for k := 0; k < n; k++ {
			r.Query = append(r.Query, greq.KV{Key: "tags", Value: symxString("tag"+string(rune('0'+k)), 0, 1, "a")})
		}
		vhOptional("n", "n", 0, 1, "0-a", &r.Query)
		if symxBool("flag.present") {
			r.Query = append(r.Query, greq.KV{Key: "flag", Value: []string{"true", "0", "T", "yes", ""}[symxChoice("flag", 5)]})
		}
		vhOptional("small", "x-small", minH, 2, "01-", &r.Header)
	case 4:
		vhOptional("c", "c", 0, 2, "rx", &r.Query)
	case 6:
		r.Path = []greq.KV{{Key: "name", Value: symxString("name", 0, 1, "a")}}
	case 7:
		r.Path = []greq.KV{{Key: "name", Value: symxString("name", 0, 1, "a")}}
		vhOptional("big", "big", 0, 2, "01-a", &r.Query)
	case 8:
		// floating point parameters: texts chosen around the edges of float32 and float64 (concrete candidates)
		ratios := []string{"1.5", "-0", "1e39", "-1e39", "3.4028235e38", "3.5e38", "1e400", "abc", "", "1_5", "0x1p-2", "1e-50"}
		if k := symxChoice("ratio", len(ratios)+1); k < len(ratios) {
			r.Query = append(r.Query, greq.KV{Key: "ratio", Value: ratios[k]})
		}
		factors := []string{"2.5", "1e400", "x", ""}
		if k := symxChoice("factor", len(factors)+1); k < len(factors) {
			r.Query = append(r.Query, greq.KV{Key: "factor", Value: factors[k]})
		}
	case 9:
		// ten query parameters of further types: one of them gets a candidate text (around the edges of its width,
		// malformed, empty or absent), the others a plain valid value
		ints := []string{"0", "-1", "127", "128", "255", "256", "-129", "32767", "32768", "-32769", "65535", "65536", "2147483647", "2147483648", "-2147483649",
			"4294967295", "4294967296", "18446744073709551615", "18446744073709551616", "abc", "", "1.0", "+5", "0x10", " 7", "1_0"}
		bools := []string{"true", "false", "1", "0", "T", "yes", "", "TRUE", "tRuE"}
		colors := []string{"red", "blue", "green", "", "RED"}
		which := symxChoice("which", 10)
		for k := 0; k < 10; k++ {
			key := "p" + string(rune('0'+k))
			if k != which {
				switch k {
				case 6, 8: // pointers: absent
				case 9:
					r.Query = append(r.Query, greq.KV{Key: key, Value: "x"})
				default:
					r.Query = append(r.Query, greq.KV{Key: key, Value: "1"})
				}
				continue
			}
			var cands []string
			switch k {
			case 6:
				cands = bools
			case 8:
				cands = colors
			case 9:
				cands = []string{"x", "", "é"}
			default:
				cands = ints
			}
			c := symxChoice("value", len(cands)+1)
			if c == len(cands) {
				continue // absent
			}
			r.Query = append(r.Query, greq.KV{Key: key, Value: cands[c]})
			if k == 7 && symxBool("second") {
				r.Query = append(r.Query, greq.KV{Key: key, Value: "-3"})
			}
		}
	}
	return r
}

func vhPtrEq[T comparable](x *T, b any) bool {
	y, ok := b.(*T)
	return ok && (x == nil) == (y == nil) && (x == nil || *x == *y)
}

func vhSameArg(a, b any) bool {
	switch x := a.(type) {
	case int:
		y, ok := b.(int)
		return ok && x == y
	case int64:
		y, ok := b.(int64)
		return ok && x == y
	case uint:
		y, ok := b.(uint)
		return ok && x == y
	case bool:
		y, ok := b.(bool)
		return ok && x == y
	case string:
		y, ok := b.(string)
		return ok && x == y
	case api.Color:
		y, ok := b.(api.Color)
		return ok && x == y
	case api.Item:
		y, ok := b.(api.Item)
		return ok && x == y
	case *string:
		y, ok := b.(*string)
		return ok && (x == nil) == (y == nil) && (x == nil || *x == *y)
	case *int:
		y, ok := b.(*int)
		return ok && (x == nil) == (y == nil) && (x == nil || *x == *y)
	case *int8:
		y, ok := b.(*int8)
		return ok && (x == nil) == (y == nil) && (x == nil || *x == *y)
	case int16:
		y, ok := b.(int16)
		return ok && x == y
	case int32:
		y, ok := b.(int32)
		return ok && x == y
	case uint8:
		y, ok := b.(uint8)
		return ok && x == y
	case uint16:
		y, ok := b.(uint16)
		return ok && x == y
	case uint32:
		y, ok := b.(uint32)
		return ok && x == y
	case uint64:
		y, ok := b.(uint64)
		return ok && x == y
	case api.ID:
		y, ok := b.(api.ID)
		return ok && x == y
	case *bool:
		return vhPtrEq(x, b)
	case *api.Color:
		return vhPtrEq(x, b)
	case []int:
		y, ok := b.([]int)
		if !ok || len(x) != len(y) {
			return false
		}
		for i := range x {
			if x[i] != y[i] {
				return false
			}
		}
		return true
	case float32:
		y, ok := b.(float32)
		return ok && math.Float32bits(x) == math.Float32bits(y)
	case *float64:
		y, ok := b.(*float64)
		return ok && (x == nil) == (y == nil) && (x == nil || math.Float64bits(*x) == math.Float64bits(*y))
	case []string:
		y, ok := b.([]string)
		if !ok || len(x) != len(y) {
			return false
		}
		for i := range x {
			if x[i] != y[i] {
				return false
			}
		}
		return true
	}
	return false
}

func vhSameCalls(a, b []trace.Event) bool {
	if len(a) != len(b) {
		return false
	}
	for i := range a {
		if a[i].Name != b[i].Name || len(a[i].Args) != len(b[i].Args) {
			return false
		}
		for k := range a[i].Args {
			if !vhSameArg(a[i].Args[k], b[i].Args[k]) {
				return false
			}
		}
	}
	return true
}

// body as JSON text (the net/http engines encode themselves and append a newline)
func vhBodyJSON(r greq.Resp) string {
	if !r.HasBody {
		return ""
	}
	if r.BodyBytes != nil {
		b := r.BodyBytes
		if len(b) > 0 && b[len(b)-1] == '\n' {
			b = b[:len(b)-1]
		}
		return string(b)
	}
	b, err := json.Marshal(r.Body)
	if err != nil {
		return "!marshal-error"
	}
	return string(b)
}

// C12: for the same request, callback answers and controller result the five routers invoke the same
// method with equal arguments (or all refuse) and answer with the same status and JSON-equivalent body
func vhC12(route int, emptyHeaderValues bool) {
	fixture := vhFixture()
	exp := fixture[route]
	req := vhSymbolicRequest(route, emptyHeaderValues)
	vhAddDecoys(&req)
	// one set of callback answers and one controller outcome, shared by the five runs
	authAnswers := []int{symxChoice("auth0", 3), symxChoice("auth1", 3)}
	opFails := symxBool("operation.fails")
	var calls [5][]trace.Event
	var resps [5]greq.Resp
	for e := 0; e < 5; e++ {
		i := vhFindRoute(e, exp)
		symxAssume(i >= 0)
		trace.Reset()
		k := 0
		trace.AuthHook = func(check runtime.SecurityCheck) *runtime.SecurityError {
			a := 0
			if k < len(authAnswers) {
				a = authAnswers[k]
			}
			k++
			switch a {
			case 1:
				return &runtime.SecurityError{Message: "no", StatusCode: 401}
			case 2:
				return &runtime.SecurityError{Message: "no", StatusCode: 403, CustomError: &runtime.CustomError{Payload: vhPayload{Message: "custom"}}}
			}
			return nil
		}
		trace.ResultHook = func(method string) (any, error) {
			if opFails {
				return nil, vhOpError{}
			}
			switch method {
			case "ItemsController.CreateItem":
				return api.Item{Name: "made", Count: 1}, nil
			case "ItemsController.Search":
				return true, nil
			}
			return "result", nil
		}
		resps[e] = vhRun(e, i, req)
		calls[e] = vhCalls()
	}
	symxCover("C12.five-engines-compared")
	if len(calls[0]) > 0 {
		symxCover("C12.method-invoked")
	} else {
		symxCover("C12.method-not-invoked")
	}
	// recorded finding: the fiber template tests header presence by a non-empty value, the other four by key
	emptyHeader := false
	for _, kv := range req.Header {
		if kv.Value == "" {
			emptyHeader = true
		}
	}
	for _, label := range []string{"C12.same-method-same-arguments-as-gin.fiber", "C12.same-status-as-gin.fiber", "C12.same-body-as-gin.fiber"} {
		symxKnownFor("C12-fiber-empty-header-value-is-absent", label, emptyHeader)
	}
	for e := 1; e < 5; e++ {
		symxAssert(vhSameCalls(calls[0], calls[e]), "C12.same-method-same-arguments-as-gin."+vhEngines[e])
		symxAssert(resps[0].Status == resps[e].Status, "C12.same-status-as-gin."+vhEngines[e])
		symxAssert(vhBodyJSON(resps[0]) == vhBodyJSON(resps[e]), "C12.same-body-as-gin."+vhEngines[e])
	}
}

type vhOpError struct{}

func (vhOpError) Error() string { return "operation failed" }

func vh_C12_getitem_Q() { vhC12(0, false) }
func vh_C12_create_Q()  { vhC12(1, false) }
func vh_C12_form_Q()    { vhC12(2, false) }
func vh_C12_search_Q()  { vhC12(3, false) }
func vh_C12_color_Q()   { vhC12(4, false) }
func vh_C12_ping_Q()    { vhC12(5, false) }
func vh_C12_remove_Q()  { vhC12(6, false) }
func vh_C12_put_Q()     { vhC12(7, false) }
func vh_C12_scale_Q()   { vhC12(8, false) }
func vh_C12_wide_Q()    { vhC12(9, false) }

// header values may be empty: presence of an empty-valued header
func vh_C12_empty_header_Q() { vhC12(0, true) }
