package cross

import (
	"github.com/gopher-fleece/runtime"

	"verifgen/greq"
	"verifgen/trace"
)

type vhPayload struct {
	Message string `json:"message"`
}

// the authorization callback's k-th answer: 0 approve, 1 refuse (401), 2 refuse with a custom payload (403)
func vhInstallAuthHook(answers *[]int) {
	k := 0
	trace.AuthHook = func(check runtime.SecurityCheck) *runtime.SecurityError {
		a := symxChoice("auth"+string(rune('0'+k)), 3)
		k++
		*answers = append(*answers, a)
		switch a {
		case 1:
			return &runtime.SecurityError{Message: "no", StatusCode: 401}
		case 2:
			return &runtime.SecurityError{Message: "no", StatusCode: 403, CustomError: &runtime.CustomError{Payload: vhPayload{Message: "custom"}}}
		}
		return nil
	}
}

func vhSameScopes(args []any, scopes []string) bool {
	if len(args) != len(scopes) {
		return false
	}
	for i := range args {
		if s, ok := args[i].(string); !ok || s != scopes[i] {
			return false
		}
	}
	return true
}

// C03: no controller code unless every check of at least one effective alternative was approved
func vhC03(engine int, breakParams bool) {
	fixture := vhFixture()
	exp := fixture[symxChoice("route", len(fixture))]
	i := vhFindRoute(engine, exp)
	symxAssume(i >= 0)
	req := exp.valid
	invalid := false
	if breakParams && symxBool("invalidRequest") {
		req = greq.Req{} // every required parameter is missing
		invalid = len(exp.valid.Path)+len(exp.valid.Query)+len(exp.valid.Form)+len(exp.valid.Header) > 0 || exp.valid.HasBody
	}
	trace.Reset()
	var answers []int
	vhInstallAuthHook(&answers)
	resp := vhRun(engine, i, req)

	// what the callback must have been asked, given its own answers
	auths := vhAuths()
	k := 0
	approved := len(exp.sec) == 0 // a route without any effective security is served without asking
	lastStatus, lastCustom := 0, false
	for _, alt := range exp.sec {
		ok := true
		for _, check := range alt {
			symxAssert(k < len(auths), "C03.every-check-of-the-alternative-is-asked")
			if k >= len(auths) {
				return
			}
			symxAssert(auths[k].Name == check.SchemaName && vhSameScopes(auths[k].Args, check.Scopes), "C03.checks-are-the-route's-effective-security")
			a := answers[k]
			k++
			if a != 0 {
				ok = false
				lastStatus, lastCustom = 401, false
				if a == 2 {
					lastStatus, lastCustom = 403, true
				}
				break
			}
		}
		if ok {
			approved = true
			break
		}
	}
	symxAssert(k == len(auths), "C03.no-check-beyond-the-deciding-alternative")
	calls := vhCalls()
	if approved {
		symxCover("C03.approved")
		if !invalid {
			symxAssert(len(calls) == 1 && calls[0].Name == exp.name, "C03.approved-valid-request-reaches-the-method")
		}
	} else {
		symxCover("C03.refused")
		symxAssert(len(calls) == 0, "C03.refused-request-never-reaches-the-controller")
		symxAssert(resp.Status == lastStatus, "C03.refusal-status-is-the-last-refusal's")
		if lastCustom {
			symxCover("C03.custom-payload")
			if resp.BodyBytes == nil {
				p, isPayload := resp.Body.(vhPayload)
				symxAssert(resp.HasBody && isPayload && p.Message == "custom", "C03.custom-payload-is-the-response")
			}
		}
	}
	// the controller is never invoked before the last authorization event
	seenCall := false
	for _, e := range trace.Events {
		if e.Kind == "call" {
			seenCall = true
		}
		if e.Kind == "auth" {
			symxAssert(!seenCall, "C03.authorization-precedes-controller-code")
		}
	}
}

// the same on the project without default security: a method's own @Security guards it although neither its
// controller nor the configuration names any security, and the unsecured sibling is reached without any check
func vhC03ND(engine int) {
	vhProject = 1
	vhC03(engine, false)
	vhProject = 0
}

func vh_C03_nd_gin_Q()   { vhC03ND(0) }
func vh_C03_nd_echo_Q()  { vhC03ND(1) }
func vh_C03_nd_mux_Q()   { vhC03ND(2) }
func vh_C03_nd_chi_Q()   { vhC03ND(3) }
func vh_C03_nd_fiber_Q() { vhC03ND(4) }

func vh_C03_gin_Q()   { vhC03(0, true) }
func vh_C03_echo_Q()  { vhC03(1, true) }
func vh_C03_mux_Q()   { vhC03(2, true) }
func vh_C03_chi_Q()   { vhC03(3, true) }
func vh_C03_fiber_Q() { vhC03(4, true) }

// the generated authorize() on arbitrary alternatives (independent of the fixture's annotations)
func vhC03Kernel(engine int, maxAlts, maxChecks int) {
	nAlts := symxChoice("alts", maxAlts+1)
	var alts [][]runtime.SecurityCheck
	for a := 0; a < nAlts; a++ {
		n := 1 + symxChoice("alt"+string(rune('0'+a))+".n", maxChecks)
		var checks []runtime.SecurityCheck
		for c := 0; c < n; c++ {
			checks = append(checks, runtime.SecurityCheck{SchemaName: "s" + string(rune('0'+a)) + string(rune('0'+c)), Scopes: []string{"r"}})
		}
		alts = append(alts, checks)
	}
	trace.Reset()
	var answers []int
	vhInstallAuthHook(&answers)
	var refused bool
	var status int
	switch engine {
	case 0:
		refused, status = vhAuthorizeGin(alts)
	case 1:
		refused, status = vhAuthorizeEcho(alts)
	case 2:
		refused, status = vhAuthorizeMux(alts)
	case 3:
		refused, status = vhAuthorizeChi(alts)
	default:
		refused, status = vhAuthorizeFiber(alts)
	}
	k := 0
	approved := nAlts == 0
	last := 0
	for _, alt := range alts {
		ok := true
		for range alt {
			if k >= len(answers) {
				symxAssert(false, "C03.kernel.every-check-asked")
				return
			}
			a := answers[k]
			k++
			if a != 0 {
				ok = false
				last = 401
				if a == 2 {
					last = 403
				}
				break
			}
		}
		if ok {
			approved = true
			break
		}
	}
	symxAssert(k == len(answers), "C03.kernel.no-extra-checks")
	if approved {
		symxCover("C03.kernel.approved")
	} else {
		symxCover("C03.kernel.refused")
	}
	symxAssert(refused == !approved, "C03.kernel.approved-iff-some-alternative-fully-approved")
	if !approved {
		symxAssert(status == last, "C03.kernel.status-of-last-refusal")
	}
}

func vh_C03_kernel_gin_Q()   { vhC03Kernel(0, 2, 2) }
func vh_C03_kernel_echo_Q()  { vhC03Kernel(1, 2, 2) }
func vh_C03_kernel_mux_Q()   { vhC03Kernel(2, 2, 2) }
func vh_C03_kernel_chi_Q()   { vhC03Kernel(3, 2, 2) }
func vh_C03_kernel_fiber_Q() { vhC03Kernel(4, 2, 2) }

// thorough tier
func vh_C03_kernel_gin_T()   { vhC03Kernel(0, 3, 3) }
func vh_C03_kernel_echo_T()  { vhC03Kernel(1, 3, 3) }
func vh_C03_kernel_mux_T()   { vhC03Kernel(2, 3, 3) }
func vh_C03_kernel_chi_T()   { vhC03Kernel(3, 3, 3) }
func vh_C03_kernel_fiber_T() { vhC03Kernel(4, 3, 3) }
