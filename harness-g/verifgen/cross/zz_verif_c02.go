package cross

import (
	"github.com/gopher-fleece/runtime"

	"verifgen/greq"
	ndchi "verifgen/nd_chi"
	ndecho "verifgen/nd_echo"
	ndfiber "verifgen/nd_fiber"
	ndgin "verifgen/nd_gin"
	ndmux "verifgen/nd_mux"
	rchi "verifgen/routes_chi"
	recho "verifgen/routes_echo"
	rfiber "verifgen/routes_fiber"
	rgin "verifgen/routes_gin"
	rmux "verifgen/routes_mux"
)

var vhEngines = []string{"gin", "echo", "mux", "chi", "fiber"}

func vhToUrl(engine int, s string) string {
	switch engine {
	case 0:
		return rgin.VhToUrl(s)
	case 1:
		return recho.VhToUrl(s)
	case 2:
		return rmux.VhToUrl(s)
	case 3:
		return rchi.VhToUrl(s)
	}
	return rfiber.VhToUrl(s)
}

// vhProject selects the generated project the route table and handlers come from: 0 the main fixture (api), 1 the
// project without default security (apind)
var vhProject = 0

func vhRoutesND(engine int) []greq.Route {
	switch engine {
	case 0:
		return ndgin.VhRoutes()
	case 1:
		return ndecho.VhRoutes()
	case 2:
		return ndmux.VhRoutes()
	case 3:
		return ndchi.VhRoutes()
	}
	return ndfiber.VhRoutes()
}

func vhRunND(engine, i int, r greq.Req) greq.Resp {
	switch engine {
	case 0:
		return ndgin.VhRun(i, r)
	case 1:
		return ndecho.VhRun(i, r)
	case 2:
		return ndmux.VhRun(i, r)
	case 3:
		return ndchi.VhRun(i, r)
	}
	return ndfiber.VhRun(i, r)
}

func vhRoutes(engine int) []greq.Route {
	if vhProject == 1 {
		return vhRoutesND(engine)
	}
	switch engine {
	case 0:
		return rgin.VhRoutes()
	case 1:
		return recho.VhRoutes()
	case 2:
		return rmux.VhRoutes()
	case 3:
		return rchi.VhRoutes()
	}
	return rfiber.VhRoutes()
}

func vhRun(engine, i int, r greq.Req) greq.Resp {
	if vhProject == 1 {
		return vhRunND(engine, i, r)
	}
	switch engine {
	case 0:
		return rgin.VhRun(i, r)
	case 1:
		return recho.VhRun(i, r)
	case 2:
		return rmux.VhRun(i, r)
	case 3:
		return rchi.VhRun(i, r)
	}
	return rfiber.VhRun(i, r)
}

// the path the OpenAPI document shows for prefix+route (C01): every run of '/' collapsed
func vhDocPath(s string) string {
	out := ""
	prev := false
	for i := 0; i < len(s); i++ {
		if s[i] == '/' {
			if !prev {
				out += "/"
			}
			prev = true
			continue
		}
		prev = false
		out += string(s[i])
	}
	return out
}

// engine template -> OpenAPI template: ":name" -> "{name}" for gin/echo/fiber; mux/chi use {name} already
func vhFromEngineTemplate(engine int, p string) string {
	if engine == 2 || engine == 3 {
		return p
	}
	out := ""
	for i := 0; i < len(p); i++ {
		if p[i] == ':' {
			j := i + 1
			for j < len(p) && p[j] != '/' {
				j++
			}
			out += "{" + p[i+1:j] + "}"
			i = j - 1
			continue
		}
		out += string(p[i])
	}
	return out
}

// C02 kernel: the URL each engine registers for a route text equals the documented path
func vhC02Url(engine int, maxSeg int) {
	// prefix+route as the generator concatenates them
	s := ""
	if symxBool("lead") {
		s = "/"
		if symxBool("lead2") {
			s += "/"
			if symxBool("lead3") {
				s += "/"
			}
		}
	}
	n := symxChoice("nseg", maxSeg+1)
	for i := 0; i < n; i++ {
		if i > 0 {
			s += "/"
			if symxBool("dbl" + string(rune('0'+i))) {
				s += "/"
			}
		}
		if symxBool("param" + string(rune('0'+i))) {
			// parameter names: a letter, optionally followed by a letter, digit, hyphen or underscore
			s += "{" + symxString("p"+string(rune('0'+i)), 1, 1, "xy") + symxString("q"+string(rune('0'+i)), 0, 1, "y2-_") + "}"
		} else {
			s += symxString("l"+string(rune('0'+i)), 1, 1, "ab")
		}
	}
	if symxBool("trail") {
		s += "/"
	}
	symxAssume(s != "")
	doc := vhDocPath(s)
	// a path the spec can show must start with '/': the 3.0 validation rejects others (gate assumption of C01)
	raw := vhToUrl(engine, s)
	got := vhFromEngineTemplate(engine, raw)
	symxRecord("url", s, got)
	if engine != 2 && engine != 3 {
		// gin, echo and fiber know parameters as ":name": a "{name}" left in the registered path is a literal segment
		for i := 0; i < len(raw); i++ {
			symxAssert(raw[i] != '{' && raw[i] != '}', "C02.url.every-parameter-is-registered-in-the-engine's-syntax")
		}
	}
	symxCover("C02.url.compared")
	hasDoubled := false
	for i := 0; i+1 < len(s); i++ {
		if s[i] == '/' && s[i+1] == '/' {
			hasDoubled = true
		}
	}
	tripled := false
	for i := 0; i+2 < len(s); i++ {
		if s[i] == '/' && s[i+1] == '/' && s[i+2] == '/' {
			tripled = true
		}
	}
	if hasDoubled {
		symxCover("C02.url.doubled-slash")
	}
	if tripled {
		symxCover("C02.url.tripled-slash")
	}
	want := doc
	if want[0] != '/' {
		want = "/" + want
	}
	symxAssert(got == want, "C02.url.served-path-equals-documented-path")
}

func vh_C02_url_gin_Q()   { vhC02Url(0, 2) }
func vh_C02_url_echo_Q()  { vhC02Url(1, 2) }
func vh_C02_url_mux_Q()   { vhC02Url(2, 2) }
func vh_C02_url_chi_Q()   { vhC02Url(3, 2) }
func vh_C02_url_fiber_Q() { vhC02Url(4, 2) }

func vhAuthorizeGin(a [][]runtime.SecurityCheck) (bool, int)   { return rgin.VhAuthorize(a) }
func vhAuthorizeEcho(a [][]runtime.SecurityCheck) (bool, int)  { return recho.VhAuthorize(a) }
func vhAuthorizeMux(a [][]runtime.SecurityCheck) (bool, int)   { return rmux.VhAuthorize(a) }
func vhAuthorizeChi(a [][]runtime.SecurityCheck) (bool, int)   { return rchi.VhAuthorize(a) }
func vhAuthorizeFiber(a [][]runtime.SecurityCheck) (bool, int) { return rfiber.VhAuthorize(a) }

// thorough tier
func vh_C02_url_gin_T()   { vhC02Url(0, 3) }
func vh_C02_url_echo_T()  { vhC02Url(1, 3) }
func vh_C02_url_mux_T()   { vhC02Url(2, 3) }
func vh_C02_url_chi_T()   { vhC02Url(3, 3) }
func vh_C02_url_fiber_T() { vhC02Url(4, 3) }
