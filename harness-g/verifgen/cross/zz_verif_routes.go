package cross

import (
	"github.com/gopher-fleece/runtime"

	"verifgen/greq"
	"verifgen/trace"
)

// what the fixture project (api/api.go) annotates: verb, documented path (C01), controller method,
// and the effective security alternatives (method's own, else controller's, else the configured default)
type vhExpected struct {
	method string
	path   string
	name   string
	sec    [][]runtime.SecurityCheck
	valid  greq.Req // a request that satisfies every parameter
}

var vhSecS0 = [][]runtime.SecurityCheck{{{SchemaName: "s0", Scopes: []string{"r"}}}}
var vhSecDefault = [][]runtime.SecurityCheck{{{SchemaName: "sd", Scopes: []string{"d"}}}}

// the second project (apind, no default security, controller without @Security)
func vhFixtureND() []vhExpected {
	return []vhExpected{
		{"GET", "/nd/locked", "OpenController.Locked", [][]runtime.SecurityCheck{{{SchemaName: "s1", Scopes: []string{"w"}}}}, greq.Req{}},
		{"GET", "/nd/free", "OpenController.Free", nil, greq.Req{}},
	}
}

func vhFixture() []vhExpected {
	if vhProject == 1 {
		return vhFixtureND()
	}
	return []vhExpected{
		{"GET", "/api/items/{id}", "ItemsController.GetItem", vhSecS0,
			greq.Req{Path: []greq.KV{{"id", "7"}}, Query: []greq.KV{{"q", "x"}}, Header: []greq.KV{{"x-h", "v"}}}},
		{"POST", "/api/items", "ItemsController.CreateItem",
			[][]runtime.SecurityCheck{{{SchemaName: "s1", Scopes: []string{"w"}}}, {{SchemaName: "s2", Scopes: []string{"w", "x"}}}},
			greq.Req{Body: []byte(`{"name":"n","count":2}`), HasBody: true}},
		{"POST", "/api/form/", "ItemsController.SubmitForm", vhSecS0,
			greq.Req{Form: []greq.KV{{"a", "x"}, {"b", "5"}}}},
		{"GET", "/api/search", "ItemsController.Search", vhSecS0,
			greq.Req{Query: []greq.KV{{"tags", "t1"}, {"tags", "t2"}, {"n", "3"}, {"flag", "true"}}, Header: []greq.KV{{"x-small", "-8"}}}},
		{"GET", "/api/colors", "ItemsController.ByColor", vhSecS0,
			greq.Req{Query: []greq.KV{{"c", "red"}}}},
		{"GET", "/api/ping", "ItemsController.Ping", [][]runtime.SecurityCheck{{{SchemaName: "s3", Scopes: []string{}}}},
			greq.Req{}},
		{"DELETE", "/other/things/{name}", "ThingsController.RemoveThing", vhSecDefault,
			greq.Req{Path: []greq.KV{{"name", "t"}}}},
		{"PUT", "/other/things/{name}", "ThingsController.PutThing", vhSecDefault,
			greq.Req{Path: []greq.KV{{"name", "t"}}, Query: []greq.KV{{"big", "123456789012"}}}},
		{"GET", "/api/scale", "ItemsController.Scale", vhSecS0,
			greq.Req{Query: []greq.KV{{"ratio", "1.5"}}}},
		{"GET", "/api/wide", "ItemsController.Wide", vhSecS0,
			greq.Req{Query: []greq.KV{{"p0", "1"}, {"p1", "1"}, {"p2", "1"}, {"p3", "1"}, {"p4", "1"}, {"p5", "1"}, {"p7", "1"}, {"p9", "x"}}}},
	}
}

// index of the registered route serving exp on the engine, -1 if none or ambiguous
func vhFindRoute(engine int, exp vhExpected) int {
	idx, n := -1, 0
	for i, r := range vhRoutes(engine) {
		if r.Method == exp.method && vhFromEngineTemplate(engine, r.Path) == exp.path {
			idx = i
			n++
		}
	}
	if n != 1 {
		return -1
	}
	return idx
}

func vhCalls() []trace.Event {
	var out []trace.Event
	for _, e := range trace.Events {
		if e.Kind == "call" {
			out = append(out, e)
		}
	}
	return out
}

func vhAuths() []trace.Event {
	var out []trace.Event
	for _, e := range trace.Events {
		if e.Kind == "auth" {
			out = append(out, e)
		}
	}
	return out
}

// C02 (corpus): one handler per annotated method (hidden included) at the documented verb and path;
// a request to it reaches that method of that controller and no other
func vhC02Table(engine int) {
	fixture := vhFixture()
	routes := vhRoutes(engine)
	symxAssert(len(routes) == len(fixture), "C02.table.one-handler-per-annotated-method")
	for _, exp := range fixture {
		i := vhFindRoute(engine, exp)
		symxAssert(i >= 0, "C02.table.served-at-documented-verb-and-path")
		if i < 0 {
			continue
		}
		trace.Reset()
		resp := vhRun(engine, i, exp.valid)
		calls := vhCalls()
		symxCover("C02.table.dispatched")
		symxAssert(len(calls) == 1 && calls[0].Name == exp.name, "C02.table.reaches-that-method-and-no-other")
		symxAssert(resp.Status >= 200 && resp.Status < 300, "C02.table.valid-request-succeeds")
	}
}

func vh_C02_table_gin_Q()   { vhC02Table(0) }
func vh_C02_table_echo_Q()  { vhC02Table(1) }
func vh_C02_table_mux_Q()   { vhC02Table(2) }
func vh_C02_table_chi_Q()   { vhC02Table(3) }
func vh_C02_table_fiber_Q() { vhC02Table(4) }
