package cross

import (
	"math"
	"strconv"
	"verifgen/api"
	"verifgen/greq"
	"verifgen/trace"
)

// ---- reference numerals (Go's strconv contracts for base 10, written from the language spec of a
// "canonical decimal of a value of the declared type")

// optional sign, then 1+ digits; value must fit the signed type of the given width
func vhRefParseInt(s string, bits int) (int64, bool) {
	if len(s) == 0 {
		return 0, false
	}
	neg := false
	i := 0
	if s[0] == '+' || s[0] == '-' {
		neg = s[0] == '-'
		i = 1
	}
	if i == len(s) {
		return 0, false
	}
	var mag uint64
	for ; i < len(s); i++ {
		if s[i] < '0' || s[i] > '9' {
			return 0, false
		}
		d := uint64(s[i] - '0')
		if mag > (1<<63)/10+1 {
			return 0, false
		}
		mag = mag*10 + d
		if mag > 1<<63 {
			return 0, false
		}
	}
	limit := uint64(1) << uint(bits-1)
	if neg {
		if mag > limit {
			return 0, false
		}
		return -int64(mag), true
	}
	if mag > limit-1 {
		return 0, false
	}
	return int64(mag), true
}

// 1+ digits, no sign; value must fit the unsigned type of the given width
func vhRefParseUint(s string, bits int) (uint64, bool) {
	if len(s) == 0 {
		return 0, false
	}
	var v uint64
	for i := 0; i < len(s); i++ {
		if s[i] < '0' || s[i] > '9' {
			return 0, false
		}
		d := uint64(s[i] - '0')
		if v > (^uint64(0))/10 {
			return 0, false
		}
		if v*10 > ^uint64(0)-d {
			return 0, false
		}
		v = v*10 + d
	}
	if bits < 64 && v >= uint64(1)<<uint(bits) {
		return 0, false
	}
	return v, true
}

func vhRefParseBool(s string) (bool, bool) {
	switch s {
	case "1", "t", "T", "TRUE", "true", "True":
		return true, true
	case "0", "f", "F", "FALSE", "false", "False":
		return false, true
	}
	return false, false
}

// a symbolic decimal-ish text: either short and fully symbolic, or a long concrete prefix with a symbolic last digit
func vhNumberText(tag string, shortMax int, alphabet string, longPrefix string, lastDigits string) string {
	if longPrefix != "" && symxBool(tag+".long") {
		return longPrefix + symxString(tag+".last", 1, 1, lastDigits)
	}
	return symxString(tag, 0, shortMax, alphabet)
}

func vhPtrStrEq(p *string, present bool, v string) bool {
	if !present {
		return p == nil
	}
	return p != nil && *p == v
}

// C05: the controller receives, position by position, the value carried at the declared location, converted
// to the declared type; a missing required value or a value that does not convert is answered 422 without a call
func vhC05(engine int, route int, short int) {
	fixture := vhFixture()
	exp := fixture[route]
	i := vhFindRoute(engine, exp)
	symxAssume(i >= 0)
	var req greq.Req
	ok := true
	var check func(args []any) bool
	switch route {
	case 0: // GetItem(id int [path], q *string [query], h string [header x-h])
		id := vhNumberText("id", short, "019-+a", "214748364", "78") // around 2^31: an int is 64 bits wide here
		req.Path = []greq.KV{{"id", id}}
		qPresent := symxBool("q.present")
		q := ""
		if qPresent {
			q = symxString("q", 0, 2, "ab")
			req.Query = append(req.Query, greq.KV{"q", q})
		}
		hPresent := symxBool("h.present")
		h := ""
		if hPresent {
			h = symxString("h", 1, 2, "ab") // an empty header value is C12's subject
			req.Header = append(req.Header, greq.KV{"x-h", h})
		}
		idv, idOK := vhRefParseInt(id, 64)
		ok = idOK && hPresent
		check = func(args []any) bool {
			a0, t0 := args[0].(int)
			a1, t1 := args[1].(*string)
			a2, t2 := args[2].(string)
			return len(args) == 3 && t0 && t1 && t2 && int64(a0) == idv && vhPtrStrEq(a1, qPresent, q) && a2 == h
		}
	case 2: // SubmitForm(a string [form], b *int [form])
		aPresent := symxBool("a.present")
		a := ""
		if aPresent {
			a = symxString("a", 0, 2, "ab")
			req.Form = append(req.Form, greq.KV{"a", a})
		}
		bPresent := symxBool("b.present")
		b := ""
		if bPresent {
			b = vhNumberText("b", short, "019-+", "", "")
			req.Form = append(req.Form, greq.KV{"b", b})
		}
		// a value under a form field's name in the URL query is not a form field: it binds nothing
		if symxBool("a.alsoInQuery") {
			req.Query = append(req.Query, greq.KV{"a", "zz"})
		}
		if symxBool("b.alsoInQuery") {
			req.Query = append(req.Query, greq.KV{"b", "7"})
		}
		bv, bOK := vhRefParseInt(b, 64)
		ok = aPresent && (!bPresent || bOK)
		check = func(args []any) bool {
			a0, t0 := args[0].(string)
			a1, t1 := args[1].(*int)
			if !(len(args) == 2 && t0 && t1 && a0 == a) {
				return false
			}
			if !bPresent {
				return a1 == nil
			}
			return a1 != nil && int64(*a1) == bv
		}
	case 3: // Search(tags []string [query], n uint [query], flag bool [query], small *int8 [header x-small])
		nTags := symxChoice("tags.n", 3)
		var tags []string
		for k := 0; k < nTags; k++ {
			t := symxString("tag"+string(rune('0'+k)), 1, 1, "ab")
			tags = append(tags, t)
			req.Query = append(req.Query, greq.KV{"tags", t})
		}
		n := vhNumberText("n", short, "019-+", "429496729", "56") // around 2^32 = 4294967296
		req.Query = append(req.Query, greq.KV{"n", n})
		flag := []string{"true", "false", "1", "0", "t", "T", "TRUE", "False", "yes", "2", ""}[symxChoice("flag", 11)]
		req.Query = append(req.Query, greq.KV{"flag", flag})
		smallPresent := symxBool("small.present")
		small := ""
		if smallPresent {
			small = symxString("small", 1, short+1, "0129-")
			req.Header = append(req.Header, greq.KV{"x-small", small})
		}
		nv, nOK := vhRefParseUint(n, 64) // Go's uint is 64 bits wide on the supported platforms
		fv, fOK := vhRefParseBool(flag)
		sv, sOK := vhRefParseInt(small, 8)
		ok = nTags > 0 && nOK && fOK && (!smallPresent || sOK)
		check = func(args []any) bool {
			a0, t0 := args[0].([]string)
			a1, t1 := args[1].(uint)
			a2, t2 := args[2].(bool)
			a3, t3 := args[3].(*int8)
			if !(len(args) == 4 && t0 && t1 && t2 && t3 && len(a0) == len(tags) && uint64(a1) == nv && a2 == fv) {
				return false
			}
			for k := range tags {
				if a0[k] != tags[k] {
					return false
				}
			}
			if !smallPresent {
				return a3 == nil
			}
			return a3 != nil && int64(*a3) == sv
		}
	case 4: // ByColor(ctx, color Color [query c])
		cPresent := symxBool("c.present")
		c := ""
		if cPresent {
			c = symxString("c", 0, 3, "redx")
			req.Query = append(req.Query, greq.KV{"c", c})
		}
		ok = cPresent
		check = func(args []any) bool {
			hasCtx, t0 := args[0].(bool)
			col, t1 := args[1].(api.Color)
			return len(args) == 2 && t0 && t1 && hasCtx && string(col) == c
		}
	case 7: // PutThing(key string [path name], big int64 [query])
		name := symxString("name", 1, 2, "ab")
		req.Path = []greq.KV{{"name", name}}
		big := vhNumberText("big", short, "019-+", "922337203685477580", "789") // around 2^63-1 = 9223372036854775807
		req.Query = append(req.Query, greq.KV{"big", big})
		bv, bOK := vhRefParseInt(big, 64)
		ok = bOK
		check = func(args []any) bool {
			a0, t0 := args[0].(string)
			a1, t1 := args[1].(int64)
			return len(args) == 2 && t0 && t1 && a0 == name && a1 == bv
		}
	case 8: // Scale(ratio float32 [query], factor *float64 [query]): concrete texts around the edges of both widths
		ratios := []string{"1.5", "-0", "1e39", "-1e39", "3.4028235e38", "3.5e38", "1e400", "abc", "", "1e-50", "7"}
		ratio := ratios[symxChoice("ratio", len(ratios))]
		req.Query = append(req.Query, greq.KV{"ratio", ratio})
		factors := []string{"2.5", "1e400", "x", "-3"}
		fk := symxChoice("factor", len(factors)+1)
		fPresent := fk < len(factors)
		factor := ""
		if fPresent {
			factor = factors[fk]
			req.Query = append(req.Query, greq.KV{"factor", factor})
		}
		// reference: the value is representable in the declared width (strconv's own verdict for that width)
		r64, rErr := strconv.ParseFloat(ratio, 32)
		f64, fErr := strconv.ParseFloat(factor, 64)
		ok = rErr == nil && (!fPresent || fErr == nil)
		check = func(args []any) bool {
			a0, t0 := args[0].(float32)
			a1, t1 := args[1].(*float64)
			if len(args) != 2 || !t0 || !t1 || math.Float32bits(a0) != math.Float32bits(float32(r64)) {
				return false
			}
			if !fPresent {
				return a1 == nil
			}
			return a1 != nil && math.Float64bits(*a1) == math.Float64bits(f64)
		}
	case 9: // Wide(p0 int16, p1 int32, p2 uint8, p3 uint16, p4 uint32, p5 uint64, p6 *bool, p7 []int, p8 *Color, p9 ID): one parameter varies
		ints := []string{"0", "-1", "127", "128", "255", "256", "-129", "32767", "32768", "-32769", "65535", "65536", "2147483647", "2147483648", "-2147483649",
			"4294967295", "4294967296", "18446744073709551615", "18446744073709551616", "abc", "", "1.0", "+5", "0x10", " 7"}
		bools := []string{"true", "false", "1", "0", "T", "yes", "", "TRUE", "tRuE"}
		which := symxChoice("which", 8)
		text := ""
		present := true
		for k := 0; k < 10; k++ {
			key := "p" + string(rune('0'+k))
			if k != which {
				switch k {
				case 6, 8:
				case 9:
					req.Query = append(req.Query, greq.KV{key, "x"})
				default:
					req.Query = append(req.Query, greq.KV{key, "1"})
				}
				continue
			}
			cands := ints
			if k == 6 {
				cands = bools
			}
			c := symxChoice("value", len(cands)+1)
			if c == len(cands) {
				present = false
				continue
			}
			text = cands[c]
			req.Query = append(req.Query, greq.KV{key, text})
		}
		// reference: strconv's verdict for the declared width (base 10)
		var want any
		switch which {
		case 0, 1:
			bits := []int{16, 32}[which]
			v, err := strconv.ParseInt(text, 10, bits)
			ok = present && err == nil
			if which == 0 {
				want = int16(v)
			} else {
				want = int32(v)
			}
		case 2, 3, 4, 5:
			bits := []int{8, 16, 32, 64}[which-2]
			v, err := strconv.ParseUint(text, 10, bits)
			ok = present && err == nil
			want = []any{uint8(v), uint16(v), uint32(v), v}[which-2]
		case 6:
			v, err := strconv.ParseBool(text)
			ok = !present || err == nil
			if present {
				want = &v
			} else {
				want = (*bool)(nil)
			}
		case 7:
			v, err := strconv.ParseInt(text, 10, 64)
			ok = present && err == nil // a slice is not a pointer: the parameter is required
			want = []int{int(v)}
		}
		check = func(args []any) bool {
			return len(args) == 10 && vhSameArg(want, args[which])
		}
	default:
		symxAssume(false)
	}
	vhAddDecoys(&req)
	trace.Reset()
	resp := vhRun(engine, i, req)
	calls := vhCalls()
	if ok {
		symxCover("C05.bound")
		symxAssert(len(calls) == 1 && calls[0].Name == exp.name, "C05.valid-request-invokes-the-method-once")
		if len(calls) == 1 {
			symxAssert(check(calls[0].Args), "C05.arguments-are-the-request's-values-converted")
		}
		symxAssert(resp.Status >= 200 && resp.Status < 300, "C05.valid-request-succeeds")
	} else {
		symxCover("C05.rejected")
		symxAssert(len(calls) == 0, "C05.invalid-request-never-invokes-the-method")
		symxAssert(resp.Status == 422, "C05.invalid-request-answered-422")
	}
}

func vhC05All(engine int, short int) {
	vhC05(engine, []int{0, 2, 3, 4, 7}[symxChoice("route", 5)], short)
}

// floating point parameters (concrete candidate texts; the widths are what is checked)
func vh_C05_floats_Q() { vhC05(symxChoice("engine", 5), 8, 0) }

// sized integers, *bool and []int (one parameter varies over concrete candidate texts; strconv's verdict for the
// declared width is the reference)
func vh_C05_wide_Q() { vhC05(symxChoice("engine", 5), 9, 0) }

func vh_C05_gin_Q()   { vhC05All(0, 2) }
func vh_C05_echo_Q()  { vhC05All(1, 2) }
func vh_C05_mux_Q()   { vhC05All(2, 2) }
func vh_C05_chi_Q()   { vhC05All(3, 2) }
func vh_C05_fiber_Q() { vhC05All(4, 2) }
func vh_C05_gin_T()   { vhC05All(0, 3) }
func vh_C05_echo_T()  { vhC05All(1, 3) }
func vh_C05_mux_T()   { vhC05All(2, 3) }
func vh_C05_chi_T()   { vhC05All(3, 3) }
func vh_C05_fiber_T() { vhC05All(4, 3) }

// vhAddDecoys optionally plants, for every wire name the request uses, a different value under the same
// name in each *other* location: a parameter must be bound from its declared location only
func vhAddDecoys(r *greq.Req) {
	if !symxBool("decoys") {
		return
	}
	symxCover("C05.decoys")
	var names []string
	seen := func(n string) bool {
		for _, x := range names {
			if x == n {
				return true
			}
		}
		return false
	}
	for _, group := range [][]greq.KV{r.Query, r.Header, r.Form} {
		for _, kv := range group {
			if !seen(kv.Key) {
				names = append(names, kv.Key)
			}
		}
	}
	// names that the route declares but the request omitted must be covered too
	for _, n := range []string{"q", "x-h", "a", "b", "n", "flag", "tags", "x-small", "c", "big"} {
		if !seen(n) {
			names = append(names, n)
		}
	}
	has := func(group []greq.KV, n string) bool {
		for _, kv := range group {
			if kv.Key == n {
				return true
			}
		}
		return false
	}
	q, h, f := r.Query, r.Header, r.Form
	for _, n := range names {
		inQ, inH, inF := has(q, n), has(h, n), has(f, n)
		// a name that is absent from its own location is planted in the others (and vice versa)
		if !inQ && (inH || inF || true) && !vhDeclaredIn(n, "query") {
			r.Query = append(r.Query, greq.KV{Key: n, Value: "77"})
		}
		if !inH && !vhDeclaredIn(n, "header") {
			r.Header = append(r.Header, greq.KV{Key: n, Value: "77"})
		}
		if !inF && !vhDeclaredIn(n, "form") {
			r.Form = append(r.Form, greq.KV{Key: n, Value: "77"})
		}
	}
}

// where the fixture declares each wire name
func vhDeclaredIn(name, loc string) bool {
	switch name {
	case "q", "n", "flag", "tags", "c", "big":
		return loc == "query"
	case "x-h", "x-small":
		return loc == "header"
	case "a", "b":
		return loc == "form"
	}
	return false
}
