package cross

import (
	"encoding/json"

	"github.com/gopher-fleece/runtime"

	"verifgen/specdata"
)

// C04 end to end on the second fixture project: the security the CLI documents for an operation (in the 3.0 and in
// the 3.1 file it wrote) is the fixture's effective security - which is what the five routers enforce (vh_C03_nd_*).
type vhSpecDoc struct {
	Openapi string `json:"openapi"`
	Paths   map[string]map[string]struct {
		OperationId string                `json:"operationId"`
		Security    []map[string][]string `json:"security"`
	} `json:"paths"`
}

func vhC04Spec(text, version string) {
	var doc vhSpecDoc
	symxAssert(json.Unmarshal([]byte(text), &doc) == nil, "C04.spec.document-parses")
	symxAssert(doc.Openapi == version, "C04.spec.version")
	fixture := vhFixtureND()
	exp := fixture[symxChoice("route", len(fixture))]
	item, ok := doc.Paths[exp.path]
	symxAssert(ok, "C04.spec.route-is-documented")
	if !ok {
		return
	}
	verb := map[string]string{"GET": "get", "POST": "post", "PUT": "put", "DELETE": "delete"}[exp.method]
	op, ok := item[verb]
	symxAssert(ok, "C04.spec.route-is-documented")
	if !ok {
		return
	}
	symxCover("C04.spec.compared")
	symxAssert(len(op.Security) == len(exp.sec), "C04.spec.documented-alternatives-equal-enforced-alternatives")
	for i, alt := range op.Security {
		if i >= len(exp.sec) {
			break
		}
		var checks []runtime.SecurityCheck = exp.sec[i]
		symxAssert(len(alt) == len(checks), "C04.spec.documented-alternative")
		for _, c := range checks {
			scopes, has := alt[c.SchemaName]
			same := has && len(scopes) == len(c.Scopes)
			for k := 0; same && k < len(scopes); k++ {
				same = scopes[k] == c.Scopes[k]
			}
			symxAssert(same, "C04.spec.documented-scheme-and-scopes")
		}
	}
}

func vh_C04_spec30_matches_enforced_Q() { vhC04Spec(specdata.Spec30, "3.0.0") }
func vh_C04_spec31_matches_enforced_Q() { vhC04Spec(specdata.Spec31, "3.1.0") }
