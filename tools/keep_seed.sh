#!/bin/bash
# tools/keep_seed.sh <worktree> <seed-id> <property> "<needs>"  : confirm a seeded change and store it under /verif/seeded/<seed-id>/
set -u
WT="$1"; ID="$2"; PROP="$3"; NEEDS="$4"
export GOFLAGS=-mod=mod GOPROXY=off
cd "$WT" || exit 2
DEMO=$(git status --porcelain | grep "zz_seeded_demo" | awk '{print $2}' | head -1)
[ -f patch.diff ] || { echo "no patch.diff"; exit 2; }
[ -n "$DEMO" ] || { echo "no demo file"; exit 2; }
PKG="./$(dirname "$DEMO")/"
OUT=/verif/seeded/$ID; mkdir -p "$OUT"
LOG="$OUT/confirm.log"; : > "$LOG"
# 1. state = change applied? make sure
git apply --check -R patch.diff 2>/dev/null || git apply patch.diff
go build ./... >>"$LOG" 2>&1 || { echo "BUILD FAILS"; exit 1; }
echo "== demo with change (must fail)" >>"$LOG"
if go test -vet=off -count=1 -run 'Seeded|seeded|Demo' "$PKG" >>"$LOG" 2>&1; then echo "DEMO PASSES WITH CHANGE"; exit 1; fi
echo "== existing suite with change (demo moved away)" >>"$LOG"
mv "$DEMO" /tmp/zz_demo_$$.go
go test -vet=off -count=1 -timeout 25m ./... > "$OUT/suite_with_change.log" 2>&1
git checkout -- e2e 2>/dev/null
FAILS=$(grep -E "^--- FAIL" "$OUT/suite_with_change.log" | sort | tr '\n' ' ')
echo "suite failures with change: $FAILS" >>"$LOG"
mv /tmp/zz_demo_$$.go "$DEMO"
echo "== demo without change (must pass)" >>"$LOG"
git apply -R patch.diff
if ! go test -vet=off -count=1 -run 'Seeded|seeded|Demo' "$PKG" >>"$LOG" 2>&1; then echo "DEMO FAILS ON PRISTINE"; git apply patch.diff; exit 1; fi
git apply patch.diff
cp patch.diff "$OUT/patch.diff"; git status --porcelain | grep "^??" | awk "{print \$2}" | grep -v "^patch.diff$" | while read f; do mkdir -p "$OUT/demo/$(dirname "$f")"; cp -r "$f" "$OUT/demo/$f"; done
python3 - "$OUT" "$ID" "$PROP" "$NEEDS" "$DEMO" "$FAILS" <<'PY'
import json,sys
out,id_,prop,needs,demo,fails=sys.argv[1:7]
json.dump({"id":id_,"breaks_property":prop,"needs_to_manifest":needs,"demo_file":demo,
 "demo_cmd":"go test -vet=off -count=1 -run 'Seeded|seeded|Demo' ./"+demo.rsplit('/',1)[0]+"/",
 "confirmed":["go build ./... succeeds with the change","demo fails with the change, passes on the pristine tree","full suite with the change: failing tests = "+fails.strip()+" (the two always-failing baseline tests only)" ],
 "ran":"tools/keep_seed.sh (see confirm.log, suite_with_change.log)"},open(out+"/meta.json","w"),indent=1)
PY
echo "KEPT $ID: suite failures: $FAILS"
