#!/bin/bash
# tools/stageg_prepare.sh <dir> : build the gleece CLI from /repo's working tree (or $VERIF_REPO, used only by tools/try_seed.sh), copy the stage-G fixture
# project and generate its routers for all five engines into <dir>/project/routes_<engine>.
set -eu
DIR="$1"
export GOFLAGS=-mod=mod GOPROXY=off
mkdir -p "$DIR"
cp -r /verif/fixtures/stageg/. "$DIR/"
(cd "${VERIF_REPO:-/repo}" && go build -o "$DIR/gleece" .)
cd "$DIR/project"
for e in gin echo mux chi fiber; do
  for c in gleece.$e.json gleece.$e.nd.json; do
    if ! "$DIR/gleece" generate routes --config $c > "$DIR/generate.$e.log" 2>&1; then
      echo "route generation failed for $c" >&2; tail -20 "$DIR/generate.$e.log" >&2; exit 2
    fi
  done
done
go build ./... 
