#!/bin/bash
# tools/try_seed.sh <patch.diff> <property-id> [tier] [harness-regexp]
# Runs a check against a scratch worktree of /repo with a seeded change applied (/repo itself is not touched, so
# checks running against /repo at the same time are not disturbed); the worktree is removed afterwards.
set -u
PATCH="$(readlink -f "$1")"; PROP="$2"; TIER="${3:-quick}"; HARNESS="${4:-}"
WT="$(mktemp -d /tmp/seedrepo-XXXXXX)"; rmdir "$WT"
git -C /repo worktree add --detach "$WT" HEAD -q || exit 2
trap 'git -C /repo worktree remove --force "$WT" 2>/dev/null; git -C /repo worktree prune' EXIT
git -C "$WT" apply "$PATCH" || { echo "patch does not apply" >&2; exit 2; }
EXTRA="--no-evidence"
[ -n "$HARNESS" ] && EXTRA="$EXTRA --harness $HARNESS"
cd /verif && VERIF_REPO="$WT" VERIF_EXTRA_ARGS="$EXTRA" ./check "$PROP" "$TIER" 2>&1 | cut -c1-500 | grep -E "^(VIOLATION|KNOWN|INCONCLUSIVE|property|harness)" | head -20
