#!/bin/bash
# tools/try_seed.sh <patch.diff> <property-id> [tier]   apply a seeded change to /repo, run the check, undo it
set -u
PATCH="$1"; PROP="$2"; TIER="${3:-quick}"
cd /repo || exit 2
if [ -n "$(git status --porcelain)" ]; then echo "/repo not clean" >&2; git status --short | head; exit 2; fi
git apply "$PATCH" || { echo "patch does not apply" >&2; exit 2; }
(cd /verif && bin/gosym run --property "$PROP" --tier "$TIER" --no-evidence 2>&1 | cut -c1-500 | grep -E "^(VIOLATION|KNOWN|INCONCLUSIVE|property|harness)" | head -20)
git checkout -- . 
git status --short | head -3
