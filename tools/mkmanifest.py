#!/usr/bin/env python3
"""Regenerates /verif/MANIFEST.json from the table below (edit here, not the JSON)."""
import json, os
HERE = os.path.dirname(os.path.dirname(os.path.abspath(__file__)))

BASELINE_OFF = ("cd /repo && export GOFLAGS=-mod=mod GOPROXY=off && go build ./... && "
                "go test -vet=off -count=1 -timeout 25m ./...")

TECH = ("bounded symbolic execution of the real go/ssa code (gosym) with SMT (z3 QF_BV, verdicts "
        "cross-checked on cvc5), counterexamples replayed natively")

FRONT = (" (front end: source text parsed by go/parser, type-checked by go/types and walked by the real visitors inside the engine, "
         "then GleecePipeline.Run and both emitters; DESIGN.md 9.7)")

# id -> (level text, level note, design ref)
CLAIMS = {
 "C01": ("For symbolic flat IR (1 controller x 1 route with rich slash structure in prefix and route; 2 controllers x 1 route and 1 controller x 2 routes with plain shapes; verb, hidden, deprecated symbolic) "
         "the in-memory documents produced by the real swagen30 and swagen31 GenerateControllersSpec contain an operation at (path, verb) iff a visible route normalises there (reference byte-loop normaliser); "
         "unique operations carry the route's operationId, its own controller's tag and deprecated flag; hidden routes never contribute; nothing else is documented. "
         "(front end) for a source file with two controller structs, a plain struct and a free function, every subset of annotated and of hidden methods, pointer/value/anonymous receivers and with or without the second struct embedding GleeceController, the operations of both documents are exactly the annotated, non-hidden methods of the embedding structs at prefix + route"+FRONT+". "
         "(annotation side) for symbolic @Method/@Route/@Hidden/@Deprecated/@Tag annotations the real ControllerMeta.Reduce yields a route with exactly that verb, path, hiding, deprecation and tag, and both documents show or hide it accordingly.",
         "Bounds as coded in harness/.../generator/swagen/zz_verif_c01.go. Gate assumption: routes whose templates differ only in parameter names are excluded (kin-openapi validation rejects them: 'conflicting paths', so no document is emitted). "
         "Outside: go/packages loading itself, JSON encoding of the in-memory document.",
         "DESIGN.md 4 (C01)"),
 "C02": ("Generated routers (real templates, rendered by the CLI built from /repo for a fixture project, all five engines): (kernel, symbolic) for every route text of up to 2 segments (literal or {param}) with up to three leading slashes, doubled inner slashes and a trailing slash, parameter names of a letter optionally followed by a letter, digit, hyphen or underscore, "
         "the generated toGinUrl/toEchoUrl/toMuxUrl/toChiUrl/toFiberUrl register exactly the path the spec documents (every slash run collapsed, leading slash; ':x' <-> '{x}', no '{name}' left unconverted on gin/echo/fiber); (corpus) the registration table of each engine is in bijection with the fixture's 7 annotated methods (hidden one included) at the documented verb and path, "
         "and a valid request to each reaches that method of that controller and no other.",
         "Second part of the check (rendering side, harness/.../generator/routes/zz_verif_c02.go: vh_C02_front_registration_Q): for projects of two annotated methods on one or two controllers, five verbs, each method hidden or not, the router rendered by the real generator (interpreted, all five engines, natively replayed) registers - read off the syntax tree of the generated RegisterRoutes - exactly one handler per annotated method, hidden ones included, under the method's verb at controller prefix + route, instantiating that controller and calling that method. Bounds as coded in harness-g/verifgen/cross/zz_verif_c02.go, zz_verif_routes.go. The project dimension is a fixed fixture (fixtures/stageg/project): the generated code of that fixture is what runs here (the rendering itself, over varying projects, is C09's subject). The generated code runs against stand-in framework packages (fixtures/stageg/stubs) that implement the documented behaviour of the accessors the templates call; the frameworks' own request matching is outside.",
         "DESIGN.md 4 (C02, stage G)"),
 "C03": ("For every engine, every fixture route and every behaviour of the user's authorization callback (approve / refuse / refuse with custom payload per call, symbolic), with a valid or an all-parameters-missing request: the callback is asked exactly the checks of the route's effective alternatives (own, else controller's, else configured default) in order, "
         "the controller is invoked only after some alternative was approved in full, a refused request never reaches the controller and is answered with the last refusal's status (and custom payload); plus the generated authorize() on arbitrary lists of up to 2 alternatives x 2 checks; the same on a second generated project without default security whose controller carries no @Security (a method's own @Security still guards it, the unsecured sibling is served without any check).",
         "Second part of the check (rendering side, harness/.../generator/routes/zz_verif_c03.go: vh_C03_front_effective_security_Q): for a project whose method carries none, one or two @Security annotations (0-2 scopes), whose controller does or does not carry one and with or without a configured default, every handler rendered by the real generator (interpreted, five engines, natively replayed) begins with the authorize call listing exactly the effective alternatives (own, else controller's, else default, else none) with their scheme names and scopes, returns on refusal, and constructs the controller only afterwards (read off the syntax tree of the generated file). Bounds as coded in harness-g/verifgen/cross/zz_verif_c03.go. Same fixture/stub caveats as C02. User-supplied template extensions/middlewares are not part of the fixture.",
         "DESIGN.md 4 (C03, stage G)"),
 "C05": ("For every engine and 5 fixture routes covering path/query/header/form locations, int/uint/int64/int8/bool/string/[]string/enum/pointer/context parameters: for every symbolic request (presence bits, values of up to 2 (thorough 3) bytes over digits, signs and letters, plus numerals around 2^32 and 2^63) "
         "the controller receives position by position the value at the declared location converted to the declared type (reference numeral parsers written from the type's range; numerals around 2^31 for int, 2^32 for uint, 2^63 for int64), a missing non-pointer/path parameter or a non-convertible value is answered 422 without invoking the method, missing pointer parameters arrive as nil, context parameters are non-nil.",
         "Second part of the check (rendering side, harness/.../generator/routes/zz_verif_c09.go: vh_C05_front_validation_rules_Q): for 8 validation rules incl. quotes, angle brackets, ampersand and backslash on a query, header or body parameter, the handler rendered by the real generator (interpreted, all five engines, natively replayed) hands the validator exactly the declared rule text. Bounds as coded in harness-g/verifgen/cross/zz_verif_c05.go. strconv is interpreted from source. float32/float64 parameters on concrete candidate texts around the edges of both widths (strconv's verdict for the declared width is the reference). Outside: go-playground validator rules other than `required` (stub), JSON body decoding beyond the cases of C12, percent-decoding and header canonicalisation inside the real frameworks.",
         "DESIGN.md 4 (C05, stage G)"),
 "C12": ("For each of the 9 fixture routes (floating point parameters on concrete candidate texts), one shared symbolic request (every location absent/empty/malformed/valid), shared callback answers and shared controller outcome (value or error) are run through the five generated handlers inside one path: same controller method with equal arguments (or none), same status, same JSON body as the gin router. "
         "One recorded finding (fiber treats an empty header value as absent) is reported as KNOWN-FINDING.",
         "Bounds as coded in harness-g/verifgen/cross/zz_verif_c12.go. Bodies are compared through encoding/json (engine: a type-directed JSON model; natively: the real package). Same fixture/stub caveats as C02.",
         "DESIGN.md 4 (C12, stage G)"),
 "C04": ("For 0-1 (thorough 0-2) controller-level and 0-2 method-level @Security annotations over 3 declared-or-not scheme names plus an undeclared one, 0-2 symbolic scopes, optional default security: "
         "the real ControllerMeta/ReceiverMeta.Reduce yields method-else-controller-else-default alternatives; both emitters document exactly those alternatives (scheme, scopes, order); every named scheme is declared under components.securitySchemes as configured; "
         "an undeclared scheme makes both GenerateControllersSpec fail with no operation; validateSecurity rejects iff enforceSecurityOnAllRoutes and the route has no effective security. "
         "Front end: @Security comments on controller and method (with and without scopes, two alternatives, hidden route), default security and the enforce flag, through the real visitors and pipeline. "
         "End to end (second part of the check, generated code): the security the CLI built from /repo documents in the 3.0 and 3.1 files it writes for the second fixture project equals the fixture's effective security, which vh_C03_nd_* shows the five routers enforce.",
         "Bounds as coded in harness/.../generator/swagen/zz_verif_c04.go and core/validators/zz_verif_c10.go. annotations.GetCastProperty (reflection) is modelled by an engine intrinsic with its documented contract; the router side (SecurityCheckList) is C03.",
         "DESIGN.md 4 (C04)"),
 "C07": ("Emitter half: for a model list of two structs (one with up to 2 symbolic fields over 9 (thorough 11) type shapes incl. slices, maps, enum, alias, other struct, embedded struct, time, bytes; symbolic json tag and validate tag), an enum with 1-2 symbolic values and an alias, "
         "both GenerateModelsSpec produce exactly one component per model; properties are the JSON-visible fields with mapped type or $ref, required = fields validated as required, embedded structs via allOf, enum lists its constants, alias maps to its primitive; "
         "metamorphic non-interference: every other component is structurally identical whether or not the using struct carries usage-site validators; every $ref names an existing component; 3.0 and 3.1 components agree. "
         "Front end: for a struct with two fields over 14 type shapes (named struct, pointer, slice, slice of slice, map, string/int enum, alias, self reference, time.Time, []byte, string, struct of another package and slice of pointers to it), used as body, element or return type, the components of both documents are exactly the types reachable from the route; properties are the JSON-visible fields (unexported and json:\"-\" fields are not), required lists the validated fields, the embedded struct appears via allOf, string and integer enums list their exported and unexported constants, the alias maps to string, a struct of another package and the enum it uses there are components too. "
         "Visitor half (enum values): for a hand-built go/types package with an enum type (string or int) and every subset of four constants (exported and unexported names) typed as the enum, another named type or the plain basic type, EnumVisitor.getEnumValueDefinitions returns exactly the constants of the enum's type with their declared values.",
         "Bounds as coded in harness/.../generator/swagen/zz_verif_c07.go. Outside: reachability closure over Go type graphs (go/types visitors; only the enum-constant collection is driven, on hand-built packages), json:\"-\" filtering (done by the struct visitor), RFC-7807 model injection (AppendErrorSchema is a literal).",
         "DESIGN.md 4 (C07)"),
 "C08": ("(gate) swagen.GenerateAndOutputSpec / GenerateSpec / both GenerateSpec run with the 3.0 validator, the 3.1 renderer, libopenapi.NewDocument, the 3.1 validator, os.MkdirAll and os.WriteFile replaced by nondeterministic stubs (every combination of success and failure, three openapi versions): "
         "the file is written at most once, only after the 3.0 validation - which always runs - and every step of the selected version succeeded, with the selected version's bytes; any failure or an unsupported version is an error and writes nothing. "
         "(real validator) with kin-openapi's Validate itself interpreted from source instead of the stand-in: whatever swagen30.GenerateSpec returns for two routes whose templates coincide, differ only in a parameter name or are unrelated has, per operation, path parameters equal to the template names, all required and unique, and a description on every response; and for parameter/return/field types with and without components every $ref of the returned document resolves. "
         "(model enums) components of enum types of five basic kinds list every value (two recorded findings: values written as text in 3.0, untagged in 3.1). "
         "(reference closure) for routes whose parameter (body/query/form), return and error types and whose model field range over declared, undeclared and nested (slice, map, slice of slice) type names, every $ref of the 3.0 document resolves to a component or is left unresolved (nil value) - which the always-executed 3.0 validation rejects - and the 3.1 document references nothing the 3.0 document does not. (closure facts) enum values put on a schema by enum=/oneof= rules are of the schema's declared type in both dialects (symbolic rule values); every $ref names an existing component (C07 harness); every response has a description (C06 harness); path-template/parameter correspondence is enforced by the always-executed kin-openapi validation (trusted).",
         "Bounds as coded in harness/.../generator/swagen/zz_verif_c08.go. The gate harness is engine-only: injected library/OS faults cannot be reproduced by a native run, so its counterexamples are re-executed concretely inside the engine instead. Enum value kinds in 3.1 are judged the way YAML resolves untagged scalars (model checked against the yaml library on every native replay). Outside: the validity judgement of libopenapi-validator (stand-in) and of kin-openapi beyond what the two real-validator harnesses exercise and the JSON encoders (trusted libraries); info/servers copying (inside GenerateSpec, between stubs) is not asserted.",
         "DESIGN.md 4 (C08)"),
 "C10": ("Receiver-level accept decision (CommonValidator + validateParams + annotation linker, as ReceiverValidator.Validate combines them) for every route with <=1 URL name, <=2 function parameters (primitive or struct, optional context), <=2 parameter annotations "
         "of the five kinds with symbolic values and optional name alias: no error diagnostic iff the property's linking/body/form/primitive rules hold (soundness and completeness asserted separately); return signature and verb rules; no duplicate diagnostics. "
         "Front end: 5184 perturbed source files (unsupported or missing verb, URL name / @Path reference / @Query reference retargeted or dropped, struct or slice query parameter, four return shapes, indentation, multibyte text) are accepted by GleecePipeline.Run iff the property's predicate holds (a method without @Method is not an endpoint); slices and arrays are accepted in the query only (4 types x 4 locations); a URL parameter at the very start of a route without leading slash is linked like any other (4 route shapes x 4 bindings). "
         "One recorded finding (alias-less @Path not checked against URL names) is reported as KNOWN-FINDING.",
         "Bounds as coded in harness/.../core/validators/zz_verif_c10.go. Outside: error-embedding lookup of the return type (go/types), controller-prefix URL names, slices/enums/aliases as parameter types (HIR shapes produced by the visitors), generics and cross-package parameter types.",
         "DESIGN.md 4 (C10)"),
 "C06": ("(a) Requiredness kernel: for every validator string up to 9 (thorough 12) bytes over the tag alphabet, pointer-ness and location, appendParamRequiredValidation + IsFieldRequired agree with the property's rule. "
         "(b) Documents: for routes with up to 2 parameters (context or one of 5 locations, symbolic wire name, 5 type shapes, 4 validators) and, separately, symbolic return shape / success code / 0-2 error codes / error type, "
         "both emitters document exactly the non-context path/query/header parameters in signature order (name, location, required, schema), the JSON body or the urlencoded form object with its required entries, "
         "the success response with the value schema or no content, each error code with the error schema (RFC-7807 for plain error), and a description on every response; 3.0 and 3.1 agree (one recorded 3.0-only `default` response). "
         "(d) Front end: for a real method declaration with context, path, query/header, header and body parameters - every combination of pointer-ness, location, `validate:\"required\"`, grouped or separate declaration, four return shapes (value+error, error, string+error, value+custom error type), with or without @Response and @ErrorResponse - both documents carry the contract the property states (signature order, required rule, body requiredness, success code and schema, error schema, no context parameter). "
         "(e) Front end, second shape: path parameter bound by name or by a hyphenated alias, query parameter of slice/enum/alias/int64/bool type under a wire-name alias, two form fields (pointer-ness and validate:required symbolic): wire names, schemas, one urlencoded object body, its required list, 204 without content. "
         "(c) Signature order: for 2-4 parameters under every grouping of the declaration (ordinals numbered as AstArbitrator.GetFuncParametersMeta numbers them, which collide for groups), ReceiverMeta.Reduce keeps the parameters in declaration order.",
         "Bounds as coded in harness/.../core/metadata/zz_verif_c06.go and generator/swagen/zz_verif_c06.go. Routes are assumed accepted (at most one body, never body with form; unique wire names per location). Outside: how TypeMeta is derived from Go types.",
         "DESIGN.md 4 (C06)"),
 "C11": ("Dialect agreement, decided on shared symbolic inputs inside one path: (kernel) for every validation string of up to 2 rules from the converters' vocabulary (or a junk rule) with symbolic values of up to 2 bytes, on 6 field types, "
         "BuildSchemaValidation (3.0) and BuildSchemaValidationV31 yield the same format, pattern, numeric bounds with exclusivity, length and item bounds, uniqueItems and enum value lists after dialect translation; "
         "(documents) the C01 and C04 harnesses run both emitters on the same symbolic flat IR and assert the same operations, operationIds, tags, deprecated flags and security for both; "
         "(paths) both documents show the route at the same normalised path for every slash structure of prefix and route (up to 2 segments each); (components) through the front end, the component of every reachable type agrees field by field for 14 field type shapes; "
         "(operations) for routes with symbolic parameters (location, type, validator) and symbolic return shape / success code / 0-2 error codes - including an error code equal to the success code - both documents list the same parameters, request body and responses with the same schemas.",
         "Bounds as coded in harness/.../generator/swagen/zz_verif_c11.go, zz_verif_c01.go, zz_verif_c04.go. strconv.ParseFloat is interpreted from source (symbolic digits are enumerated). Component schemas are compared as far as the C07 harness goes.",
         "DESIGN.md 4 (C11)"),
 "C13": ("Pipeline tail: on a hand-built symbol graph with 2 (thorough 3) controllers (symbolic sort order of names) whose routes use different imported types, two independent executions of the real getReducedControllers, "
         "each under an arbitrary (symbolic) Go map iteration order of every map it ranges over, return the same controllers in the same (sorted) order with the same import serials. "
         "File enumeration: PackagesFacade.GetAllSourceFiles (which decides the order of a controller's routes) returns 3 files with symbolic names in the same order under every map iteration order. "
         "Spec writer: sortEnumValues/ForceOrderedJSON produce the same bytes for every arrival order of 3 symbolic enum values (strings of 1-2 bytes, numbers) at each of 7 placements in components.schemas. "
         "Front end: two analyses of a three-file, two-controller project with enum and struct names that differ only in letter case, the second with every map iterated forwards or backwards (one order per map), yield the same metadata in the same order. "
         "No carried state (engine-only): registerPartials registers the same partials and extensions for a configuration whether or not another configuration (any engine, template override, template extension, unreadable file) was generated before it in the process.",
         "Bounds as coded in harness/.../core/pipeline/zz_verif_c13.go. Symbolic map iteration order is an engine feature (every range over a map forks over the remaining entries). Stand-ins in the engine-only harness: os.ReadFile, the handlebars library's process-wide partial registry. Outside: order of packages.Load results, Handlebars rendering, encoding/json key order, the date comment; getImports/getModels orderings are not driven.",
         "DESIGN.md 4 (C13)"),
 "C19": ("Mechanism level: SyncedProvider hands the same serial to the same key and different serials to different keys over every sequence of 4 lookups with symbolic keys; MetadataCache's Start/FinishMaterializing/AddStruct protocol equals a map model over every sequence of 3 operations; "
         "GenerateIntermediate called twice on one long-lived pipeline (hand-built graph) returns the same controllers/routes/serials/models, does not grow the graph, and equals a brand-new session. "
         "Front end: on a real source file (controller with two routes, struct and enum models) every sequence of 1-3 further Run / GenerateGraph+GenerateIntermediate / Validate+GenerateIntermediate / GenerateIntermediate calls on the long-lived pipeline returns controllers, routes, parameters, import serials, models and imports equal to the first analysis and to a brand-new session.",
         "Bounds as coded in harness/.../core/pipeline/zz_verif_c13.go (vh_C19_*). Outside: source files that change between analyses (FileVersion.HasChanged is file-system state).",
         "DESIGN.md 4 (C19)"),
 "C14": ("Crash freedom, decided by reachability of a panic on every path of the bound: both schema validation converters on every validation string of one rule (vocabulary or junk) with a symbolic value of up to 2 bytes on 6 field types incl. a $ref type; "
         "the whole front end (parse, type-check, visitors, validators, reduction, both emitters) on 432 perturbed source files (see C10) and on 18 unusual type shapes (func, chan, interface, anonymous struct, generic instantiations with builtin and struct arguments, error, uintptr, complex) as model field (visible or json:\"-\"), query parameter or returned value; both model emitters on a struct field whose tag is free text (5 prefixes x 0-3 symbolic bytes over letters, quote, comma, '=' x 5 suffixes: missing closing quotes, empty values, stray quotes); annotation parsing and validators through vh_C14_* wrappers; "
         "in addition every other harness of this suite treats a reachable panic in the code under test as a violation (FindConflicts, symbol graph operations, annotation parsing, validators, both emitters).",
         "Bounds as coded in harness/.../generator/swagen/zz_verif_c11.go (vh_C14_*). Outside: go/packages loading, visitors, Handlebars, json5, cobra; wall-clock bounds of the real CLI; loops are bounded by the engine's instruction budget (exhaustion is reported as inconclusive, never as success).",
         "DESIGN.md 4 (C14)"),
 "C15": ("For every list of up to 3 routes (2 verbs, up to 2 segments each drawn from two literals and two parameters, with or without doubled/leading/trailing slashes at N=2) "
         "the real FindConflicts is sound (every conflict names two distinct same-verb entries that overlap by an independent index-loop reference), complete (every overlapping entry is named), "
         "sorted, and independent of list permutation and of map iteration order; all paths of the bound explored, solver-decided.",
         "Bounds as coded in harness/.../core/validators/paths/zz_verif_c15.go; fmt %q/%s modelled by the engine's fmt intrinsic; ApiValidator's diagnostics wiring not yet covered.",
         "DESIGN.md 4 (C15)"),
 "C16": ("For every comment line assembled from symbolic parts (name, value, optional JSON5 object from a fixed set, description) and every block of up to 3 lines, the real NewAnnotationHolder/parseCommentNode "
         "(with the real regexp package executed symbolically on the real parsingRegex) returns exactly the assembled name, value, properties and description, keeps other lines as free text in source order, "
         "and GetDescription follows the @Description/leading-free-text rule. One recorded grammar limitation (greedy JSON group) is reported as KNOWN-FINDING.",
         "Bounds as coded in harness/.../core/annotations/zz_verif_c16.go. json5.Unmarshal runs natively inside the engine on the (concretised) group-3 text (trusted library). Whitespace before the comma and descriptions with leading/trailing blanks are assumed away (grammar ambiguity).",
         "DESIGN.md 4 (C16)"),
 "C18": ("Range arithmetic: for every text of up to 5 units (ASCII incl. CR/LF, 2- and 3-byte UTF-8 sequences) and every rune-boundary offset, byteOffsetToLineCol equals a rune-counting reference; "
         "GetValueRange is start<=end, inside the comment's range and covers text equal to the value (or the whole comment when the value is absent), for symbolic start line/column in [0,65535]. "
         "Front end: for 5184 perturbed source files (see C10) every diagnostic Validate produces names the fixture file, has error severity, lies inside the file with start not after end, is not reported twice, and covers the text it is about (the invalid verb, the dangling @Path reference, the unbound {name}, the parameter declaration, the declaration line for return-shape rules), positions being those of a real parse with indentation and multibyte text; a route conflict between two methods is reported at each method's @Route value in the file that holds the method (same file as the controller or a sibling file). "
         "The command's error text (GetDiagnosticsWithSeverity + DiagnosticsToError, as Run builds it) mentions every error diagnostic. "
         "Two recorded findings (byte column of a comment's start when multibyte characters precede the comment on its line; the error text repeats entities) are reported as KNOWN-FINDING.",
         "Bounds as coded in harness/.../core/annotations/zz_verif_c18.go and generator/swagen/zz_verif_front.go. Outside: several controllers per file and several files in the diagnostics harness, the command's error text.",
         "DESIGN.md 4 (C18)"),
 "C09": ("The whole route generator is interpreted by the engine - controller source text (go/parser, go/types), the real visitors and GleecePipeline.Run, GenerateRoutes with the embedded handlebars templates, the raymond lexer/parser/evaluator (reflection model), the template helpers and OptimizeImportsAndFormat - over symbolic choices of the project's shape, one concrete file per path, every path within the bound explored: "
         "one route x 17 parameter types x query/header/path, 14 body types, 20 result shapes (with and without response validation), generation flags x security x package name with enum parameters and enum-bearing models, a context.Context parameter in any position, form fields, two controllers of one package, 8 validation rules, 11 schema names and 11 route texts with quotes, backslashes, spaces and non-ASCII letters, every file-system failure (engine-only), pairs of 8 (thorough 12) parameter names incl. snake case, capitals and the handler's own local names, two routes sharing type and parameter names across two packages - each for all five engines. "
         "Decided in the engine on every path: a file is written iff generation reports success; the file parses, is in the configured package, imports the configured engine, every import alias is a valid identifier, import names are unique, every import is used, nothing is selected through a name that is neither declared nor imported, every controller method is called, gofmt accepts the file and changes nothing but blank lines and import order. "
         "Decided by the native replay of every explored path of the quick tier (at most 200 per harness otherwise): the same bytes are produced by the real build (text compared), and the file type-checks (go/types) together with the project's packages against the real gin/echo/mux/fiber/chi, validator and gleece runtime packages and an authorization package of the documented signature. "
         "Alias kernel (symbolic text): for symbolic parameter/result names (1-2 bytes), serials and packages the aliases getImports builds are valid identifiers and coincide only for equal kind, serial and name. "
         "Four recorded findings (blank-line collapse after gofmt; map-typed body; map-typed result; slice-of-pointers body) are reported as KNOWN-FINDING; four defects were repaired (enum-typed body, 994e081; parameter names meeting after camel-casing are now refused, 12c1cbc; schema names that escape a string literal are now refused, 92fcbce - the harnesses assert the refusals; validation rules are emitted as Go string literals, fd1c4fb).",
         "Bounds as coded in harness/.../generator/routes/zz_verif_c09.go (+ zz_verif_c09_native.go) and core/pipeline/zz_verif_c09.go. The symbolic dimension is the finite shape of the project; the rendered text is concrete on every path, so the solver decides path feasibility and the alias kernel, not properties of unbounded text. "
         "Host calls on concrete operands (same library versions as /repo's build): regexp matching of the template lexer, golang.org/x/tools/imports.Process (runs the go command) and go/format.Source. Type-checking needs the real packages' export data (go list) and is native-only: a path that is not replayed has only the engine-side verdicts. "
         "Outside: user template overrides/extensions, projects of more than one controller package, compile-time behaviour of the real frameworks beyond type-checking (vet, linking).",
         "DESIGN.md 4 (C09), 9.9"),
 "C17": ("Every history of up to 3 public operations (add node of two kinds, add edge, remove edge by kind or all kinds, remove node) with symbolic operands over 3 node ids, 2 file versions and 2 edge kinds, "
         "started from the empty graph: afterwards Exists/Get/GetEdges (outgoing iff incoming, each edge once)/Children/Parents/Descendants/FindByKind of the real SymbolGraph equal a slice-based set-of-nodes/set-of-edges model "
         "(cascade removal as a fixpoint, version replacement); the same for every 2-operation history continuing from three prepared states (a node with an edge to a key that was never added, a chain of three nodes, two nodes with edges of two kinds in both directions). Thorough: 4 operations, 3 from the prepared states.",
         "Bounds as coded in harness/.../graphs/symboldg/zz_verif_c17.go. Histories are bounded (no inductive step yet); AddStruct/AddEnum/AddField composite insertions are not yet driven.",
         "DESIGN.md 4 (C17)"),
 "C20": ("Configuration gate: the real go-playground/validator, interpreted from source over the real `validate` tags of definitions.GleeceConfig, accepts 6 valid variants and rejects each of 22 single-field corruptions (unknown engine/version, malformed URL, e-mail, permission string, security scheme type/location/name, missing required fields) with a message naming the field; "
         "for symbolic permission strings (0-4 bytes) acceptance equals a byte-loop reference, for symbolic engine (3 bytes) and version texts acceptance equals membership in the documented sets; "
         "at the command level (engine-only) JSON5 configuration text served by a stand-in file system goes through LoadGleeceConfig: valid texts are read literally, corrupted ones make GenerateSpec/GenerateRoutes/GenerateSpecAndRoutes fail naming the field with nothing but the configuration read happening. "
         "Honoured-in-output kernel: for every permission string up to the stated length, if the configuration validator's own pattern (read from the struct tag, matched by the real regexp package executed symbolically) accepts it, "
         "getOutputFileMod returns exactly its octal value (0644 for empty); PermissionStringToFileMod errors iff the string is not an octal numeral within 0o7777. "
         "Security schemes (apiKey and oauth2 with symbolic flows/scopes) are copied into both documents flow by flow. Info (title, description, version, terms, optional license and contact, symbolic text) and the base URL are read back from the bytes GenerateSpec returns for 3.0 and 3.1. "
         "Glob filter (engine-only): loadPackagesFiltered registers exactly the glob-matched files of the loaded packages for every subset of 3 files in 2 packages, and nothing when the load fails; a package loaded on demand afterwards (GetPackage/GetPackages, to resolve a type) is served and its files map to it, but none of them becomes a source file.",
         "Bounds as coded in harness/.../generator/routes/zz_verif_c20.go. Stand-ins: packages.Load (returns the harness's packages or fails), the 3.0 validator and the 3.1 renderer/validator (generations they refuse are discarded; the 3.1 renderer stand-in writes the document's own version/info/servers). json5 is decoded by the real library on the concretised text (host call), os.Stat has an empty-file-system stand-in. Outside: doublestar globbing, file modes applied by the OS, engine/package-name selection in the templates.",
         "DESIGN.md 4 (C20)"),
}

NOT_APPLICABLE = {
}
PENDING = "check not built yet in this session (solver-based check planned in DESIGN.md 4; not claimed until it runs clean)"

def main():
    props = [json.loads(l)["id"] for l in open(os.path.join(HERE, "properties.jsonl"))]
    checks = []
    for pid in props:
        if pid in CLAIMS:
            text, note, ref = CLAIMS[pid]
            checks.append({
                "property_id": pid,
                "quick_cmd": f"./check {pid} quick",
                "thorough_cmd": f"./check {pid} thorough",
                "evidence_file": f"evidence/{pid}.json",
                "replay_cmd_template": f"./check {pid} --replay {{path}}",
                "engine": "gosym",
                "level_claimed": {"category": "model_checking", "text": text, "design_ref": ref},
                "level_note": note,
                "technique": TECH,
            })
    na = []
    for pid in props:
        if pid not in CLAIMS:
            na.append({"property_id": pid, "reason": NOT_APPLICABLE.get(pid, PENDING)})
    m = {
        "version": 1,
        "setup_cmd": "cd engine && GOFLAGS=-mod=mod GOPROXY=off go build -o ../bin/gosym ./cmd/gosym",
        "hooks": {"guard": "verif", "enable": "no source hooks: harnesses are injected through go/packages and `go test -overlay` overlays; /repo is never modified",
                  "baseline_off_cmd": BASELINE_OFF, "source_commits": [], "add_only": True},
        "engines": [{"name": "gosym", "path": "engine", "serves_properties": sorted(CLAIMS),
                     "kind_free_text": "forking symbolic interpreter for go/ssa (fork of x/tools go/ssa/interp v0.39.0) with SMT-LIB2 back end (z3, cvc5)"}],
        "checks": checks,
        "not_applicable": na,
        "notes": "exit codes: 0 held / 1 natively reproduced violation outside known findings / 2 inconclusive (never reported as success). known findings: known_findings.json",
    }
    json.dump(m, open(os.path.join(HERE, "MANIFEST.json"), "w"), indent=1)
    print("claimed:", sorted(CLAIMS), "n/a:", [x["property_id"] for x in na])

main()
